package main

// gin front-end stubs (C13/C15 HTTP half): the handler runs on a symbolic request.
// ShouldBind* either fails or fills the target struct with ANY value that satisfies its
// `binding` tags (the validator library is trusted to implement the tags); Param/QueryMap
// return arbitrary client data; JSON records the reply.

import (
	"fmt"
	"go/types"
	"reflect"
	"strconv"
	"strings"

	"golang.org/x/tools/go/ssa"
)

type httpReply struct {
	code *Term
	obj  Value
}

func bindingRules(tag string) (rules []string) {
	b := reflect.StructTag(tag).Get("binding")
	if b == "" {
		return nil
	}
	return strings.Split(b, ",")
}

// bindValue builds an arbitrary value of type t that satisfies the rules.
func (ex *Exec) bindValue(t types.Type, rules []string, name string, depth int) Value {
	tt := ex.tt
	has := func(r string) bool {
		for _, x := range rules {
			if x == r {
				return true
			}
		}
		return false
	}
	num := func(prefix string) (int64, bool) {
		for _, x := range rules {
			if strings.HasPrefix(x, prefix) {
				n, err := strconv.ParseInt(x[len(prefix):], 10, 64)
				return n, err == nil
			}
		}
		return 0, false
	}
	constrainScalar := func(v *Term, isString bool) {
		if isString {
			if has("required") {
				ex.addPC(tt.Not(tt.Eq(v, tt.Str(""))))
			}
			if n, ok := num("min="); ok && n >= 1 {
				ex.addPC(tt.Not(tt.Eq(v, tt.Str(""))))
			}
			for _, x := range rules {
				if strings.HasPrefix(x, "oneofcaseinsensitive=") {
					var cs []*Term
					for _, opt := range strings.Fields(x[len("oneofcaseinsensitive="):]) {
						cs = append(cs, tt.Eq(tt.UF("tolower", SString, v), tt.Str(strings.ToLower(opt))))
					}
					ex.addPC(tt.Or(cs...))
				}
			}
			return
		}
		w := v.sort.Width()
		if has("required") {
			ex.addPC(tt.Not(tt.Eq(v, tt.BV(0, w))))
		}
		for _, p := range []string{"min=", "gte="} {
			if n, ok := num(p); ok {
				ex.addPC(tt.SLe(tt.BV(uint64(n), w), v))
			}
		}
		for _, p := range []string{"max=", "lte="} {
			if n, ok := num(p); ok {
				ex.addPC(tt.SLe(v, tt.BV(uint64(n), w)))
			}
		}
	}
	switch u := t.Underlying().(type) {
	case *types.Basic:
		switch {
		case u.Info()&types.IsString != 0:
			v := ex.input(name, "string", SString)
			constrainScalar(v, true)
			return v
		case u.Info()&types.IsBoolean != 0:
			return ex.input(name, "bool", SBool)
		case u.Info()&types.IsFloat != 0:
			// a float datum: an opaque 64-bit pattern (never computed with, only converted or compared)
			return &OpaqueV{kind: "float", data: ex.input(name, "int64", SBV64)}
		case u.Info()&types.IsInteger != 0:
			w, _ := intWidth(u)
			v := ex.input(name, "int", BVSort(w))
			constrainScalar(v, false)
			// a named integer with its own UnmarshalJSON (an enum decoded from names) only takes its declared constants
			if nt, ok := t.(*types.Named); ok && nt.Obj().Pkg() != nil {
				if types.NewMethodSet(types.NewPointer(nt)).Lookup(nt.Obj().Pkg(), "UnmarshalJSON") != nil {
					if sp := ex.P.pkgs[nt.Obj().Pkg().Path()]; sp != nil {
						var cs []*Term
						for _, m := range sp.Members {
							if c, ok := m.(*ssa.NamedConst); ok && types.Identical(c.Type(), nt) {
								cs = append(cs, tt.Eq(v, ex.constVal(c.Value).(*Term)))
							}
						}
						if len(cs) > 0 {
							ex.addPC(tt.Or(cs...))
						}
					}
				}
			}
			return v
		}
	case *types.Pointer:
		inner := ex.bindValue(u.Elem(), rules, name, depth+1) // constraints apply when present (omitempty)
		isNil := ex.input(name+".nil", "bool", SBool)
		if has("required") {
			ex.addPC(tt.Not(isNil))
		}
		return &PtrV{obj: ex.newObj(inner, u.Elem()), isNil: isNil, typ: t}
	case *types.Struct:
		sv := &StructV{fs: make([]Value, u.NumFields())}
		for i := range sv.fs {
			sv.fs[i] = ex.bindValue(u.Field(i).Type(), bindingRules(u.Tag(i)), name+"."+u.Field(i).Name(), depth+1)
		}
		return sv
	case *types.Map:
		if isStringMap(t) {
			return ex.havocValue(t, name, depth)
		}
	case *types.Slice:
		if isByteSlice(t) {
			b := &BytesV{isNil: ex.input(name+".nil", "bool", SBool), s: ex.input(name, "bytes", SString)}
			if has("required") {
				ex.addPC(tt.And(tt.Not(b.isNil), tt.Not(tt.Eq(b.s, tt.Str("")))))
			}
			return b
		}
	}
	panic(ex.unsupported("binding of type %s", t))
}

func (ex *Exec) ginBind(kind string) InterceptFn {
	return func(ex *Exec, fr *Frame, a []Value, s ssa.Instruction) Value {
		ex.H.noteStub("gin ShouldBind" + kind + ": fails or yields any value satisfying the struct's binding tags")
		iv := a[1].(*IfaceV)
		pt := iv.typ.Underlying().(*types.Pointer)
		if ex.choose(2, nil, "gin-bind-"+kind) == 1 {
			return ex.opaqueErr("binding: validation failed")
		}
		ex.W.nbind++
		v := ex.bindValue(pt.Elem(), nil, fmt.Sprintf("http.%s%d", strings.ToLower(kind), ex.W.nbind), 0)
		// the harness keeps its own copy of what the client sent (vx.GinBound)
		ex.W.ginBound = append(ex.W.ginBound, ginBound{kind: kind, v: &IfaceV{typ: iv.typ, v: &PtrV{obj: ex.newObj(ex.deepCopy(v), pt.Elem()), typ: iv.typ}}})
		ex.store(ex.ptr(iv.v), v)
		return nilErr()
	}
}

type ginBound struct {
	kind string
	v    *IfaceV
}

// deepCopy duplicates structs, arrays and the cells behind non-nil pointers (terms are immutable; maps are shared).
func (ex *Exec) deepCopy(v Value) Value {
	switch x := v.(type) {
	case *StructV:
		c := &StructV{fs: make([]Value, len(x.fs))}
		for i := range x.fs {
			c.fs[i] = ex.deepCopy(x.fs[i])
		}
		return c
	case *ArrayV:
		c := &ArrayV{es: make([]Value, len(x.es))}
		for i := range x.es {
			c.es[i] = ex.deepCopy(x.es[i])
		}
		return c
	case *PtrV:
		if x.obj != nil && len(x.path) == 0 {
			c := *x
			c.obj = ex.newObj(ex.deepCopy(x.obj.v), x.obj.typ)
			return &c
		}
	}
	return v
}

func init() {
	g := "(*github.com/gin-gonic/gin.Context)."
	intercepts[g+"ShouldBindJSON"] = (*Exec)(nil).ginBind("JSON")
	intercepts[g+"ShouldBindHeader"] = (*Exec)(nil).ginBind("Header")
	intercepts[g+"ShouldBindQuery"] = (*Exec)(nil).ginBind("Query")
	intercepts[g+"ShouldBindUri"] = (*Exec)(nil).ginBind("Uri")
	intercepts[g+"Param"] = func(ex *Exec, fr *Frame, a []Value, s ssa.Instruction) Value {
		k := ex.str(a[1], "param name")
		if v, ok := ex.W.ginParams[k]; ok {
			return v
		}
		var v *Term = ex.input("http.param."+k, "string", SString)
		ex.W.ginSent[k] = v
		if ex.W.ginWildcards[k] {
			v = ex.tt.Concat(ex.tt.Str("/"), v) // gin's contract for a catch-all parameter (*name)
		}
		ex.W.ginParams[k] = v
		return v
	}
	intercepts[g+"QueryMap"] = func(ex *Exec, fr *Frame, a []Value, s ssa.Instruction) Value {
		return ex.havocValue(types.NewMap(types.Typ[types.String], types.Typ[types.String]), "http.querymap."+ex.str(a[1], "key"), 0)
	}
	intercepts[g+"JSON"] = func(ex *Exec, fr *Frame, a []Value, s ssa.Instruction) Value {
		ex.W.httpReplies = append(ex.W.httpReplies, httpReply{code: a[1].(*Term), obj: a[2]})
		return nil
	}
	intercepts[g+"GetHeader"] = func(ex *Exec, fr *Frame, a []Value, s ssa.Instruction) Value {
		return ex.input("http.header."+ex.str(a[1], "header"), "string", SString)
	}
	intercepts["strconv.Atoi"] = func(ex *Exec, fr *Frame, a []Value, s ssa.Instruction) Value {
		tt := ex.tt
		x := a[0].(*Term)
		if c, ok := x.StrVal(); ok {
			n, err := strconv.Atoi(c)
			if err != nil {
				return &TupleV{vs: []Value{tt.BV(0, 64), ex.opaqueErr("strconv.Atoi: invalid syntax")}}
			}
			return &TupleV{vs: []Value{tt.BV(uint64(int64(n)), 64), nilErr()}}
		}
		if x.op == "uf:itoa" && len(x.args) == 1 {
			return &TupleV{vs: []Value{x.args[0], nilErr()}} // Atoi(Itoa(n)) = n
		}
		ex.H.noteStub("strconv.Atoi: fails or returns an arbitrary int (uninterpreted atoi)")
		if !ex.branch(tt.UF("atoi_valid", SBool, x), "atoi-valid") {
			return &TupleV{vs: []Value{tt.BV(0, 64), ex.opaqueErr("strconv.Atoi: invalid syntax")}}
		}
		return &TupleV{vs: []Value{tt.UF("atoi", SBV64, x), nilErr()}}
	}
	vx("GinContext", func(ex *Exec, fr *Frame, a []Value, s ssa.Instruction) Value {
		// *gin.Context with Request = &http.Request{Method: method}
		call := s.(*ssa.Call)
		ct := call.Type().(*types.Pointer).Elem()
		c := ex.newStruct(ct)
		st := ct.Underlying().(*types.Struct)
		for i := 0; i < st.NumFields(); i++ {
			if st.Field(i).Name() == "Request" {
				rt := st.Field(i).Type().(*types.Pointer).Elem()
				req := ex.newStruct(rt)
				ex.fset(req, rt, "Method", a[0])
				ex.fset(c, ct, "Request", req)
			}
		}
		ex.W.ginParams = map[string]*Term{}
		ex.W.ginSent = map[string]*Term{}
		ex.W.ginWildcards = map[string]bool{}
		for _, wv := range ex.anySliceTerms(a[1]) {
			ex.W.ginWildcards[ex.str(wv, "wildcard parameter")] = true
		}
		return c
	})
	// what the client sent: the i-th successfully bound value of the given kind (JSON, Header, Query, Uri)
	vx("GinBound", func(ex *Exec, fr *Frame, a []Value, s ssa.Instruction) Value {
		kind := ex.str(a[0], "binding kind")
		i := ex.concreteInt(a[1], "binding index")
		for _, b := range ex.W.ginBound {
			if b.kind == kind {
				if i == 0 {
					return b.v
				}
				i--
			}
		}
		return &IfaceV{}
	})
	// the path parameter as the client sent it (without the '/' gin keeps in front of a catch-all parameter)
	vx("GinParamSent", func(ex *Exec, fr *Frame, a []Value, s ssa.Instruction) Value {
		k := ex.str(a[0], "param name")
		v, ok := ex.W.ginSent[k]
		if !ok {
			return ex.tt.Str("")
		}
		return v
	})
	vx("Atoi", func(ex *Exec, fr *Frame, a []Value, s ssa.Instruction) Value {
		if cs, ok := a[0].(*Term).StrVal(); ok {
			if n, err := strconv.Atoi(cs); err == nil {
				return ex.tt.BV(uint64(int64(n)), 64)
			}
		}
		return ex.tt.UF("atoi", SBV64, a[0].(*Term))
	})
	vx("HttpReplies", func(ex *Exec, fr *Frame, a []Value, s ssa.Instruction) Value {
		return ex.tt.BV(uint64(len(ex.W.httpReplies)), 64)
	})
	vx("HttpCode", func(ex *Exec, fr *Frame, a []Value, s ssa.Instruction) Value {
		return ex.tt.Resize(ex.W.httpReplies[ex.concreteInt(a[0], "reply index")].code, 64, true)
	})
	vx("HttpBody", func(ex *Exec, fr *Frame, a []Value, s ssa.Instruction) Value {
		return ex.W.httpReplies[ex.concreteInt(a[0], "reply index")].obj
	})
}

func (ex *Exec) anySliceTerms(v Value) []Value {
	sl, ok := v.(*SliceV)
	if !ok {
		return nil
	}
	var out []Value
	for i := 0; i < sl.len; i++ {
		out = append(out, sl.arr.v.(*ArrayV).es[sl.off+i])
	}
	return out
}
