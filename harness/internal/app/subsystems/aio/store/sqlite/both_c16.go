package sqlite

// C16: every store command is a conditional write on the current state and
// reports exactly the rows it changed. Differential harnesses: the real
// handler + the real SQL text on an arbitrary (invariant-satisfying) database
// against the reference written here from the property statement.
// This file is instantiated for both backends (package sqlite / postgres).

import (
	"github.com/resonatehq/resonate/internal/kernel/t_aio"
	"github.com/resonatehq/resonate/internal/vx"
	"github.com/resonatehq/resonate/pkg/idempotency"
	"github.com/resonatehq/resonate/pkg/message"
	"github.com/resonatehq/resonate/pkg/promise"
	"github.com/resonatehq/resonate/pkg/task"
)

func vhWorker() *SqliteStoreWorker {
	return VXWorker(vx.DB("sqlite"))
}

var vhTables = []string{"promises", "callbacks", "schedules", "locks", "tasks"}

// vhOthersSame: every table except `except` is unchanged between two snapshots.
func vhOthersSame(a, b int, except string) bool {
	ok := true
	for _, t := range vhTables {
		if t != except {
			ok = vx.And(ok, vx.SameTable(a, b, t))
		}
	}
	return ok
}

func vhExec1(w *SqliteStoreWorker, cmd *t_aio.Command) (*t_aio.Result, bool) {
	res, err := w.Execute([]*t_aio.Transaction{{Commands: []*t_aio.Command{cmd}}})
	if err != nil {
		return nil, false
	}
	return res[0][0], true
}

func vhB2I(b bool) int64 { return vx.IteInt64(b, 1, 0) }

// ---------------------------------------------------------------- promises

func VH_C16_UpdatePromise() {
	w := vhWorker()
	vx.Havoc()
	s0 := vx.Snap()
	id := vx.String("id")
	state := vx.Int64("state")
	vx.Assume(vx.Or(state == 2, state == 4, state == 8, state == 16))
	data := vx.Bytes("vdata")
	vx.Assume(!vx.BytesNil(data))
	hdrs := vx.Tags("vhdr", 1)
	ikc := vx.StringPtr("ikc")
	co := vx.Int64("completedOn")
	res, ok := vhExec1(w, &t_aio.Command{Kind: t_aio.UpdatePromise, UpdatePromise: &t_aio.UpdatePromiseCommand{Id: id, State: promise.State(state),
		Value: promise.Value{Headers: hdrs, Data: data}, IdempotencyKey: (*idempotency.Key)(ikc), CompletedOn: co}})
	s1 := vx.Snap()
	if !ok {
		vx.Assert(false, "no-error")
		return
	}
	pre := vx.Lookup(s0, "promises", id)
	post := vx.Lookup(s1, "promises", id)
	hit := vx.And(pre.Present(), pre.Int("state") == 1)
	vx.Assert(res.UpdatePromise.RowsAffected == vhB2I(hit), "rows-affected")
	vx.Assert(vx.Implies(hit, vx.And(post.Present(), post.Int("state") == state, post.Int("completed_on") == co, !post.Null("completed_on"),
		vx.BytesEq(post.Bytes("value_data"), data), !post.Null("value_data"), vx.MapEq(post.Map("value_headers"), hdrs),
		post.Null("idempotency_key_for_complete") == (ikc == nil),
		vx.Implies(ikc != nil, post.Str("idempotency_key_for_complete") == vx.StrPtrVal(ikc)))), "written-values")
	for i := 0; i < vx.NSlots("promises"); i++ {
		a, b := vx.Slot(s0, "promises", i), vx.Slot(s1, "promises", i)
		target := vx.And(a.Present(), a.Str("id") == id, a.Int("state") == 1)
		vx.Assert(vx.Implies(!target, vx.SameRow(a, b)), "others-unchanged")
		// creation fields of the target are untouched too
		vx.Assert(vx.Implies(target, vx.And(b.Present(), b.Str("id") == id, b.Int("timeout") == a.Int("timeout"), b.Int("sort_id") == a.Int("sort_id"),
			b.Int("created_on") == a.Int("created_on"), vx.BytesEq(a.Bytes("param_data"), b.Bytes("param_data")),
			a.Str("param_headers") == b.Str("param_headers"), a.Str("tags") == b.Str("tags"),
			a.Null("idempotency_key_for_create") == b.Null("idempotency_key_for_create"),
			a.Str("idempotency_key_for_create") == b.Str("idempotency_key_for_create"))), "creation-fields-kept")
	}
	vx.Assert(vhOthersSame(s0, s1, "promises"), "other-tables-unchanged")
	vx.Assert(vx.NextSort(s0, "promises") == vx.NextSort(s1, "promises"), "nextsort-unchanged")
	vx.Reach("done")
}

func VH_C16_CreatePromise() {
	w := vhWorker()
	vx.Havoc()
	s0 := vx.Snap()
	id := vx.String("id")
	data := vx.Bytes("pdata")
	vx.Assume(!vx.BytesNil(data))
	hdrs := vx.Tags("phdr", 1)
	tags := vx.Tags("tags", 1)
	ikc := vx.StringPtr("ikc")
	timeout := vx.Int64("timeout")
	createdOn := vx.Int64("createdOn")
	res, ok := vhExec1(w, &t_aio.Command{Kind: t_aio.CreatePromise, CreatePromise: &t_aio.CreatePromiseCommand{Id: id,
		Param: promise.Value{Headers: hdrs, Data: data}, Timeout: timeout, IdempotencyKey: (*idempotency.Key)(ikc), Tags: tags, CreatedOn: createdOn}})
	s1 := vx.Snap()
	if !ok {
		vx.Assert(false, "no-error")
		return
	}
	pre := vx.Lookup(s0, "promises", id)
	post := vx.Lookup(s1, "promises", id)
	ins := !pre.Present()
	vx.Assert(res.CreatePromise.RowsAffected == vhB2I(ins), "rows-affected")
	vx.Assert(vx.Implies(ins, vx.And(post.Present(), post.Int("state") == 1, post.Int("timeout") == timeout, post.Int("created_on") == createdOn,
		post.Null("completed_on"), post.Null("value_data"), post.Null("value_headers"), post.Null("idempotency_key_for_complete"),
		vx.BytesEq(post.Bytes("param_data"), data), vx.MapEq(post.Map("param_headers"), hdrs), vx.MapEq(post.Map("tags"), tags),
		post.Null("idempotency_key_for_create") == (ikc == nil),
		vx.Implies(ikc != nil, post.Str("idempotency_key_for_create") == vx.StrPtrVal(ikc)),
		post.Int("sort_id") == vx.NextSort(s0, "promises"), vx.NextSort(s1, "promises") == vx.NextSort(s0, "promises")+1)), "inserted-values")
	vx.Assert(vx.Implies(!ins, vx.SameTable(s0, s1, "promises")), "existing-untouched")
	for i := 0; i < vx.NSlots("promises"); i++ {
		a, b := vx.Slot(s0, "promises", i), vx.Slot(s1, "promises", i)
		vx.Assert(vx.Implies(a.Present(), vx.SameRow(a, b)), "others-unchanged")
	}
	vx.Assert(vhOthersSame(s0, s1, "promises"), "other-tables-unchanged")
	vx.Reach("done")
}

// The composite command: the task is created only if the promise was, and each reported count is the
// count of its own insert (a task id that is already taken inserts nothing and must be reported as 0).
func VH_C16_CreatePromiseAndTask() {
	w := vhWorker()
	vx.Havoc()
	s0 := vx.Snap()
	id, tid := vx.String("id"), vx.String("taskId")
	data := vx.Bytes("pdata")
	vx.Assume(!vx.BytesNil(data))
	hdrs, tags := vx.Tags("phdr", 1), vx.Tags("tags", 1)
	timeout, createdOn := vx.Int64("timeout"), vx.Int64("createdOn")
	recv := vx.Bytes("recv")
	vx.Assume(!vx.BytesNil(recv))
	pid := vx.String("processId")
	ttl := vx.Int("ttl")
	expiresAt := vx.Int64("expiresAt")
	mesg := &message.Mesg{Type: message.Invoke, Root: id, Leaf: id}
	res, ok := vhExec1(w, &t_aio.Command{Kind: t_aio.CreatePromiseAndTask, CreatePromiseAndTask: &t_aio.CreatePromiseAndTaskCommand{
		PromiseCommand: &t_aio.CreatePromiseCommand{Id: id, Param: promise.Value{Headers: hdrs, Data: data}, Timeout: timeout, Tags: tags, CreatedOn: createdOn},
		TaskCommand: &t_aio.CreateTaskCommand{Id: tid, Recv: recv, Mesg: mesg, Timeout: timeout, ProcessId: &pid, State: task.Claimed, Ttl: ttl, ExpiresAt: expiresAt, CreatedOn: createdOn}}})
	s1 := vx.Snap()
	if !ok {
		vx.Reach("error")
		vx.Assert(vx.SameDB(s0, s1), "error-no-effect")
		return
	}
	preP, postP := vx.Lookup(s0, "promises", id), vx.Lookup(s1, "promises", id)
	preT, postT := vx.Lookup(s0, "tasks", tid), vx.Lookup(s1, "tasks", tid)
	pins := !preP.Present()
	tins := vx.And(pins, !preT.Present())
	r := res.CreatePromiseAndTask
	vx.Assert(r.PromiseRowsAffected == vhB2I(pins), "promise-rows-affected")
	vx.Assert(r.TaskRowsAffected == vhB2I(tins), "task-rows-affected-is-the-task-inserts-own-count")
	vx.Assert(vx.Implies(pins, vx.And(postP.Present(), postP.Int("state") == 1, postP.Int("timeout") == timeout, postP.Int("created_on") == createdOn,
		vx.BytesEq(postP.Bytes("param_data"), data), vx.MapEq(postP.Map("param_headers"), hdrs), vx.MapEq(postP.Map("tags"), tags))), "promise-inserted-values")
	vx.Assert(vx.Implies(!pins, vx.SameDB(s0, s1)), "existing-promise-nothing-changes")
	vx.Assert(vx.Implies(tins, vx.And(postT.Present(), postT.Int("state") == 4, postT.Int("counter") == 1, postT.Int("ttl") == int64(ttl), postT.Int("expires_at") == expiresAt,
		postT.Str("process_id") == pid, !postT.Null("process_id"), postT.Str("root_promise_id") == id, vx.BytesEq(postT.Bytes("recv"), recv), postT.Int("timeout") == timeout)), "task-inserted-values")
	vx.Assert(vx.Implies(!tins, vx.SameTable(s0, s1, "tasks")), "existing-task-untouched")
	for i := 0; i < vx.NSlots("tasks"); i++ {
		a, b := vx.Slot(s0, "tasks", i), vx.Slot(s1, "tasks", i)
		vx.Assert(vx.Implies(a.Present(), vx.SameRow(a, b)), "other-tasks-unchanged")
	}
	vx.Assert(vx.And(vx.SameTable(s0, s1, "callbacks"), vx.SameTable(s0, s1, "locks"), vx.SameTable(s0, s1, "schedules")), "other-tables-unchanged")
	vx.Reach("done")
}

// ---------------------------------------------------------------- callbacks

func VH_C16_CreateCallback() {
	w := vhWorker()
	vx.Havoc()
	s0 := vx.Snap()
	id := vx.String("id")
	pid := vx.String("promiseId")
	recv := vx.Bytes("recv")
	vx.Assume(!vx.BytesNil(recv))
	mesg := &message.Mesg{Type: message.Type(vx.String("mtype")), Root: vx.String("root"), Leaf: vx.String("leaf")}
	timeout := vx.Int64("timeout")
	createdOn := vx.Int64("createdOn")
	res, ok := vhExec1(w, &t_aio.Command{Kind: t_aio.CreateCallback, CreateCallback: &t_aio.CreateCallbackCommand{Id: id, PromiseId: pid, Recv: recv, Mesg: mesg, Timeout: timeout, CreatedOn: createdOn}})
	s1 := vx.Snap()
	if !ok {
		vx.Reach("error") // postgres: 32-bit timeout column
		vx.Assert(vx.SameDB(s0, s1), "error-no-effect")
		return
	}
	p := vx.Lookup(s0, "promises", pid)
	pre := vx.Lookup(s0, "callbacks", id)
	post := vx.Lookup(s1, "callbacks", id)
	ins := vx.And(p.Present(), p.Int("state") == 1, !pre.Present())
	vx.Assert(res.CreateCallback.RowsAffected == vhB2I(ins), "rows-affected")
	vx.Assert(vx.Implies(ins, vx.And(post.Present(), post.Str("promise_id") == pid, post.Str("root_promise_id") == mesg.Root,
		vx.BytesEq(post.Bytes("recv"), recv), post.MesgType() == string(mesg.Type), post.MesgRoot() == mesg.Root, post.MesgLeaf() == mesg.Leaf,
		post.Int("timeout") == timeout, post.Int("created_on") == createdOn)), "inserted-values")
	vx.Assert(vx.Implies(!ins, vx.SameTable(s0, s1, "callbacks")), "refused-no-effect")
	for i := 0; i < vx.NSlots("callbacks"); i++ {
		a, b := vx.Slot(s0, "callbacks", i), vx.Slot(s1, "callbacks", i)
		vx.Assert(vx.Implies(a.Present(), vx.SameRow(a, b)), "others-unchanged")
	}
	vx.Assert(vhOthersSame(s0, s1, "callbacks"), "other-tables-unchanged")
	vx.Reach("done")
}

func VH_C16_DeleteCallbacks() {
	w := vhWorker()
	vx.Havoc()
	s0 := vx.Snap()
	pid := vx.String("promiseId")
	res, ok := vhExec1(w, &t_aio.Command{Kind: t_aio.DeleteCallbacks, DeleteCallbacks: &t_aio.DeleteCallbacksCommand{PromiseId: pid}})
	s1 := vx.Snap()
	if !ok {
		vx.Assert(false, "no-error")
		return
	}
	var n int64
	for i := 0; i < vx.NSlots("callbacks"); i++ {
		a, b := vx.Slot(s0, "callbacks", i), vx.Slot(s1, "callbacks", i)
		hit := vx.And(a.Present(), a.Str("promise_id") == pid)
		n += vhB2I(hit)
		vx.Assert(vx.Implies(hit, !b.Present()), "deleted")
		vx.Assert(vx.Implies(!hit, vx.SameRow(a, b)), "others-unchanged")
	}
	vx.Assert(res.DeleteCallbacks.RowsAffected == n, "rows-affected")
	vx.Assert(vhOthersSame(s0, s1, "callbacks"), "other-tables-unchanged")
	vx.Reach("done")
}

// ---------------------------------------------------------------- tasks

func vhStates(mask int64) []task.State {
	// concrete shapes: the harness forks over the subset of {Init,Enqueued,Claimed,Completed,Timedout}
	var out []task.State
	for _, s := range []task.State{task.Init, task.Enqueued, task.Claimed, task.Completed, task.Timedout} {
		if mask&int64(s) != 0 {
			out = append(out, s)
		}
	}
	return out
}

func VH_C16_UpdateTask() {
	w := vhWorker()
	vx.Havoc()
	s0 := vx.Snap()
	id := vx.String("id")
	pidp := vx.StringPtr("processId")
	state := vx.Int64("state")
	counter, attempt, ttl := vx.Int("counter"), vx.Int("attempt"), vx.Int("ttl")
	expiresAt := vx.Int64("expiresAt")
	completedOn := vx.Int64Ptr("completedOn")
	mask := vx.Int64("mask")
	vx.Assume(vx.And(mask > 0, mask < 32))
	cur := vhStates(mask)
	curCounter := vx.Int("curCounter")
	res, ok := vhExec1(w, &t_aio.Command{Kind: t_aio.UpdateTask, UpdateTask: &t_aio.UpdateTaskCommand{Id: id, ProcessId: pidp, State: task.State(state),
		Counter: counter, Attempt: attempt, Ttl: ttl, ExpiresAt: expiresAt, CompletedOn: completedOn, CurrentStates: cur, CurrentCounter: curCounter}})
	s1 := vx.Snap()
	if !ok {
		vx.Reach("error") // postgres: 32-bit counter/attempt/ttl columns
		vx.Assert(vx.SameDB(s0, s1), "error-no-effect")
		return
	}
	pre := vx.Lookup(s0, "tasks", id)
	post := vx.Lookup(s1, "tasks", id)
	hit := vx.And(pre.Present(), pre.Int("state")&mask != 0, pre.Int("counter") == int64(curCounter))
	vx.Assert(res.UpdateTask.RowsAffected == vhB2I(hit), "rows-affected")
	vx.Assert(vx.Implies(hit, vx.And(post.Present(), post.Int("state") == state, post.Int("counter") == int64(counter), post.Int("attempt") == int64(attempt),
		post.Int("ttl") == int64(ttl), post.Int("expires_at") == expiresAt,
		post.Null("process_id") == (pidp == nil), vx.Implies(pidp != nil, post.Str("process_id") == vx.StrPtrVal(pidp)),
		post.Null("completed_on") == (completedOn == nil), vx.Implies(completedOn != nil, post.Int("completed_on") == vx.Int64PtrVal(completedOn)))), "written-values")
	for i := 0; i < vx.NSlots("tasks"); i++ {
		a, b := vx.Slot(s0, "tasks", i), vx.Slot(s1, "tasks", i)
		target := vx.And(a.Present(), a.Str("id") == id, a.Int("state")&mask != 0, a.Int("counter") == int64(curCounter))
		vx.Assert(vx.Implies(!target, vx.SameRow(a, b)), "others-unchanged")
		vx.Assert(vx.Implies(target, vx.And(b.Present(), b.Str("id") == id, a.Str("root_promise_id") == b.Str("root_promise_id"), a.Str("mesg") == b.Str("mesg"),
			a.Str("recv") == b.Str("recv"), a.Int("timeout") == b.Int("timeout"), a.Int("created_on") == b.Int("created_on"), a.Int("sort_id") == b.Int("sort_id"))), "identity-kept")
	}
	vx.Assert(vhOthersSame(s0, s1, "tasks"), "other-tables-unchanged")
	vx.Reach("done")
}

func VH_C16_CreateTask() {
	w := vhWorker()
	vx.Havoc()
	s0 := vx.Snap()
	id := vx.String("id")
	recv := vx.Bytes("recv")
	vx.Assume(!vx.BytesNil(recv))
	mesg := &message.Mesg{Type: message.Type(vx.String("mtype")), Root: vx.String("root"), Leaf: vx.String("leaf")}
	timeout := vx.Int64("timeout")
	pid := vx.String("processId")
	claimed := vx.Choose(2) == 1
	var pidp *string
	st := task.Init
	if claimed {
		pidp = &pid
		st = task.Claimed
	}
	ttl := vx.Int("ttl")
	expiresAt, createdOn := vx.Int64("expiresAt"), vx.Int64("createdOn")
	res, ok := vhExec1(w, &t_aio.Command{Kind: t_aio.CreateTask, CreateTask: &t_aio.CreateTaskCommand{Id: id, Recv: recv, Mesg: mesg, Timeout: timeout,
		ProcessId: pidp, State: st, Ttl: ttl, ExpiresAt: expiresAt, CreatedOn: createdOn}})
	s1 := vx.Snap()
	if !ok {
		vx.Reach("error")
		vx.Assert(vx.SameDB(s0, s1), "error-no-effect")
		return
	}
	pre := vx.Lookup(s0, "tasks", id)
	post := vx.Lookup(s1, "tasks", id)
	ins := !pre.Present()
	vx.Assert(res.CreateTask.RowsAffected == vhB2I(ins), "rows-affected")
	vx.Assert(vx.Implies(ins, vx.And(post.Present(), post.Int("state") == int64(st), post.Int("counter") == 1, post.Int("attempt") == 0,
		post.Int("ttl") == int64(ttl), post.Int("expires_at") == expiresAt, post.Int("created_on") == createdOn, post.Null("completed_on"),
		post.Int("timeout") == timeout, post.Str("root_promise_id") == mesg.Root, vx.BytesEq(post.Bytes("recv"), recv),
		post.MesgType() == string(mesg.Type), post.MesgRoot() == mesg.Root, post.MesgLeaf() == mesg.Leaf,
		post.Null("process_id") == !claimed, vx.Implies(claimed, post.Str("process_id") == pid),
		post.Int("sort_id") == vx.NextSort(s0, "tasks"))), "inserted-values")
	vx.Assert(vx.Implies(!ins, vx.SameTable(s0, s1, "tasks")), "existing-untouched")
	for i := 0; i < vx.NSlots("tasks"); i++ {
		a, b := vx.Slot(s0, "tasks", i), vx.Slot(s1, "tasks", i)
		vx.Assert(vx.Implies(a.Present(), vx.SameRow(a, b)), "others-unchanged")
	}
	vx.Assert(vhOthersSame(s0, s1, "tasks"), "other-tables-unchanged")
	vx.Reach("done")
}

func VH_C16_CompleteTasks() {
	w := vhWorker()
	vx.Havoc()
	s0 := vx.Snap()
	root := vx.String("root")
	co := vx.Int64("completedOn")
	res, ok := vhExec1(w, &t_aio.Command{Kind: t_aio.CompleteTasks, CompleteTasks: &t_aio.CompleteTasksCommand{RootPromiseId: root, CompletedOn: co}})
	s1 := vx.Snap()
	if !ok {
		vx.Assert(false, "no-error")
		return
	}
	var n int64
	for i := 0; i < vx.NSlots("tasks"); i++ {
		a, b := vx.Slot(s0, "tasks", i), vx.Slot(s1, "tasks", i)
		st := a.Int("state")
		hit := vx.And(a.Present(), a.Str("root_promise_id") == root, vx.Or(st == 1, st == 2, st == 4))
		n += vhB2I(hit)
		vx.Assert(vx.Implies(hit, vx.And(b.Present(), b.Int("state") == 8, b.Int("completed_on") == co, !b.Null("completed_on"),
			b.Str("id") == a.Str("id"), b.Int("counter") == a.Int("counter"), b.Int("sort_id") == a.Int("sort_id"))), "completed")
		vx.Assert(vx.Implies(!hit, vx.SameRow(a, b)), "others-unchanged")
	}
	vx.Assert(res.CompleteTasks.RowsAffected == n, "rows-affected")
	vx.Assert(vhOthersSame(s0, s1, "tasks"), "other-tables-unchanged")
	vx.Reach("done")
}

func VH_C16_HeartbeatTasks() {
	w := vhWorker()
	vx.Havoc()
	s0 := vx.Snap()
	pid := vx.String("processId")
	t := vx.Int64("time")
	res, ok := vhExec1(w, &t_aio.Command{Kind: t_aio.HeartbeatTasks, HeartbeatTasks: &t_aio.HeartbeatTasksCommand{ProcessId: pid, Time: t}})
	s1 := vx.Snap()
	if !ok {
		vx.Assert(false, "no-error")
		return
	}
	var n int64
	for i := 0; i < vx.NSlots("tasks"); i++ {
		a, b := vx.Slot(s0, "tasks", i), vx.Slot(s1, "tasks", i)
		hit := vx.And(a.Present(), !a.Null("process_id"), a.Str("process_id") == pid, a.Int("state") == 4)
		n += vhB2I(hit)
		vx.Assert(vx.Implies(hit, vx.And(b.Present(), b.Int("expires_at") == t+a.Int("ttl"), b.Int("state") == 4, b.Int("counter") == a.Int("counter"),
			b.Str("id") == a.Str("id"), b.Str("process_id") == pid, b.Int("ttl") == a.Int("ttl"))), "extended")
		vx.Assert(vx.Implies(!hit, vx.SameRow(a, b)), "others-unchanged")
	}
	vx.Assert(res.HeartbeatTasks.RowsAffected == n, "rows-affected")
	vx.Assert(vhOthersSame(s0, s1, "tasks"), "other-tables-unchanged")
	vx.Reach("done")
}

// CreateTasks: every callback of the promise becomes exactly one task (INSERT..SELECT).
func VH_C16_CreateTasks() {
	w := vhWorker()
	vx.Havoc()
	s0 := vx.Snap()
	pid := vx.String("promiseId")
	createdOn := vx.Int64("createdOn")
	res, ok := vhExec1(w, &t_aio.Command{Kind: t_aio.CreateTasks, CreateTasks: &t_aio.CreateTasksCommand{PromiseId: pid, CreatedOn: createdOn}})
	s1 := vx.Snap()
	if !ok {
		// INSERT..SELECT has no conflict clause: a task that already carries a callback's id (only possible
		// through the ambiguous derived ids, finding D12) makes the statement fail; nothing may be written then
		vx.Reach("error")
		vx.Assert(vx.SameDB(s0, s1), "error-no-effect")
		return
	}
	var n int64
	for i := 0; i < vx.NSlots("callbacks"); i++ {
		c := vx.Slot(s0, "callbacks", i)
		hit := vx.And(c.Present(), c.Str("promise_id") == pid)
		n += vhB2I(hit)
		t := vx.Lookup(s1, "tasks", c.Str("id"))
		vx.Assert(vx.Implies(hit, vx.And(t.Present(), t.Int("state") == 1, t.Int("counter") == 1, t.Int("attempt") == 0, t.Null("process_id"),
			t.Str("recv") == c.Str("recv"), t.Str("mesg") == c.Str("mesg"), t.Int("timeout") == c.Int("timeout"),
			t.Str("root_promise_id") == c.Str("root_promise_id"), t.Int("created_on") == createdOn, t.Null("completed_on"),
			t.Int("sort_id") >= vx.NextSort(s0, "tasks"), t.Int("sort_id") < vx.NextSort(s1, "tasks"))), "task-per-callback")
	}
	vx.Assert(res.CreateTasks.RowsAffected == n, "rows-affected")
	vx.Assert(vx.NextSort(s1, "tasks") == vx.NextSort(s0, "tasks")+n, "nextsort")
	var created int64
	for i := 0; i < vx.NSlots("tasks"); i++ {
		a, b := vx.Slot(s0, "tasks", i), vx.Slot(s1, "tasks", i)
		vx.Assert(vx.Implies(a.Present(), vx.SameRow(a, b)), "existing-unchanged")
		isNew := vx.And(!a.Present(), b.Present())
		created += vhB2I(isNew)
		// every new task comes from a callback of that promise
		cb := vx.Lookup(s0, "callbacks", b.Str("id"))
		vx.Assert(vx.Implies(isNew, vx.And(cb.Present(), cb.Str("promise_id") == pid)), "no-spurious-task")
	}
	vx.Assert(created == n, "created-count")
	vx.Assert(vhOthersSame(s0, s1, "tasks"), "other-tables-unchanged")
	vx.Reach("done")
}

// ---------------------------------------------------------------- locks

func VH_C16_AcquireLock() {
	w := vhWorker()
	vx.Havoc()
	s0 := vx.Snap()
	rid, eid, pid := vx.String("resourceId"), vx.String("executionId"), vx.String("processId")
	ttl, exp := vx.Int64("ttl"), vx.Int64("expiresAt")
	res, ok := vhExec1(w, &t_aio.Command{Kind: t_aio.AcquireLock, AcquireLock: &t_aio.AcquireLockCommand{ResourceId: rid, ExecutionId: eid, ProcessId: pid, Ttl: ttl, ExpiresAt: exp}})
	s1 := vx.Snap()
	if !ok {
		vx.Assert(false, "no-error")
		return
	}
	pre := vx.Lookup(s0, "locks", rid)
	post := vx.Lookup(s1, "locks", rid)
	free := !pre.Present()
	same := vx.And(pre.Present(), pre.Str("execution_id") == eid)
	vx.Assert(res.AcquireLock.RowsAffected == vhB2I(vx.Or(free, same)), "rows-affected")
	vx.Assert(vx.Implies(vx.Or(free, same), vx.And(post.Present(), post.Str("execution_id") == eid, post.Str("process_id") == pid, post.Int("ttl") == ttl, post.Int("expires_at") == exp)), "acquired-values")
	vx.Assert(vx.Implies(vx.And(pre.Present(), !same), vx.SameTable(s0, s1, "locks")), "held-by-other-untouched")
	for i := 0; i < vx.NSlots("locks"); i++ {
		a, b := vx.Slot(s0, "locks", i), vx.Slot(s1, "locks", i)
		vx.Assert(vx.Implies(vx.And(a.Present(), a.Str("resource_id") != rid), vx.SameRow(a, b)), "others-unchanged")
	}
	vx.Assert(vhOthersSame(s0, s1, "locks"), "other-tables-unchanged")
	vx.Reach("done")
}

func VH_C16_ReleaseLock() {
	w := vhWorker()
	vx.Havoc()
	s0 := vx.Snap()
	rid, eid := vx.String("resourceId"), vx.String("executionId")
	res, ok := vhExec1(w, &t_aio.Command{Kind: t_aio.ReleaseLock, ReleaseLock: &t_aio.ReleaseLockCommand{ResourceId: rid, ExecutionId: eid}})
	s1 := vx.Snap()
	if !ok {
		vx.Assert(false, "no-error")
		return
	}
	var n int64
	for i := 0; i < vx.NSlots("locks"); i++ {
		a, b := vx.Slot(s0, "locks", i), vx.Slot(s1, "locks", i)
		hit := vx.And(a.Present(), a.Str("resource_id") == rid, a.Str("execution_id") == eid)
		n += vhB2I(hit)
		vx.Assert(vx.Implies(hit, !b.Present()), "released")
		vx.Assert(vx.Implies(!hit, vx.SameRow(a, b)), "others-unchanged")
	}
	vx.Assert(res.ReleaseLock.RowsAffected == n, "rows-affected")
	vx.Assert(vhOthersSame(s0, s1, "locks"), "other-tables-unchanged")
	vx.Reach("done")
}

func VH_C16_HeartbeatLocks() {
	w := vhWorker()
	vx.Havoc()
	s0 := vx.Snap()
	pid := vx.String("processId")
	t := vx.Int64("time")
	res, ok := vhExec1(w, &t_aio.Command{Kind: t_aio.HeartbeatLocks, HeartbeatLocks: &t_aio.HeartbeatLocksCommand{ProcessId: pid, Time: t}})
	s1 := vx.Snap()
	if !ok {
		vx.Assert(false, "no-error")
		return
	}
	var n int64
	for i := 0; i < vx.NSlots("locks"); i++ {
		a, b := vx.Slot(s0, "locks", i), vx.Slot(s1, "locks", i)
		hit := vx.And(a.Present(), a.Str("process_id") == pid)
		n += vhB2I(hit)
		vx.Assert(vx.Implies(hit, vx.And(b.Present(), b.Int("expires_at") == t+a.Int("ttl"), b.Str("resource_id") == a.Str("resource_id"),
			b.Str("execution_id") == a.Str("execution_id"), b.Str("process_id") == pid, b.Int("ttl") == a.Int("ttl"))), "extended")
		vx.Assert(vx.Implies(!hit, vx.SameRow(a, b)), "others-unchanged")
	}
	vx.Assert(res.HeartbeatLocks.RowsAffected == n, "rows-affected")
	vx.Assert(vhOthersSame(s0, s1, "locks"), "other-tables-unchanged")
	vx.Reach("done")
}

func VH_C16_TimeoutLocks() {
	w := vhWorker()
	vx.Havoc()
	s0 := vx.Snap()
	t := vx.Int64("time")
	res, ok := vhExec1(w, &t_aio.Command{Kind: t_aio.TimeoutLocks, TimeoutLocks: &t_aio.TimeoutLocksCommand{Timeout: t}})
	s1 := vx.Snap()
	if !ok {
		vx.Assert(false, "no-error")
		return
	}
	var n int64
	for i := 0; i < vx.NSlots("locks"); i++ {
		a, b := vx.Slot(s0, "locks", i), vx.Slot(s1, "locks", i)
		hit := vx.And(a.Present(), a.Int("expires_at") <= t)
		n += vhB2I(hit)
		vx.Assert(vx.Implies(hit, !b.Present()), "expired-removed")
		vx.Assert(vx.Implies(!hit, vx.SameRow(a, b)), "others-unchanged")
	}
	vx.Assert(res.TimeoutLocks.RowsAffected == n, "rows-affected")
	vx.Assert(vhOthersSame(s0, s1, "locks"), "other-tables-unchanged")
	vx.Reach("done")
}

// ---------------------------------------------------------------- schedules

func VH_C16_CreateSchedule() {
	w := vhWorker()
	vx.Havoc()
	s0 := vx.Snap()
	id, desc, cron, ppid := vx.String("id"), vx.String("desc"), vx.String("cron"), vx.String("promiseId")
	tags, ptags, phdr := vx.Tags("tags", 1), vx.Tags("ptags", 1), vx.Tags("phdr", 1)
	pdata := vx.Bytes("pdata")
	vx.Assume(!vx.BytesNil(pdata))
	ptimeout, next, createdOn := vx.Int64("ptimeout"), vx.Int64("next"), vx.Int64("createdOn")
	ikey := vx.StringPtr("ikey")
	res, ok := vhExec1(w, &t_aio.Command{Kind: t_aio.CreateSchedule, CreateSchedule: &t_aio.CreateScheduleCommand{Id: id, Description: desc, Cron: cron, Tags: tags,
		PromiseId: ppid, PromiseTimeout: ptimeout, PromiseParam: promise.Value{Headers: phdr, Data: pdata}, PromiseTags: ptags, NextRunTime: next,
		IdempotencyKey: (*idempotency.Key)(ikey), CreatedOn: createdOn}})
	s1 := vx.Snap()
	if !ok {
		vx.Assert(false, "no-error")
		return
	}
	pre := vx.Lookup(s0, "schedules", id)
	post := vx.Lookup(s1, "schedules", id)
	ins := !pre.Present()
	vx.Assert(res.CreateSchedule.RowsAffected == vhB2I(ins), "rows-affected")
	vx.Assert(vx.Implies(ins, vx.And(post.Present(), post.Str("description") == desc, post.Str("cron") == cron, post.Str("promise_id") == ppid,
		post.Int("promise_timeout") == ptimeout, post.Int("next_run_time") == next, post.Null("last_run_time"), post.Int("created_on") == createdOn,
		vx.MapEq(post.Map("tags"), tags), vx.MapEq(post.Map("promise_tags"), ptags), vx.MapEq(post.Map("promise_param_headers"), phdr),
		vx.BytesEq(post.Bytes("promise_param_data"), pdata),
		post.Null("idempotency_key") == (ikey == nil), vx.Implies(ikey != nil, post.Str("idempotency_key") == vx.StrPtrVal(ikey)),
		post.Int("sort_id") == vx.NextSort(s0, "schedules"))), "inserted-values")
	vx.Assert(vx.Implies(!ins, vx.SameTable(s0, s1, "schedules")), "existing-untouched")
	for i := 0; i < vx.NSlots("schedules"); i++ {
		a, b := vx.Slot(s0, "schedules", i), vx.Slot(s1, "schedules", i)
		vx.Assert(vx.Implies(a.Present(), vx.SameRow(a, b)), "others-unchanged")
	}
	vx.Assert(vhOthersSame(s0, s1, "schedules"), "other-tables-unchanged")
	vx.Reach("done")
}

func VH_C16_UpdateSchedule() {
	w := vhWorker()
	vx.Havoc()
	s0 := vx.Snap()
	id := vx.String("id")
	last := vx.Int64Ptr("last")
	next := vx.Int64("next")
	res, ok := vhExec1(w, &t_aio.Command{Kind: t_aio.UpdateSchedule, UpdateSchedule: &t_aio.UpdateScheduleCommand{Id: id, LastRunTime: last, NextRunTime: next}})
	s1 := vx.Snap()
	if !ok {
		vx.Assert(false, "no-error")
		return
	}
	pre := vx.Lookup(s0, "schedules", id)
	post := vx.Lookup(s1, "schedules", id)
	hit := vx.And(pre.Present(), last != nil, pre.Int("next_run_time") == vx.Int64PtrVal(last))
	vx.Assert(res.UpdateSchedule.RowsAffected == vhB2I(hit), "rows-affected")
	vx.Assert(vx.Implies(hit, vx.And(post.Present(), post.Int("last_run_time") == pre.Int("next_run_time"), !post.Null("last_run_time"), post.Int("next_run_time") == next)), "advanced")
	for i := 0; i < vx.NSlots("schedules"); i++ {
		a, b := vx.Slot(s0, "schedules", i), vx.Slot(s1, "schedules", i)
		target := vx.And(a.Present(), a.Str("id") == id, hit)
		vx.Assert(vx.Implies(!target, vx.SameRow(a, b)), "others-unchanged")
		vx.Assert(vx.Implies(target, vx.And(b.Present(), b.Str("id") == id, a.Str("cron") == b.Str("cron"), a.Str("promise_id") == b.Str("promise_id"),
			a.Int("promise_timeout") == b.Int("promise_timeout"), a.Int("sort_id") == b.Int("sort_id"), a.Int("created_on") == b.Int("created_on"))), "config-kept")
	}
	vx.Assert(vhOthersSame(s0, s1, "schedules"), "other-tables-unchanged")
	vx.Reach("done")
}

func VH_C16_DeleteSchedule() {
	w := vhWorker()
	vx.Havoc()
	s0 := vx.Snap()
	id := vx.String("id")
	res, ok := vhExec1(w, &t_aio.Command{Kind: t_aio.DeleteSchedule, DeleteSchedule: &t_aio.DeleteScheduleCommand{Id: id}})
	s1 := vx.Snap()
	if !ok {
		vx.Assert(false, "no-error")
		return
	}
	var n int64
	for i := 0; i < vx.NSlots("schedules"); i++ {
		a, b := vx.Slot(s0, "schedules", i), vx.Slot(s1, "schedules", i)
		hit := vx.And(a.Present(), a.Str("id") == id)
		n += vhB2I(hit)
		vx.Assert(vx.Implies(hit, !b.Present()), "deleted")
		vx.Assert(vx.Implies(!hit, vx.SameRow(a, b)), "others-unchanged")
	}
	vx.Assert(res.DeleteSchedule.RowsAffected == n, "rows-affected")
	vx.Assert(vhOthersSame(s0, s1, "schedules"), "other-tables-unchanged")
	vx.Reach("done")
}

// VH_T0_Smoke: engine smoke test (forking, assumptions, arithmetic).
func VH_T0_Smoke() {
	x := vx.Int64("x")
	y := vx.Int64("y")
	vx.Assume(vx.And(x > 0, y > 0, x < 100, y < 100))
	if x > y {
		vx.Reach("gt")
		vx.Assert(x+y > 2*y, "sum")
	} else {
		vx.Reach("le")
		vx.Assert(x+y <= 2*y, "sum2")
	}
}
