package coroutines

import (
	"github.com/prometheus/client_golang/prometheus"
	"github.com/resonatehq/gocoro"
	i_api "github.com/resonatehq/resonate/internal/api"
	"github.com/resonatehq/resonate/internal/kernel/bus"
	"github.com/resonatehq/resonate/internal/metrics"
	"github.com/resonatehq/resonate/internal/kernel/t_aio"
	"github.com/resonatehq/resonate/internal/kernel/t_api"
	"github.com/resonatehq/resonate/internal/util"
	"github.com/resonatehq/resonate/internal/app/subsystems/aio/store/postgres"
	"github.com/resonatehq/resonate/internal/app/subsystems/aio/store/sqlite"
	"github.com/resonatehq/resonate/internal/kernel/system"
	"github.com/resonatehq/resonate/internal/vx"
	"github.com/resonatehq/resonate/pkg/idempotency"
	"github.com/resonatehq/resonate/pkg/promise"
)

// vhSetup: symbolic world for a coroutine harness. backend 0 = sqlite, 1 = postgres.
func vhSetup(flags int) vx.Coro {
	if vx.Opt("backend", 0) == 1 {
		vx.UseStore(postgres.VXWorker(vx.DB("postgres")))
	} else {
		vx.UseStore(sqlite.VXWorker(vx.DB("sqlite")))
	}
	// every other numeric setting is arbitrary within its admissible range (1..1000): no coroutine may let the
	// pool or kernel batch sizes decide what it reads or writes
	cms, sbs, cbs := vx.Int("config.coroutineMaxSize"), vx.Int("config.submissionBatchSize"), vx.Int("config.completionBatchSize")
	vx.Assume(vx.And(cms >= 1, cms <= 1000, sbs >= 1, sbs <= 1000, cbs >= 1, cbs <= 1000))
	vx.SetConfig(&system.Config{Url: vx.String("config.url"), PromiseBatchSize: vx.Opt("batch", 2), ScheduleBatchSize: vx.Opt("batch", 2),
		CoroutineMaxSize: cms, SubmissionBatchSize: sbs, CompletionBatchSize: cbs,
		TaskBatchSize: vx.Opt("batch", 2), TaskEnqueueDelay: vx.DurationMs("config.taskEnqueueDelay", 0, 1<<32), SignalTimeout: vx.DurationMs("config.signalTimeout", 0, 1<<32)})
	vx.AutoO2("O2")
	if vx.Opt("warm", 0) == 1 {
		vhWarm()
	}
	c := vx.Coroutine(flags)
	vx.Havoc()
	return c
}

// vhWarm: an earlier stretch of the same server process's life, run before the checked request: a promise is
// created, read, awaited and completed, a schedule is created, fires and is deleted, a lock is taken and released
// and every background sweep runs once - all with arbitrary (symbolic) ids, templates, keys and data, on an empty
// database. The database the checked request then meets is arbitrary (vx.Havoc), so whatever the process
// remembers from this stretch - a cache keyed by an id, a retained buffer, a parsed template - is stale by
// construction, and every obligation of the harness is thereby also an obligation that the request's behaviour
// depends on the stored state and the request only.
func vhWarm() {
	vx.WarmBegin()
	c := vx.Coroutine(vx.Sequential)
	cfg, _ := c.Get("config").(*system.Config)
	T := map[string]string{}
	steps := vx.Opt("warmsteps", 99)
	// one history is enough (the claim is existential in the earlier history): every step takes its
	// ordinary successful course, other courses are pruned
	need := func(ok bool) {
		if !ok {
			vx.Assume(false)
		}
	}
	// (a step is skipped when the harness's bound gives its table no slot)
	pid := vx.String("warm.promise")
	if vx.NSlots("promises") > 0 && steps >= 1 {
		ikey := idempotency.Key(vx.String("warm.ikey"))
		r1, e1 := CreatePromise(c, &t_api.Request{Kind: t_api.CreatePromise, Tags: T, CreatePromise: &t_api.CreatePromiseRequest{Id: pid, IdempotencyKey: &ikey, Timeout: 1 << 62,
			Param: promise.Value{Headers: vhWarmMap("warm.phdr"), Data: vhWarmBytes("warm.pdata")}, Tags: vhWarmMap("warm.tags")}})
		need(e1 == nil && r1.CreatePromise.Status == t_api.StatusCreated)
		r2, e2 := ReadPromise(c, &t_api.Request{Kind: t_api.ReadPromise, Tags: T, ReadPromise: &t_api.ReadPromiseRequest{Id: pid}})
		need(e2 == nil && r2.ReadPromise.Status == t_api.StatusOK)
		r3, e3 := CompletePromise(c, &t_api.Request{Kind: t_api.CompletePromise, Tags: T, CompletePromise: &t_api.CompletePromiseRequest{Id: pid, IdempotencyKey: &ikey, State: promise.Resolved,
			Value: promise.Value{Headers: vhWarmMap("warm.vhdr"), Data: vhWarmBytes("warm.vdata")}}})
		need(e3 == nil && r3.CompletePromise.Status == t_api.StatusCreated)
		_, _ = TimeoutPromises(cfg, T)(c)
	}
	if vx.NSlots("schedules") > 0 && vx.NSlots("promises") > 0 && steps >= 2 {
		sid, tmpl := vx.String("warm.schedule"), vx.String("warm.template")
		r1, e1 := CreateSchedule(c, &t_api.Request{Kind: t_api.CreateSchedule, Tags: T, CreateSchedule: &t_api.CreateScheduleRequest{Id: sid, Cron: vx.String("warm.cron"), Tags: map[string]string{},
			PromiseId: tmpl, PromiseTimeout: 1000, PromiseParam: promise.Value{Headers: vhWarmMap("warm.shdr"), Data: vhWarmBytes("warm.sdata")}, PromiseTags: vhWarmMap("warm.stags")}})
		need(e1 == nil && r1.CreateSchedule.Status == t_api.StatusCreated)
		vx.Assume(vx.TmplExpand(tmpl, sid, vx.Itoa(r1.CreateSchedule.Schedule.NextRunTime)) != pid) // the occurrence's promise is new
		n0 := vx.NYields()
		_, _ = SchedulePromises(cfg, T)(c)
		need(vx.NYields() >= n0+2) // the sweep found the schedule due and fired it
		r2, e2 := DeleteSchedule(c, &t_api.Request{Kind: t_api.DeleteSchedule, Tags: T, DeleteSchedule: &t_api.DeleteScheduleRequest{Id: sid}})
		need(e2 == nil && r2.DeleteSchedule.Status == t_api.StatusNoContent)
	}
	if vx.NSlots("locks") > 0 && steps >= 3 {
		rid, eid := vx.String("warm.resource"), vx.String("warm.execution")
		r1, e1 := AcquireLock(c, &t_api.Request{Kind: t_api.AcquireLock, Tags: T, AcquireLock: &t_api.AcquireLockRequest{ResourceId: rid, ExecutionId: eid, ProcessId: vx.String("warm.process"), Ttl: 1 << 40}})
		need(e1 == nil && r1.AcquireLock.Status == t_api.StatusCreated)
		r2, e2 := ReleaseLock(c, &t_api.Request{Kind: t_api.ReleaseLock, Tags: T, ReleaseLock: &t_api.ReleaseLockRequest{ResourceId: rid, ExecutionId: eid}})
		need(e2 == nil && r2.ReleaseLock.Status == t_api.StatusNoContent)
		_, _ = TimeoutLocks(cfg, T)(c)
	}
	if vx.NSlots("tasks") > 0 && steps >= 4 {
		// a worker heartbeats (whatever it holds) and a lock holder too: leases were renewed earlier in this process
		hb := vx.String("warm.heartbeat.process")
		_, _ = HeartbeatTasks(c, &t_api.Request{Kind: t_api.HeartbeatTasks, Tags: T, HeartbeatTasks: &t_api.HeartbeatTasksRequest{ProcessId: hb}})
		if vx.NSlots("promises") > 1 && vx.NSlots("callbacks") > 0 && vx.Opt("warmdispatch", 0) == 1 {
			// an awaiting promise R, an awaited promise L, a callback; L completes; the resume task is handed off (the
			// hand-off may fail: both courses are part of the earlier history)
			R, L := vx.String("warm.root"), vx.String("warm.leaf")
			vx.Assume(vx.And(R != L, R != pid, L != pid))
			r1, e1 := CreatePromise(c, &t_api.Request{Kind: t_api.CreatePromise, Tags: T, CreatePromise: &t_api.CreatePromiseRequest{Id: R, Timeout: 1 << 62, Tags: map[string]string{}}})
			need(e1 == nil && r1.CreatePromise.Status == t_api.StatusCreated)
			r2, e2 := CreatePromise(c, &t_api.Request{Kind: t_api.CreatePromise, Tags: T, CreatePromise: &t_api.CreatePromiseRequest{Id: L, Timeout: 1 << 62, Tags: map[string]string{}}})
			need(e2 == nil && r2.CreatePromise.Status == t_api.StatusCreated)
			r3, e3 := CreateCallback(c, &t_api.Request{Kind: t_api.CreateCallback, Tags: T, CreateCallback: &t_api.CreateCallbackRequest{Id: "cb", PromiseId: L, RootPromiseId: R, Timeout: 1 << 62, Recv: vhWarmBytes("warm.recv")}})
			need(e3 == nil && r3.CreateCallback.Status == t_api.StatusCreated)
			r4, e4 := CompletePromise(c, &t_api.Request{Kind: t_api.CompletePromise, Tags: T, CompletePromise: &t_api.CompletePromiseRequest{Id: L, State: promise.Resolved}})
			need(e4 == nil && r4.CompletePromise.Status == t_api.StatusCreated)
			vx.WarmSenderMayFail()
		}
		_, _ = EnqueueTasks(cfg, T)(c)
		_, _ = TimeoutTasks(cfg, T)(c)
	}
	if vx.NSlots("locks") > 0 && steps >= 3 {
		_, _ = HeartbeatLocks(c, &t_api.Request{Kind: t_api.HeartbeatLocks, Tags: T, HeartbeatLocks: &t_api.HeartbeatLocksRequest{ProcessId: vx.String("warm.heartbeat.lockprocess")}})
	}
	vx.WarmEnd()
}

func vhB2I(b bool) int64 { return vx.IteInt64(b, 1, 0) }

// VXSetup / VXDispatch: used by front-end harnesses (grpc) to run the real request coroutine
// of a kernel request under havoc semantics, as System.AddOnRequest would.
func VXSetup(flags int) vx.Coro { return vhSetup(flags) }

func VXDispatch(c gocoro.Coroutine[*t_aio.Submission, *t_aio.Completion, any], r *t_api.Request) (*t_api.Response, error) {
	// System.AddOnRequest's wrapper
	util.Assert(r.Tags != nil, "request tags must be non nil")
	util.Assert(r.Tags["id"] != "", "id tag must be set")
	// the coroutine cmd/serve registers for this kind (read from the real registration block)
	if f, ok := vx.ServeRegistered(int(r.Kind)).(func(gocoro.Coroutine[*t_aio.Submission, *t_aio.Completion, any], *t_api.Request) (*t_api.Response, error)); ok {
		return f(c, r)
	}
	if r.Kind == t_api.Echo {
		return Echo(c, r) // only registered by the DST command
	}
	panic("no registered coroutine for request kind")
}

// ---- the real kernel path for one request: real api queue -> real System.Tick -> real AddOnRequest
// wrapper -> the coroutine cmd/serve registers -> real api.EnqueueCQE -> callback.

type vxAIO struct{}

func (a *vxAIO) String() string                                                        { return "vx" }
func (a *vxAIO) Start() error                                                          { return nil }
func (a *vxAIO) Stop() error                                                           { return nil }
func (a *vxAIO) Shutdown()                                                             {}
func (a *vxAIO) Errors() <-chan error                                                  { return nil }
func (a *vxAIO) Signal(<-chan interface{}) <-chan interface{}                          { return nil }
func (a *vxAIO) Flush(int64)                                                           {}
func (a *vxAIO) Dispatch(*t_aio.Submission, func(*t_aio.Completion, error))            {}
func (a *vxAIO) EnqueueSQE(*bus.SQE[t_aio.Submission, t_aio.Completion])               {}
func (a *vxAIO) EnqueueCQE(*bus.CQE[t_aio.Submission, t_aio.Completion])               {}
func (a *vxAIO) DequeueCQE(int) []*bus.CQE[t_aio.Submission, t_aio.Completion]         { return nil }

// VXProcess submits sqe to a real kernel (api + System) and runs one tick. It returns what the
// submission's callback received and how often it was called.
func VXProcess(c vx.Coro, sqe *bus.SQE[t_api.Request, t_api.Response]) (res *t_api.Response, err error, answers int) {
	vx.IgnoreGo() // coroutineMetrics' goroutine only awaits the promise and decrements a gauge
	m := metrics.New(prometheus.NewRegistry())
	a := i_api.New(1, m)
	cfg := &system.Config{Url: vx.String("config.url"), CoroutineMaxSize: 1, SubmissionBatchSize: 1, CompletionBatchSize: 1,
		PromiseBatchSize: vx.Opt("batch", 2), ScheduleBatchSize: vx.Opt("batch", 2), TaskBatchSize: vx.Opt("batch", 2), TaskEnqueueDelay: vx.DurationMs("config.taskEnqueueDelay2", 0, 1<<32), SignalTimeout: vx.DurationMs("config.signalTimeout2", 0, 1<<32)}
	s := system.New(a, &vxAIO{}, cfg, m)
	kind := sqe.Submission.Kind
	if f, ok := vx.ServeRegistered(int(kind)).(func(gocoro.Coroutine[*t_aio.Submission, *t_aio.Completion, any], *t_api.Request) (*t_api.Response, error)); ok {
		s.AddOnRequest(kind, f)
	} else if kind == t_api.Echo {
		s.AddOnRequest(kind, Echo) // only registered by the DST command
	}
	cb := sqe.Callback
	sqe.Callback = func(r *t_api.Response, e error) {
		answers++
		res, err = r, e
		cb(r, e)
	}
	a.EnqueueSQE(sqe)
	s.Tick(vx.Tick())
	return
}

// vhWarmMap: a non-nil map with one entry of arbitrary value
func vhWarmMap(name string) map[string]string {
	return map[string]string{"warm": vx.String(name + ".value")}
}

// vhWarmBytes: arbitrary non-nil bytes
func vhWarmBytes(name string) []byte {
	b := vx.Bytes(name)
	if b == nil {
		vx.Assume(false)
	}
	return b
}
