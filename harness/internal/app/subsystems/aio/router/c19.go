package router

// C19 / C13: receiver resolution from the routing tag, for every tag value.

import (
	"encoding/json"

	"github.com/prometheus/client_golang/prometheus"
	"github.com/resonatehq/resonate/internal/kernel/bus"
	"github.com/resonatehq/resonate/internal/kernel/t_aio"
	"github.com/resonatehq/resonate/internal/metrics"
	"github.com/resonatehq/resonate/internal/vx"
	"github.com/resonatehq/resonate/pkg/promise"
	"github.com/resonatehq/resonate/pkg/receiver"
)

func VH_RT_Tag() {
	w := &RouterWorker{sources: []func(*promise.Promise) (any, bool){TagSource(&TagSourceConfig{Key: "resonate:invoke"})}}
	tags := vx.Tags("tags", 1)
	has := vx.Bool("hasInvoke")
	v := vx.String("invoke")
	if has {
		tags["resonate:invoke"] = v
	} else {
		vx.Assume(!vx.MapHas(tags, "resonate:invoke"))
	}
	p := &promise.Promise{Id: vx.String("id"), State: promise.Pending, Tags: tags}
	cqe := w.Process(&bus.SQE[t_aio.Submission, t_aio.Completion]{Id: "r", Submission: &t_aio.Submission{Kind: t_aio.Router, Tags: map[string]string{},
		Router: &t_aio.RouterSubmission{Promise: p}}, Callback: func(*t_aio.Completion, error) {}})
	vx.Assert(cqe != nil && cqe.Error == nil && cqe.Completion != nil && cqe.Completion.Router != nil, "C19:router-always-answers")
	r := cqe.Completion.Router
	if !has {
		vx.Reach("no-tag")
		vx.Assert(!r.Matched, "C19:no-routing-tag-no-task")
		return
	}
	if !vx.JsonValid(v) {
		vx.Reach("plain-string")
		// a plain string is kept as a logical name
		vx.Assert(r.Matched && vx.BytesStr(r.Recv) == vx.JsonOfString(v), "C19:plain-string-kept-as-logical-name")
		return
	}
	if r.Matched {
		vx.Reach("json-receiver")
		// only a receiver object with a non-empty type routes
		got, _ := vx.Unmarshalled(r.Recv).(any)
		_ = got
		vx.Assert(!vx.BytesNil(r.Recv), "C19:json-receiver-kept-as-physical")
		// "addressed exactly as its routing tag says": an object carrying members a receiver does not have is
		// not a receiver object, and routing it would silently drop those members from the address
		vx.Assert(!vx.JsonUnknownFields(v, (*receiver.Recv)(nil)), "C19:json-with-foreign-members-does-not-route")
	} else {
		vx.Reach("json-not-a-receiver")
	}
}

// VH_RT_New: the real constructor turns the configured source table into the routing functions: a
// configured tag source routes on its own key, an unknown source type is a configuration error, and the
// built-in source on "resonate:invoke" is present exactly when no source named "default" is configured.
func VH_RT_New() {
	name, key := vx.String("name"), vx.String("key")
	typ := []string{"tag", "bogus"}[vx.Choose(2)]
	vx.Assume(key != "resonate:invoke")
	data, _ := json.Marshal(&TagSourceConfig{Key: key})
	cfg := &Config{Size: 1, Workers: 1}
	n := vx.Choose(2)
	if n == 1 {
		cfg.Sources = []SourceConfig{{Name: name, Type: typ, Data: data}}
	}
	r, err := New(nil, metrics.New(prometheus.NewRegistry()), cfg)
	if n == 1 && typ == "bogus" {
		vx.Reach("unknown-source-type")
		vx.Assert(err != nil && r == nil, "C19:unknown-source-type-is-a-configuration-error")
		return
	}
	vx.Assert(err == nil && r != nil, "C19:router-constructs")
	route := func(tag, val string) *t_aio.RouterCompletion {
		p := &promise.Promise{Id: "p", State: promise.Pending, Tags: map[string]string{tag: val}}
		cqes := r.Process([]*bus.SQE[t_aio.Submission, t_aio.Completion]{{Id: "r", Submission: &t_aio.Submission{Kind: t_aio.Router, Tags: map[string]string{},
			Router: &t_aio.RouterSubmission{Promise: p}}, Callback: func(*t_aio.Completion, error) {}}})
		vx.Assert(len(cqes) == 1 && cqes[0].Completion != nil && cqes[0].Completion.Router != nil, "C19:router-always-answers")
		return cqes[0].Completion.Router
	}
	v := vx.String("value")
	vx.Assume(!vx.JsonValid(v))
	// the built-in source
	byDefault := route("resonate:invoke", v)
	builtin := !(n == 1 && name == "default")
	vx.Assert(byDefault.Matched == builtin, "C19:builtin-source-present-iff-no-source-named-default")
	if byDefault.Matched {
		vx.Reach("builtin-source")
		vx.Assert(vx.BytesStr(byDefault.Recv) == vx.JsonOfString(v), "C19:plain-string-kept-as-logical-name")
	}
	// the configured source
	byKey := route(key, v)
	vx.Assert(byKey.Matched == (n == 1), "C19:configured-tag-source-routes-on-its-key")
	if byKey.Matched {
		vx.Reach("configured-source")
		vx.Assert(vx.BytesStr(byKey.Recv) == vx.JsonOfString(v), "C19:plain-string-kept-as-logical-name")
	}
}

// VH_RT_New2: two configured tag sources are independent: each routes on its own key, the first that
// matches wins, and the built-in source stays behind them.
func VH_RT_New2() {
	k1, k2 := vx.String("key1"), vx.String("key2")
	vx.Assume(vx.And(k1 != k2, k1 != "resonate:invoke", k2 != "resonate:invoke"))
	d1, _ := json.Marshal(&TagSourceConfig{Key: k1})
	d2, _ := json.Marshal(&TagSourceConfig{Key: k2})
	r, err := New(nil, metrics.New(prometheus.NewRegistry()), &Config{Size: 1, Workers: 1, Sources: []SourceConfig{{Name: "a", Type: "tag", Data: d1}, {Name: "b", Type: "tag", Data: d2}}})
	vx.Assert(err == nil && r != nil, "C19:router-constructs")
	v1, v2 := vx.String("value1"), vx.String("value2")
	vx.Assume(vx.And(!vx.JsonValid(v1), !vx.JsonValid(v2)))
	route := func(tags map[string]string) *t_aio.RouterCompletion {
		p := &promise.Promise{Id: "p", State: promise.Pending, Tags: tags}
		cqes := r.Process([]*bus.SQE[t_aio.Submission, t_aio.Completion]{{Id: "r", Submission: &t_aio.Submission{Kind: t_aio.Router, Tags: map[string]string{},
			Router: &t_aio.RouterSubmission{Promise: p}}, Callback: func(*t_aio.Completion, error) {}}})
		return cqes[0].Completion.Router
	}
	a := route(map[string]string{k1: v1})
	vx.Assert(a.Matched && vx.BytesStr(a.Recv) == vx.JsonOfString(v1), "C19:each-configured-source-routes-on-its-own-key")
	b := route(map[string]string{k2: v2})
	vx.Assert(b.Matched && vx.BytesStr(b.Recv) == vx.JsonOfString(v2), "C19:each-configured-source-routes-on-its-own-key")
	both := route(map[string]string{k1: v1, k2: v2})
	vx.Assert(both.Matched && vx.BytesStr(both.Recv) == vx.JsonOfString(v1), "C19:first-configured-source-that-matches-wins")
	vx.Reach("done")
}
