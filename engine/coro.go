package main

// gocoro semantics (DESIGN 2.6): coroutines run against the symbolic world;
// store submissions execute the real store.Process / worker.Execute.

import (
	"fmt"
	"go/types"
	"strings"

	"golang.org/x/tools/go/ssa"
)

const (
	modeHavoc = 1 // environment step before every store submission
)

type YieldRec struct {
	kind  string // store router sender echo
	coro  int
	fault string // "", "before", "after"
	time  *Term
	sub   Value
	pre   int // snapshot index before own transaction (after the environment step)
	post  int
	envPre int // snapshot before the environment step
	outcome string // router: match|nomatch|error; sender: success|fail|error
	recv   Value
}

type CoroObj struct {
	id      int
	parent  *CoroObj
	yielded bool // has handed a submission to the AIO (in the real scheduler it then waits for the next tick)
}

// subWatch: the first submission of a spawned coroutine is *in flight* from the child's yield until the store
// (router, sender) worker reads it, which in the real kernel happens only after every runnable coroutine of the
// tick - the parent and the siblings spawned later included - has run until it blocks. The engine runs a child to
// completion at the spawn point; that sequentialisation is the real behaviour only if nobody else writes to what
// the pending submission refers to inside that window. The window is watched: a write by the parent before it
// blocks, or by a later sibling before its own first yield, to a heap cell reachable from the pending submission
// is reported (label inflight-submission-mutated).
type subWatch struct {
	child *CoroObj
	cells []watchCell
	maps  map[*MapObj]bool
	what  string
}

type watchCell struct {
	obj  *Obj
	path []int
}

func pathsOverlap(a, b []int) bool {
	n := len(a)
	if len(b) < n {
		n = len(b)
	}
	for i := 0; i < n; i++ {
		if a[i] != b[i] {
			return false
		}
	}
	return true
}

func (c *CoroObj) within(anc *CoroObj) bool {
	for x := c; x != nil; x = x.parent {
		if x == anc {
			return true
		}
	}
	return false
}

// reachable collects the heap cells a value refers to (through pointers, slices, interfaces, maps).
func (w *subWatch) reach(v Value, seen map[*Obj]bool) {
	switch x := v.(type) {
	case *PtrV:
		if x.obj != nil {
			w.cells = append(w.cells, watchCell{x.obj, x.path})
			if !seen[x.obj] {
				seen[x.obj] = true
				w.reach(x.obj.v, seen)
			}
		}
	case *SliceV:
		if x.arr != nil {
			w.cells = append(w.cells, watchCell{x.arr, nil})
			if !seen[x.arr] {
				seen[x.arr] = true
				w.reach(x.arr.v, seen)
			}
		}
	case *StructV:
		for _, f := range x.fs {
			w.reach(f, seen)
		}
	case *ArrayV:
		for _, f := range x.es {
			w.reach(f, seen)
		}
	case *IfaceV:
		if x.typ != nil {
			w.reach(x.v, seen)
		}
	case *MapV:
		if x.m != nil {
			w.maps[x.m] = true
			for _, e := range x.m.vs {
				w.reach(e, seen)
			}
		}
	case *TupleV:
		for _, f := range x.vs {
			w.reach(f, seen)
		}
	}
}

func (ex *Exec) watchSubmission(c *CoroObj, sub Value, kind string) {
	if c.parent == nil || c.yielded {
		return
	}
	w := &subWatch{child: c, maps: map[*MapObj]bool{}, what: kind}
	w.reach(sub, map[*Obj]bool{})
	ex.W.watches = append(ex.W.watches, w)
}

// closeWatches: coroutine c blocks (awaits or yields): the submissions of its children are now read by the workers.
func (ex *Exec) closeWatches(c *CoroObj) {
	ws := ex.W.watches[:0]
	for _, w := range ex.W.watches {
		if w.child.parent != c {
			ws = append(ws, w)
		}
	}
	ex.W.watches = ws
}

func (ex *Exec) writerRaces(w *subWatch) bool {
	r := ex.W.runCoro
	if r == nil || r.within(w.child) {
		return false
	}
	if r == w.child.parent {
		return true
	}
	// a later sibling (or something it spawned): only what it does before its first yield is inside the window
	for x := r; x != nil; x = x.parent {
		if x.parent == w.child.parent {
			return !x.yielded
		}
	}
	return false
}

func (ex *Exec) noteWrite(obj *Obj, path []int) {
	for _, w := range ex.W.watches {
		for _, c := range w.cells {
			if c.obj == obj && pathsOverlap(c.path, path) && ex.writerRaces(w) {
				ex.H.violation(ex, "inflight-submission-mutated", "a "+w.what+" submission handed to the AIO by a spawned coroutine is modified by another coroutine before the worker reads it (the worker sees the later values)")
				return
			}
		}
	}
}

func (ex *Exec) noteMapWrite(m *MapObj) {
	for _, w := range ex.W.watches {
		if w.maps[m] && ex.writerRaces(w) {
			ex.H.violation(ex, "inflight-submission-mutated", "a map referred to by a "+w.what+" submission in flight is modified by another coroutine before the worker reads it")
			return
		}
	}
}

type awaitRes struct {
	val Value
	err Value
	done bool
}

func (ex *Exec) fieldIndex(t types.Type, name string) int {
	st, ok := t.Underlying().(*types.Struct)
	if !ok {
		panic(ex.unsupported("fieldIndex on non-struct %s", t))
	}
	for i := 0; i < st.NumFields(); i++ {
		if st.Field(i).Name() == name {
			return i
		}
	}
	panic(ex.unsupported("no field %s in %s", name, t))
}

// fget reads field name of the struct pointed to by p (struct type t).
func (ex *Exec) fget(p Value, t types.Type, name string) Value {
	pp := ex.ptr(p)
	return ex.load(&PtrV{obj: pp.obj, path: extendPath(pp.path, ex.fieldIndex(t, name))})
}

func (ex *Exec) fset(p Value, t types.Type, name string, v Value) {
	pp := ex.ptr(p)
	ex.store(&PtrV{obj: pp.obj, path: extendPath(pp.path, ex.fieldIndex(t, name))}, v)
}

func (ex *Exec) newStruct(t types.Type) *PtrV {
	return &PtrV{obj: ex.newObj(ex.zero(t), t), typ: types.NewPointer(t)}
}

func (ex *Exec) T(pkg, name string) types.Type {
	t := ex.P.namedType(pkg, name)
	if t == nil {
		panic(ex.unsupported("type %s.%s not found", pkg, name))
	}
	return t
}

func (ex *Exec) coroOf(v Value) *CoroObj {
	if iv, ok := v.(*IfaceV); ok && iv.typ != nil {
		if o, ok := iv.v.(*OpaqueV); ok && o.kind == "coro" {
			return o.data.(*CoroObj)
		}
	}
	panic(ex.unsupported("expected engine coroutine, got %s", describe(v)))
}

func (ex *Exec) coroValue(c *CoroObj) Value {
	return &IfaceV{typ: ex.P.errorStringType(), v: &OpaqueV{kind: "coro", data: c, id: c.id}}
}

func (w *World) advanceTime(ex *Exec) {
	tt := ex.tt
	n := tt.Var("tick", SBV64)
	ex.addPC(tt.And(tt.SLe(w.now, n), tt.SLt(n, tt.BV(1<<62, 64))))
	w.now = n
	w.times = append(w.times, n)
}

// envStep: the other requests' committed transactions (havoc under Inv and G).
func (w *World) envStep(ex *Exec) {
	if w.mode&modeHavoc == 0 || w.db == nil {
		return
	}
	pre := w.db
	w.envSteps++
	nd := ex.NewInvDB(w.schema, w.slots, fmt.Sprintf("env%d", w.envSteps))
	ex.addPC(ex.Inv(nd, w.now))
	for _, g := range ex.GPartsSince(pre, nd, w.lastObs) {
		ex.addPC(g.t)
	}
	w.db = nd
}

func (ex *Exec) submit(c *CoroObj, sub Value) (Value, Value) {
	w := ex.W
	tt := ex.tt
	subT := ex.T("internal/kernel/t_aio", "Submission")
	compT := ex.T("internal/kernel/t_aio", "Completion")
	kind := ex.concreteInt(ex.fget(sub, subT, "Kind"), "submission kind")
	tags := ex.fget(sub, subT, "Tags")
	rec := &YieldRec{coro: c.id, time: w.now, sub: sub}
	w.yields = append(w.yields, rec)
	ex.closeWatches(c)
	ex.watchSubmission(c, sub, map[int]string{0: "echo", 1: "router", 2: "sender", 3: "store"}[kind])
	c.yielded = true
	comp := ex.newStruct(compT)
	ex.fset(comp, compT, "Kind", tt.BV(uint64(kind), 64))
	ex.fset(comp, compT, "Tags", tags)
	var errv Value = nilErr()
	switch kind {
	case 3: // Store
		rec.kind = "store"
		rec.envPre = w.snap(ex)
		w.envStep(ex)
		fault := 0
		if w.subFaults > 0 && !w.warm {
			fault = ex.choose(3, nil, "store-fault")
			if fault != 0 {
				w.subFaults--
			}
		}
		rec.pre = w.snap(ex)
		if fault == 1 {
			rec.fault = "before"
			rec.post = rec.pre
			errv = ex.opaqueErr("store: failure before processing")
			comp = &PtrV{typ: types.NewPointer(compT)}
			break
		}
		prevCoro := w.curCoro
		w.curCoro = c.id
		cv, ev := ex.processStore(sub, subT)
		w.curCoro = prevCoro
		rec.post = w.snap(ex)
		w.lastObs = w.now
		if w.autoO2 != "" && dbChanged(w.snaps[rec.pre], w.snaps[rec.post]) {
			ex.assertGroup(append(ex.InvParts(w.snaps[rec.post], w.now), ex.GParts(w.snaps[rec.pre], w.snaps[rec.post])...), w.autoO2)
		}
		if fault == 2 {
			rec.fault = "after"
			errv = ex.opaqueErr("store: failure after processing")
			comp = &PtrV{typ: types.NewPointer(compT)}
			break
		}
		comp, errv = cv.(*PtrV), ev
	case 1: // Router
		rec.kind = "router"
		if w.routerWorker != nil {
			cv, ev := ex.processVia(w.routerWorker, sub, subT)
			comp, errv = cv.(*PtrV), ev
			break
		}
		rcT := ex.T("internal/kernel/t_aio", "RouterCompletion")
		rsel := 0
		if !w.warm {
			rsel = ex.choose(3, nil, "router-outcome")
		}
		switch rsel {
		case 0:
			rec.outcome = "nomatch"
			rc := ex.newStruct(rcT)
			ex.fset(comp, compT, "Router", rc)
		case 1:
			rec.outcome = "match"
			rc := ex.newStruct(rcT)
			ex.fset(rc, rcT, "Matched", tt.Bool(true))
			rec.recv = &BytesV{isNil: tt.Bool(false), s: ex.input("router.recv", "bytes", SString)}
			ex.fset(rc, rcT, "Recv", rec.recv)
			ex.fset(comp, compT, "Router", rc)
		case 2:
			rec.outcome = "error"
			errv = ex.opaqueErr("router: failure")
			comp = &PtrV{typ: types.NewPointer(compT)}
		}
	case 2: // Sender
		rec.kind = "sender"
		w.senderLog = append(w.senderLog, sub)
		scT := ex.T("internal/kernel/t_aio", "SenderCompletion")
		ssel := 0
		if !w.warm {
			ssel = ex.choose(3, nil, "sender-outcome")
		} else if w.warmSenderFail {
			ssel = ex.choose(2, nil, "warm-sender-outcome")
		}
		switch ssel {
		case 0:
			rec.outcome = "success"
			sc := ex.newStruct(scT)
			ex.fset(sc, scT, "Success", tt.Bool(true))
			ex.fset(comp, compT, "Sender", sc)
		case 1:
			rec.outcome = "fail"
			sc := ex.newStruct(scT)
			ex.fset(comp, compT, "Sender", sc)
		case 2:
			rec.outcome = "error"
			errv = ex.opaqueErr("sender: failure")
			comp = &PtrV{typ: types.NewPointer(compT)}
		}
	case 0: // Echo
		rec.kind = "echo"
		esT := ex.T("internal/kernel/t_aio", "EchoSubmission")
		ecT := ex.T("internal/kernel/t_aio", "EchoCompletion")
		ec := ex.newStruct(ecT)
		ex.fset(ec, ecT, "Data", ex.fget(ex.fget(sub, subT, "Echo"), esT, "Data"))
		ex.fset(comp, compT, "Echo", ec)
	default:
		panic(ex.goPanic("invalid aio submission kind %d", kind))
	}
	w.advanceTime(ex)
	return comp, errv
}

// processStore runs the real store.Process(worker, [sqe]).
func (ex *Exec) processStore(sub Value, subT types.Type) (Value, Value) {
	w := ex.W
	if w.storeWorker == nil {
		panic(ex.unsupported("no store worker configured (vx.UseStore)"))
	}
	return ex.processVia(w.storeWorker, sub, subT)
}

// processVia calls worker.Process([]*SQE{sqe}) for store/router workers and
// returns (completion, error) of the single CQE.
func (ex *Exec) processVia(worker Value, sub Value, subT types.Type) (Value, Value) {
	iv := worker.(*IfaceV)
	ms := ex.P.prog.MethodSets.MethodSet(iv.typ)
	var fn *ssa.Function
	for i := 0; i < ms.Len(); i++ {
		if ms.At(i).Obj().Name() == "Process" {
			fn = ex.P.prog.MethodValue(ms.At(i))
		}
	}
	if fn == nil {
		panic(ex.unsupported("worker %s has no Process method", iv.typ))
	}
	sliceT := fn.Signature.Params().At(0).Type()
	sqePT := sliceT.Underlying().(*types.Slice).Elem()
	sqeT := sqePT.(*types.Pointer).Elem()
	sqe := ex.newStruct(sqeT)
	ex.fset(sqe, sqeT, "Id", ex.tt.Str("sqe"))
	ex.fset(sqe, sqeT, "Submission", sub)
	ex.fset(sqe, sqeT, "Callback", &FuncV{intr: "noop"})
	arr := &ArrayV{es: []Value{sqe}}
	res := ex.callFunc(nil, fn, []Value{iv.v, &SliceV{arr: ex.newObj(arr, nil), len: 1, cap: 1}}, nil, nil)
	rs, ok := res.(*SliceV)
	if !ok || rs.len != 1 {
		n := -1
		if ok {
			n = rs.len
		}
		ex.H.violation(ex, "process-one-cqe-per-sqe", fmt.Sprintf("Process returned %d completions for 1 submission", n))
		panic(&pathEnd{kind: "pruned", msg: "bad Process result"})
	}
	cqe := rs.arr.v.(*ArrayV).es[rs.off]
	cqeT := fn.Signature.Results().At(0).Type().Underlying().(*types.Slice).Elem().(*types.Pointer).Elem()
	return ex.fget(cqe, cqeT, "Completion"), ex.fget(cqe, cqeT, "Error")
}

// dbChanged: some statement replaced a table's rows (syntactic check).
func dbChanged(a, b *SymDB) bool {
	for _, n := range a.names {
		ta, tb := a.tabs[n], b.tabs[n]
		if len(ta.rows) != len(tb.rows) || ta.nextSort != tb.nextSort {
			return true
		}
		for i := range ta.rows {
			if ta.rows[i] != tb.rows[i] {
				return true
			}
		}
	}
	return false
}

func isCoroFunc(fn *ssa.Function) bool {
	if len(fn.Params) == 0 {
		return false
	}
	return strings.Contains(fn.Params[0].Type().String(), "gocoro.Coroutine[")
}

func init() {
	g := "github.com/resonatehq/gocoro."
	intercepts[g+"YieldAndAwait"] = func(ex *Exec, fr *Frame, a []Value, s ssa.Instruction) Value {
		c := ex.coroOf(a[0])
		comp, err := ex.submit(c, a[1])
		return &TupleV{vs: []Value{comp, err}}
	}
	intercepts[g+"Yield"] = func(ex *Exec, fr *Frame, a []Value, s ssa.Instruction) Value {
		c := ex.coroOf(a[0])
		comp, err := ex.submit(c, a[1])
		return &IfaceV{typ: ex.P.errorStringType(), v: &OpaqueV{kind: "awaitable", data: &awaitRes{val: comp, err: err, done: true}}}
	}
	spawn := func(ex *Exec, a []Value) *awaitRes {
		parent := ex.coroOf(a[0])
		ex.W.ncoro++
		child := &CoroObj{id: ex.W.ncoro, parent: parent}
		prevRun := ex.W.runCoro
		ex.W.runCoro = child
		r := ex.callValue(nil, a[1], []Value{ex.coroValue(child)}, nil)
		ex.W.runCoro = prevRun
		tv := r.(*TupleV)
		return &awaitRes{val: tv.vs[0], err: tv.vs[1], done: true}
	}
	intercepts[g+"Spawn"] = func(ex *Exec, fr *Frame, a []Value, s ssa.Instruction) Value {
		return &IfaceV{typ: ex.P.errorStringType(), v: &OpaqueV{kind: "awaitable", data: spawn(ex, a)}}
	}
	intercepts[g+"SpawnAndAwait"] = func(ex *Exec, fr *Frame, a []Value, s ssa.Instruction) Value {
		r := spawn(ex, a)
		ex.closeWatches(ex.coroOf(a[0]))
		return &TupleV{vs: []Value{r.val, r.err}}
	}
	intercepts[g+"Await"] = func(ex *Exec, fr *Frame, a []Value, s ssa.Instruction) Value {
		ex.closeWatches(ex.coroOf(a[0]))
		iv, ok := a[1].(*IfaceV)
		if !ok || iv.typ == nil {
			panic(ex.goPanic("Await on nil awaitable"))
		}
		r := iv.v.(*OpaqueV).data.(*awaitRes)
		return &TupleV{vs: []Value{r.val, r.err}}
	}
	// gocoro.Add (kernel skeleton harnesses): the coroutine runs to completion at the point where it is added
	intercepts[g+"Add"] = func(ex *Exec, fr *Frame, a []Value, s ssa.Instruction) Value {
		ex.H.noteStub("gocoro.Add: the added coroutine runs to completion immediately (sequential skeleton); refusal is a harness choice")
		if ex.W.schedFull > 0 && ex.choose(2, nil, "scheduler-full") == 1 {
			return &TupleV{vs: []Value{&IfaceV{}, ex.tt.Bool(false)}}
		}
		// a scheduler whose intake queue holds k coroutines: at most k admissions between two runs
		if ex.W.schedCap > 0 {
			if ex.W.schedAdmitted >= ex.W.schedCap {
				return &TupleV{vs: []Value{&IfaceV{}, ex.tt.Bool(false)}}
			}
			ex.W.schedAdmitted++
		}
		ex.W.ncoro++
		c := &CoroObj{id: ex.W.ncoro}
		prevRun := ex.W.runCoro
		ex.W.runCoro = c
		r := ex.callValue(nil, a[1], []Value{ex.coroValue(c)}, nil)
		ex.W.runCoro = prevRun
		_ = r
		return &TupleV{vs: []Value{&IfaceV{typ: ex.P.errorStringType(), v: &OpaqueV{kind: "gpromise"}}, ex.tt.Bool(true)}}
	}
	intercepts["opaque:gpromise.Completed"] = func(ex *Exec, fr *Frame, a []Value, s ssa.Instruction) Value { return ex.tt.Bool(true) }
	intercepts["opaque:coro.Time"] = func(ex *Exec, fr *Frame, a []Value, s ssa.Instruction) Value { return ex.W.now }
	intercepts["opaque:coro.Get"] = func(ex *Exec, fr *Frame, a []Value, s ssa.Instruction) Value {
		k := ex.str(a[1], "resource key")
		if k == "config" && ex.W.config != nil {
			return ex.W.config
		}
		return &IfaceV{}
	}
	intercepts["opaque:coro.Set"] = func(ex *Exec, fr *Frame, a []Value, s ssa.Instruction) Value {
		if k, ok := a[1].(*Term); ok {
			if ks, ok := k.StrVal(); ok && ks == "config" {
				ex.W.config = a[2]
			}
		}
		return nil
	}
	// gocoro.New: the scheduler is opaque; coroutines run at gocoro.Add (see above), so it is always empty
	intercepts[g+"New"] = func(ex *Exec, fr *Frame, a []Value, s ssa.Instruction) Value {
		return &IfaceV{typ: ex.P.errorStringType(), v: &OpaqueV{kind: "gsched"}}
	}
	intercepts["opaque:gsched.RunUntilBlocked"] = func(ex *Exec, fr *Frame, a []Value, s ssa.Instruction) Value {
		ex.W.schedAdmitted = 0
		return nil
	}
	intercepts["opaque:gsched.Shutdown"] = func(ex *Exec, fr *Frame, a []Value, s ssa.Instruction) Value { return nil }
	intercepts["opaque:gsched.Size"] = func(ex *Exec, fr *Frame, a []Value, s ssa.Instruction) Value { return ex.tt.BV(0, 64) }

	vx("Coroutine", func(ex *Exec, fr *Frame, a []Value, s ssa.Instruction) Value {
		flags := ex.concreteInt(a[0], "coroutine flags")
		w := ex.W
		w.mode = flags & 0xff
		w.subFaults = (flags >> 8) & 0xff
		w.ncoro++
		// the coroutine starts at an arbitrary instant (not at time zero)
		if len(w.times) == 0 {
			w.advanceTime(ex)
		}
		root := &CoroObj{id: w.ncoro}
		w.runCoro = root
		return ex.coroValue(root)
	})
	// WarmBegin / WarmEnd: requests run between the two are an earlier part of the same server process's life:
	// they execute sequentially on the current database (no environment steps, no faults, router: no match,
	// sender: success), pose no invariant obligations and leave no trace - only what the process itself keeps
	// (package-level variables, caches, objects reachable from the workers) survives into the checked request.
	vx("WarmBegin", func(ex *Exec, fr *Frame, a []Value, s ssa.Instruction) Value {
		w := ex.W
		w.warmSave = [3]int{w.mode, w.subFaults, len(w.yields)}
		w.warmO2 = w.autoO2
		w.warm, w.mode, w.subFaults, w.autoO2 = true, 0, 0, ""
		if len(w.times) == 0 {
			w.advanceTime(ex)
		}
		ex.H.noteBound("warm-up: the checked request is preceded by one earlier request sequence of the same process (symbolic inputs, empty database)")
		return nil
	})
	vx("WarmSenderMayFail", func(ex *Exec, fr *Frame, a []Value, s ssa.Instruction) Value {
		ex.W.warmSenderFail = true
		return nil
	})
	vx("WarmEnd", func(ex *Exec, fr *Frame, a []Value, s ssa.Instruction) Value {
		w := ex.W
		w.warm = false
		w.warmSenderFail = false
		w.mode, w.subFaults = w.warmSave[0], w.warmSave[1]
		w.yields = w.yields[:w.warmSave[2]]
		w.senderLog = nil
		w.autoO2 = w.warmO2
		return nil
	})
	// The background coroutines cmd/serve registers (calls to (*System).AddBackground in the real registration block).
	vx("ServeRegistersBackground", func(ex *Exec, fr *Frame, a []Value, s ssa.Instruction) Value {
		ex.P.serveRegistrations()
		want := a[0].(*IfaceV).v.(*FuncV).fn
		n := 0
		for _, f := range ex.P.regBg {
			if f == want {
				n++
			}
		}
		return ex.tt.BV(uint64(n), 64)
	})
	vx("ServeBackgroundCount", func(ex *Exec, fr *Frame, a []Value, s ssa.Instruction) Value {
		ex.P.serveRegistrations()
		return ex.tt.BV(uint64(len(ex.P.regBg)), 64)
	})
	vx("AutoO2", func(ex *Exec, fr *Frame, a []Value, s ssa.Instruction) Value {
		ex.W.autoO2 = ex.str(a[0], "label")
		return nil
	})
	// The coroutine that cmd/serve registers for a request kind: read from the SSA of the real
	// registration block (calls to (*System).AddOnRequest with a constant kind), so that the kernel
	// double dispatches exactly like the production server does.
	vx("ServeRegistered", func(ex *Exec, fr *Frame, a []Value, s ssa.Instruction) Value {
		kind := int64(ex.concreteInt(a[0], "request kind"))
		reg := ex.P.serveRegistrations()
		fns := reg[kind]
		if len(fns) == 0 {
			return &IfaceV{}
		}
		// a kind registered twice: the later registration wins (map assignment in AddOnRequest)
		fn := fns[len(fns)-1]
		return &IfaceV{typ: fn.Signature, v: &FuncV{fn: fn}}
	})
	// a path that ends blocked on a channel is a normal end (a worker loop waiting for more events)
	vx("BlockOK", func(ex *Exec, fr *Frame, a []Value, s ssa.Instruction) Value {
		ex.W.blockOK = true
		return nil
	})
	// select chooses any ready case (all choices explored) instead of the first
	vx("NondetSelect", func(ex *Exec, fr *Frame, a []Value, s ssa.Instruction) Value {
		ex.W.nondetSelect = true
		return nil
	})
	// producers: f runs before every select of the code under test (it may deliver pending events)
	vx("OnSelect", func(ex *Exec, fr *Frame, a []Value, s ssa.Instruction) Value {
		ex.W.onSelect = a[0]
		return nil
	})
	// like OnSelect, but only at selects that can wait (no default case)
	vx("OnBlockingSelect", func(ex *Exec, fr *Frame, a []Value, s ssa.Instruction) Value {
		ex.W.onSelect = a[0]
		ex.W.onSelectBlockingOnly = true
		return nil
	})
	vx("IgnoreGo", func(ex *Exec, fr *Frame, a []Value, s ssa.Instruction) Value {
		ex.W.ignoreGo = true
		return nil
	})
	vx("SchedulerCapacity", func(ex *Exec, fr *Frame, a []Value, s ssa.Instruction) Value {
		ex.W.schedCap = ex.concreteInt(a[0], "capacity")
		return nil
	})
	vx("SchedulerRan", func(ex *Exec, fr *Frame, a []Value, s ssa.Instruction) Value {
		ex.W.schedAdmitted = 0
		return nil
	})
	vx("SchedulerMayRefuse", func(ex *Exec, fr *Frame, a []Value, s ssa.Instruction) Value {
		ex.W.schedFull = 1
		return nil
	})
	vx("SetConfig", func(ex *Exec, fr *Frame, a []Value, s ssa.Instruction) Value {
		ex.W.config = a[0]
		return nil
	})
	vx("UseStore", func(ex *Exec, fr *Frame, a []Value, s ssa.Instruction) Value {
		ex.W.storeWorker = a[0]
		return nil
	})
	vx("UseRouter", func(ex *Exec, fr *Frame, a []Value, s ssa.Instruction) Value {
		ex.W.routerWorker = a[0]
		return nil
	})
	vx("Tick", func(ex *Exec, fr *Frame, a []Value, s ssa.Instruction) Value {
		ex.W.advanceTime(ex)
		return ex.W.now
	})
	vx("EnvStep", func(ex *Exec, fr *Frame, a []Value, s ssa.Instruction) Value {
		m := ex.W.mode
		ex.W.mode |= modeHavoc
		ex.W.envStep(ex)
		ex.W.mode = m
		return nil
	})
	// yields log
	vx("NYields", func(ex *Exec, fr *Frame, a []Value, s ssa.Instruction) Value {
		return ex.tt.BV(uint64(len(ex.W.yields)), 64)
	})
	vx("YieldKind", func(ex *Exec, fr *Frame, a []Value, s ssa.Instruction) Value {
		return ex.tt.Str(ex.W.yields[ex.concreteInt(a[0], "yield index")].kind)
	})
	vx("YieldFault", func(ex *Exec, fr *Frame, a []Value, s ssa.Instruction) Value {
		return ex.tt.Str(ex.W.yields[ex.concreteInt(a[0], "yield index")].fault)
	})
	vx("YieldPre", func(ex *Exec, fr *Frame, a []Value, s ssa.Instruction) Value {
		return ex.tt.BV(uint64(ex.W.yields[ex.concreteInt(a[0], "yield index")].pre), 64)
	})
	vx("YieldPost", func(ex *Exec, fr *Frame, a []Value, s ssa.Instruction) Value {
		return ex.tt.BV(uint64(ex.W.yields[ex.concreteInt(a[0], "yield index")].post), 64)
	})
	vx("YieldEnvPre", func(ex *Exec, fr *Frame, a []Value, s ssa.Instruction) Value {
		return ex.tt.BV(uint64(ex.W.yields[ex.concreteInt(a[0], "yield index")].envPre), 64)
	})
	vx("YieldTime", func(ex *Exec, fr *Frame, a []Value, s ssa.Instruction) Value {
		return ex.W.yields[ex.concreteInt(a[0], "yield index")].time
	})
	vx("YieldOutcome", func(ex *Exec, fr *Frame, a []Value, s ssa.Instruction) Value {
		return ex.tt.Str(ex.W.yields[ex.concreteInt(a[0], "yield index")].outcome)
	})
	vx("YieldRecv", func(ex *Exec, fr *Frame, a []Value, s ssa.Instruction) Value {
		r := ex.W.yields[ex.concreteInt(a[0], "yield index")].recv
		if r == nil {
			return &BytesV{isNil: ex.tt.Bool(true), s: ex.tt.Str("")}
		}
		return r
	})
	vx("YieldSub", func(ex *Exec, fr *Frame, a []Value, s ssa.Instruction) Value {
		return ex.W.yields[ex.concreteInt(a[0], "yield index")].sub
	})
}

// serveRegistrations scans cmd/serve for system.AddOnRequest(kind, coroutine) calls.
func (p *Program) serveRegistrations() map[int64][]*ssa.Function {
	p.regOnce.Do(func() {
		p.reg = map[int64][]*ssa.Function{}
		sp := p.pkg("cmd/serve")
		if sp == nil {
			return
		}
		var visit func(fn *ssa.Function)
		visit = func(fn *ssa.Function) {
			for _, b := range fn.Blocks {
				for _, in := range b.Instrs {
					c, ok := in.(*ssa.Call)
					if !ok {
						continue
					}
					callee := c.Call.StaticCallee()
					if callee != nil && callee.Name() == "AddBackground" && len(c.Call.Args) == 3 {
						if f, ok := c.Call.Args[2].(*ssa.Function); ok {
							p.regBg = append(p.regBg, f)
						}
						continue
					}
					if callee == nil || callee.Name() != "AddOnRequest" || len(c.Call.Args) != 3 {
						continue
					}
					k, ok1 := c.Call.Args[1].(*ssa.Const)
					f, ok2 := c.Call.Args[2].(*ssa.Function)
					if ok1 && ok2 {
						p.reg[k.Int64()] = append(p.reg[k.Int64()], f)
					}
				}
			}
			for _, an := range fn.AnonFuncs {
				visit(an)
			}
		}
		for _, m := range sp.Members {
			if fn, ok := m.(*ssa.Function); ok {
				visit(fn)
			}
		}
	})
	return p.reg
}
