package coroutines

// Promise coroutines against the reference of DESIGN Appendix B.
// Labels are prefixed with the property they belong to (C01, C03, C04); the
// registry selects which prefixes a property's check poses.

import (
	"github.com/resonatehq/resonate/internal/kernel/system"
	"github.com/resonatehq/resonate/internal/kernel/t_api"
	"github.com/resonatehq/resonate/internal/vx"
	"github.com/resonatehq/resonate/pkg/idempotency"
	"github.com/resonatehq/resonate/pkg/promise"
)

func vhKeyIs(k *idempotency.Key, null bool, val string) bool {
	return vx.And(vx.Iff(k == nil, null), vx.Implies(k != nil, vx.StrPtrVal((*string)(k)) == val))
}

func vhI64Is(p *int64, null bool, val int64) bool {
	return vx.And(vx.Iff(p == nil, null), vx.Implies(p != nil, vx.Int64PtrVal(p) == val))
}

// vhBodyIsRow: the promise body equals the stored row (nil and empty are the same datum).
func vhBodyIsRow(p *promise.Promise, row vx.Row) bool {
	return vx.And(row.Present(), p.Id == row.Str("id"), int64(p.State) == row.Int("state"), p.Timeout == row.Int("timeout"),
		vx.MapEq(p.Param.Headers, row.Map("param_headers")), vx.BytesEq(p.Param.Data, row.Bytes("param_data")),
		vx.MapEq(p.Value.Headers, row.Map("value_headers")), vx.BytesEq(p.Value.Data, row.Bytes("value_data")),
		vhKeyIs(p.IdempotencyKeyForCreate, row.Null("idempotency_key_for_create"), row.Str("idempotency_key_for_create")),
		vhKeyIs(p.IdempotencyKeyForComplete, row.Null("idempotency_key_for_complete"), row.Str("idempotency_key_for_complete")),
		vx.MapEq(p.Tags, row.Map("tags")),
		vhI64Is(p.CreatedOn, row.Null("created_on"), row.Int("created_on")),
		vhI64Is(p.CompletedOn, row.Null("completed_on"), row.Int("completed_on")))
}

// vhTimedOutRow: the row is the result of a time-out of a row that was pending (C04 b).
func vhTimedOutRow(pre, post vx.Row) bool {
	resolves := vx.And(vx.MapHas(pre.Map("tags"), "resonate:timeout"), vx.MapGet(pre.Map("tags"), "resonate:timeout") == "true")
	return vx.And(post.Present(), post.Int("state") == vx.IteInt64(resolves, 2, 16), post.Int("completed_on") == pre.Int("timeout"), !post.Null("completed_on"),
		vx.BytesEq(post.Bytes("value_data"), nil), vx.MapEq(post.Map("value_headers"), nil), post.Null("idempotency_key_for_complete"))
}

func vhMatch(null1 bool, k1 string, k2 *idempotency.Key) bool {
	return vx.And(!null1, k2 != nil, k1 == vx.StrPtrVal((*string)(k2)))
}

// ---------------------------------------------------------------- read

func VH_P_Read() {
	c := vhSetup(vx.HavocMode | vx.Faults(vx.Opt("faults", 1)))
	id := vx.String("id")
	res, err := ReadPromise(c, &t_api.Request{Kind: t_api.ReadPromise, Tags: map[string]string{}, ReadPromise: &t_api.ReadPromiseRequest{Id: id}})
	if err != nil {
		vx.Reach("error")
		return
	}
	st, p := res.ReadPromise.Status, res.ReadPromise.Promise
	if vx.NYields() == 1 {
		row := vx.Lookup(vx.YieldPost(0), "promises", id)
		vx.Assert(vx.Iff(st == t_api.StatusOK, row.Present()), "C01:read-status")
		vx.Assert(vx.Iff(st == t_api.StatusPromiseNotFound, !row.Present()), "C01:read-notfound")
		if st == t_api.StatusOK {
			vx.Reach("read-plain")
			vx.Assert(vhBodyIsRow(p, row), "C01:body-is-row")
			vx.Assert(vx.Not(vx.And(int64(p.State) == 1, p.Timeout <= vx.Now())), "C04:never-pending-past-deadline")
			vx.Assert(vx.Implies(int64(p.State) == 16, p.Timeout <= vx.Now()), "C04:never-timedout-early")
		} else {
			vx.Reach("read-notfound")
		}
		return
	}
	// lazily timed out: yield 1 is this request's completion transaction
	vx.Reach("read-lazy-timeout")
	pre, post := vx.Lookup(vx.YieldPre(1), "promises", id), vx.Lookup(vx.YieldPost(1), "promises", id)
	vx.Assert(st == t_api.StatusOK, "C01:read-status")
	vx.Assert(vx.And(pre.Present(), pre.Int("state") == 1), "C01:own-write-was-on-pending")
	vx.Assert(vhBodyIsRow(p, post), "C01:body-is-row")
	vx.Assert(vhTimedOutRow(pre, post), "C04:timeout-effect")
	vx.Assert(pre.Int("timeout") <= vx.YieldTime(1), "C04:never-timedout-early")
}

// ---------------------------------------------------------------- create

func vhCreateReq() *t_api.CreatePromiseRequest {
	r := &t_api.CreatePromiseRequest{Id: vx.String("id"), IdempotencyKey: (*idempotency.Key)(vx.StringPtr("ikey")), Strict: vx.Bool("strict"),
		Param: promise.Value{Headers: vx.Tags("phdr", 1), Data: vx.Bytes("pdata")}, Timeout: vx.Int64("timeout"), Tags: vx.Tags("tags", 1)}
	return r
}

// vhCheckCreateExisting: response for a create that found the promise (row = state the answer must reflect).
func vhCheckCreateExisting(req *t_api.CreatePromiseRequest, st t_api.StatusCode, p *promise.Promise, row vx.Row) {
	ok := vx.And(vx.Not(vx.And(req.Strict, row.Int("state") != 1)), vhMatch(row.Null("idempotency_key_for_create"), row.Str("idempotency_key_for_create"), req.IdempotencyKey))
	vx.Assert(int64(st) == vx.IteInt64(ok, int64(t_api.StatusOK), int64(t_api.StatusPromiseAlreadyExists)), "C03:create-status")
	vx.Assert(vhBodyIsRow(p, row), "C01:body-is-row")
}

func VH_P_Create() {
	c := vhSetup(vx.HavocMode | vx.Faults(vx.Opt("faults", 1)))
	req := vhCreateReq()
	res, err := CreatePromise(c, &t_api.Request{Kind: t_api.CreatePromise, Tags: map[string]string{}, CreatePromise: req})
	if err != nil {
		vx.Reach("error")
		return
	}
	st, p := res.CreatePromise.Status, res.CreatePromise.Promise
	n := vx.NYields()
	if st == t_api.StatusCreated {
		vx.Reach("created")
		w := n - 1 // the insert is the last submission
		pre, post := vx.Lookup(vx.YieldPre(w), "promises", req.Id), vx.Lookup(vx.YieldPost(w), "promises", req.Id)
		vx.Assert(!pre.Present(), "C03:created-only-if-absent")
		vx.Assert(vhBodyIsRow(p, post), "C01:body-is-row")
		vx.Assert(vx.And(post.Int("state") == 1, post.Int("timeout") == req.Timeout, post.Int("created_on") == vx.YieldTime(1),
			vx.MapEq(post.Map("tags"), req.Tags), vx.MapEq(post.Map("param_headers"), req.Param.Headers), vx.BytesEq(post.Bytes("param_data"), req.Param.Data),
			vhKeyIs(req.IdempotencyKey, post.Null("idempotency_key_for_create"), post.Str("idempotency_key_for_create"))), "C20:created-as-supplied")
		// known finding D15: a promise created with a timeout that has already passed is answered as pending
		vx.Assert(vx.Not(vx.And(int64(p.State) == 1, p.Timeout <= vx.Now())), "C04:created-never-pending-past-deadline")
		return
	}
	if n == 1 {
		vx.Reach("exists")
		row := vx.Lookup(vx.YieldPost(0), "promises", req.Id)
		vhCheckCreateExisting(req, st, p, row)
		vx.Assert(vx.Not(vx.And(int64(p.State) == 1, p.Timeout <= vx.Now())), "C04:never-pending-past-deadline")
		vx.Assert(vx.Implies(int64(p.State) == 16, p.Timeout <= vx.Now()), "C04:never-timedout-early")
		return
	}
	// existed pending and overdue: timed out by this request (yield 1)
	vx.Reach("exists-lazy-timeout")
	pre, post := vx.Lookup(vx.YieldPre(1), "promises", req.Id), vx.Lookup(vx.YieldPost(1), "promises", req.Id)
	vx.Assert(vx.And(pre.Present(), pre.Int("state") == 1), "C01:own-write-was-on-pending")
	vhCheckCreateExisting(req, st, p, post)
	vx.Assert(vhTimedOutRow(pre, post), "C04:timeout-effect")
	vx.Assert(pre.Int("timeout") <= vx.YieldTime(1), "C04:never-timedout-early")
}

// ---------------------------------------------------------------- complete

func vhAlreadyStatus(state int64) int64 {
	return vx.IteInt64(state == 2, int64(t_api.StatusPromiseAlreadyResolved), vx.IteInt64(state == 4, int64(t_api.StatusPromiseAlreadyRejected),
		vx.IteInt64(state == 8, int64(t_api.StatusPromiseAlreadyCanceled), int64(t_api.StatusPromiseAlreadyTimedout))))
}

// vhSpecCompleteStatus: status for a completion request that met a non-pending row.
func vhSpecCompleteStatus(req *t_api.CompletePromiseRequest, row vx.Row) int64 {
	s := row.Int("state")
	ok := vx.Or(vx.And(vx.Not(vx.And(req.Strict, s != int64(req.State))), vhMatch(row.Null("idempotency_key_for_complete"), row.Str("idempotency_key_for_complete"), req.IdempotencyKey)),
		vx.And(!req.Strict, s == 16))
	return vx.IteInt64(ok, int64(t_api.StatusOK), vhAlreadyStatus(s))
}

func VH_P_Complete() {
	c := vhSetup(vx.HavocMode | vx.Faults(vx.Opt("faults", 1)))
	state := vx.Int64("state")
	vx.Assume(vx.Or(state == 2, state == 4, state == 8))
	req := &t_api.CompletePromiseRequest{Id: vx.String("id"), IdempotencyKey: (*idempotency.Key)(vx.StringPtr("ikey")), Strict: vx.Bool("strict"),
		State: promise.State(state), Value: promise.Value{Headers: vx.Tags("vhdr", 1), Data: vx.Bytes("vdata")}}
	res, err := CompletePromise(c, &t_api.Request{Kind: t_api.CompletePromise, Tags: map[string]string{}, CompletePromise: req})
	if err != nil {
		vx.Reach("error")
		return
	}
	st, p := res.CompletePromise.Status, res.CompletePromise.Promise
	if vx.NYields() == 1 {
		row := vx.Lookup(vx.YieldPost(0), "promises", req.Id)
		vx.Assert(vx.Iff(st == t_api.StatusPromiseNotFound, !row.Present()), "C03:complete-notfound")
		if st == t_api.StatusPromiseNotFound {
			vx.Reach("notfound")
			return
		}
		vx.Reach("already-completed")
		vx.Assert(row.Int("state") != 1, "C03:no-answer-from-pending-row")
		vx.Assert(int64(st) == vhSpecCompleteStatus(req, row), "C03:complete-status")
		vx.Assert(vhBodyIsRow(p, row), "C01:body-is-row")
		vx.Assert(vx.Implies(int64(p.State) == 16, p.Timeout <= vx.Now()), "C04:never-timedout-early")
		return
	}
	pre, post := vx.Lookup(vx.YieldPre(1), "promises", req.Id), vx.Lookup(vx.YieldPost(1), "promises", req.Id)
	t := vx.YieldTime(1)
	vx.Assert(vx.And(pre.Present(), pre.Int("state") == 1), "C01:own-write-was-on-pending")
	vx.Assert(vhBodyIsRow(p, post), "C01:body-is-row")
	if st == t_api.StatusCreated {
		vx.Reach("completed")
		vx.Assert(t < pre.Int("timeout"), "C04:no-completion-at-or-after-deadline")
		vx.Assert(vx.And(post.Int("state") == state, post.Int("completed_on") == t, !post.Null("completed_on"),
			vx.BytesEq(post.Bytes("value_data"), req.Value.Data), vx.MapEq(post.Map("value_headers"), req.Value.Headers),
			vhKeyIs(req.IdempotencyKey, post.Null("idempotency_key_for_complete"), post.Str("idempotency_key_for_complete"))), "C03:completion-effect")
		return
	}
	vx.Reach("complete-lazy-timeout")
	vx.Assert(pre.Int("timeout") <= t, "C04:never-timedout-early")
	vx.Assert(vhTimedOutRow(pre, post), "C04:timeout-effect")
	// the caller's state/value are never installed at or after the deadline; status is that of a repeat on the timed-out row
	vx.Assert(int64(st) == vhSpecCompleteStatus(req, post), "C03:complete-status")
}

// ---------------------------------------------------------------- background time-out sweep

func VH_P_TimeoutSweep() {
	c := vhSetup(vx.HavocMode | vx.Faults(vx.Opt("faults", 1)))
	cfg, _ := c.Get("config").(*system.Config)
	t0 := vx.Now()
	_, err := TimeoutPromises(cfg, map[string]string{})(c)
	vx.Assert(err == nil, "C11:sweep-returns")
	// every write of the sweep is a time-out of a row that was pending and overdue at the sweep's read
	for i := 1; i < vx.NYields(); i++ {
		if vx.YieldKind(i) != "store" || vx.YieldFault(i) == "before" {
			continue
		}
		vx.Reach("sweep-write")
		for k := 0; k < vx.NSlots("promises"); k++ {
			a, b := vx.Slot(vx.YieldPre(i), "promises", k), vx.Slot(vx.YieldPost(i), "promises", k)
			changed := vx.Not(vx.SameRow(a, b))
			vx.Assert(vx.Implies(changed, vx.And(a.Present(), a.Int("state") == 1, a.Int("timeout") <= t0, vhTimedOutRow(a, b))), "C04:sweep-timeout-effect")
			_ = changed
		}
	}
}

// ---------------------------------------------------------------- search (C14)

func VH_P_Search() {
	c := vhSetup(vx.HavocMode | vx.Faults(vx.Opt("faults", 1)))
	pat := vx.String("pattern")
	vx.Assume(pat != "")
	limit := vx.Int("limit")
	vx.Assume(vx.And(limit >= 1, limit <= 2))
	req := &t_api.SearchPromisesRequest{Id: pat, States: []promise.State{promise.Pending, promise.Timedout}, Tags: vx.Tags("tags", 0), Limit: limit, SortId: vx.Int64Ptr("sortId")}
	res, err := SearchPromises(c, &t_api.Request{Kind: t_api.SearchPromises, Tags: map[string]string{}, SearchPromises: req})
	if err != nil {
		vx.Reach("error")
		return
	}
	vx.Reach("page")
	r := res.SearchPromises
	read := vx.YieldPost(0)
	for k := range r.Promises {
		p := r.Promises[k]
		vx.Assert(vhBodyIsRow(p, vx.Lookup(read, "promises", p.Id)), "C01:body-is-row")
		vx.Assert(vx.Not(vx.And(int64(p.State) == 1, p.Timeout <= vx.Now())), "C14:overdue-pending-reported-timedout")
		vx.Assert(vx.Implies(int64(p.State) == 16, p.Timeout <= vx.Now()), "C04:never-timedout-early")
	}
	full := len(r.Promises) == limit
	vx.Assert((r.Cursor != nil) == full, "C14:cursor-exactly-when-page-full")
	if r.Cursor != nil && len(r.Promises) > 0 {
		vx.Reach("cursor")
		n := r.Cursor.Next
		last := r.Promises[len(r.Promises)-1]
		vx.Assert(vx.And(n.Id == pat, n.Limit == limit, len(n.States) == 2, n.SortId != nil, *n.SortId == vx.Lookup(read, "promises", last.Id).Int("sort_id"), vx.MapEq(n.Tags, req.Tags)), "C14:cursor-continues-the-same-query")
	}
}

// VH_P_CompleteOwnEffect (C02): with retries enabled (not cut), a completion request that itself
// moved the promise out of pending must answer Created - never "already completed by someone else":
// no sequential execution has an earlier completer.
func VH_P_CompleteOwnEffect() {
	c := vhSetup(vx.HavocMode | vx.Faults(vx.Opt("faults", 1)))
	state := vx.Int64("state")
	vx.Assume(vx.Or(state == 2, state == 4, state == 8))
	req := &t_api.CompletePromiseRequest{Id: vx.String("id"), IdempotencyKey: (*idempotency.Key)(vx.StringPtr("ikey")), Strict: vx.Bool("strict"),
		State: promise.State(state), Value: promise.Value{Headers: vx.Tags("vhdr", 1), Data: vx.Bytes("vdata")}}
	res, err := CompletePromise(c, &t_api.Request{Kind: t_api.CompletePromise, Tags: map[string]string{}, CompletePromise: req})
	if err != nil {
		vx.Reach("error")
		return
	}
	vx.Reach("answered")
	own := false
	for i := 0; i < vx.NYields(); i++ {
		if vx.YieldKind(i) != "store" || vx.YieldFault(i) == "before" {
			continue
		}
		a, b := vx.Lookup(vx.YieldPre(i), "promises", req.Id), vx.Lookup(vx.YieldPost(i), "promises", req.Id)
		own = vx.Or(own, vx.And(a.Present(), a.Int("state") == 1, b.Int("state") == state, b.Int("completed_on") == vx.YieldTime(i), vx.YieldTime(i) < a.Int("timeout")))
	}
	vx.Assert(vx.Implies(own, res.CompletePromise.Status == t_api.StatusCreated), "C02:own-completion-is-answered-created")
}
