#!/usr/bin/env python3
"""Generates /verif/harness/registry.json (the harness sets per property)."""
import json, os
SQ = "internal/app/subsystems/aio/store/sqlite"
PG = "internal/app/subsystems/aio/store/postgres"
CO = "internal/app/coroutines"

STORE_T = {"slots.promises": 4, "slots.callbacks": 4, "slots.schedules": 3, "slots.locks": 3, "slots.tasks": 5}
def both(names, **kw):
    out = []
    for n in names:
        for pkg in (SQ, PG):
            d = {"name": n, "pkg": pkg, "reach": ["done"], "opts_thorough": dict(STORE_T)}
            d.update(kw)
            out.append(d)
    return out

COMMON_ASSUME = [
    "tables hold at most N rows (slots per table: promises 3, callbacks 3, schedules 2, locks 2, tasks 4); an insert assumes a free slot",
    "a committed SQL transaction is atomic and durable; an uncommitted one leaves no trace (SQL engine is trusted)",
    "SQL semantics are those of the engine's statement model (DESIGN 2.5): three-valued WHERE, ON CONFLICT, INSERT..SELECT, ORDER/LIMIT with arbitrary tie-breaks; LIKE and JSON operators are uninterpreted/decoded contracts",
    "encoding/json round-trip contract for map[string]string and message.Mesg; logging/metrics are no-ops",
    "server clock and ttl values in [0, 2^62); task counters < 2^30",
]

reg = {}
reg["C16"] = {
    "level": "model_checking",
    "explanation": "bounded symbolic execution of the real store handlers (Go SSA) and the real SQL statement constants on an arbitrary invariant-satisfying symbolic database; each command kind is compared with a reference written from the property statement",
    "assumptions": COMMON_ASSUME,
    "outside": ["visibility to other connections before commit (isolation of the SQL engines)", "lock timeouts, real driver behaviour"],
    "harnesses": both(["VH_C16_UpdatePromise", "VH_C16_CreatePromise", "VH_C16_CreateCallback", "VH_C16_DeleteCallbacks", "VH_C16_UpdateTask",
                       "VH_C16_CreateTask", "VH_C16_CompleteTasks", "VH_C16_HeartbeatTasks", "VH_C16_CreateTasks", "VH_C16_AcquireLock",
                       "VH_C16_ReleaseLock", "VH_C16_HeartbeatLocks", "VH_C16_TimeoutLocks", "VH_C16_CreateSchedule", "VH_C16_UpdateSchedule",
                       "VH_C16_DeleteSchedule", "VH_C16_CreatePromiseAndTask"]),
}

here = os.path.dirname(os.path.abspath(__file__))
extra = os.path.join(here, "registry_extra.py")
if os.path.exists(extra):
    exec(open(extra).read())
json.dump(reg, open(os.path.join(here, "registry.json"), "w"), indent=1)
print("properties:", sorted(reg), "harnesses:", sum(len(v["harnesses"]) for v in reg.values()))
