#!/bin/bash
# verify_seed.sh <PROP> <VARIANT>: confirm a seeded change in a scratch worktree
# (applies cleanly, builds, suite passes with it, demo fails with it and passes without),
# then store it under /verif/seeded/<PROP>-<VARIANT>/.
set -u
P=$1; V=$2
export GOFLAGS=-mod=mod GOPROXY=off GOSUMDB=off GOTOOLCHAIN=local
SRC=/tmp/seed_$P/$V
WT=/tmp/vs_${P}_$V
OUT=/verif/seeded/$P-$V
rm -rf $WT; git -C /repo worktree prune; git -C /repo worktree add -q --detach $WT HEAD || exit 3
dest=$(grep -m1 -oE 'Copy this file to:? *[^ ]*' $SRC/demo_test.go | awk '{print $NF}' | sed -E 's#^<[a-zA-Z_ -]*>/##')
runpat=$(grep -m1 -o "\-run '[^']*'" $SRC/demo_test.go | sed "s/-run '//;s/'//")
if [ -z "$dest" ] || [ "${dest##*.}" != "go" ]; then dest=$(grep -m1 -oE '(internal|test|pkg|cmd)/[A-Za-z0-9_/.-]*_test\.go' $SRC/demo_test.go); fi
pkgdir=$(dirname $dest)
log=$SRC/verify.log; : > $log
mkdir -p $WT/$pkgdir
cp $SRC/demo_test.go $WT/$dest
(cd $WT && timeout 900 go test -mod=mod -vet=off -count=1 -run "$runpat" ./$pkgdir/ >> $log 2>&1); demo_without=$?
rm $WT/$dest
(cd $WT && git apply $SRC/patch.diff >> $log 2>&1); applies=$?
(cd $WT && go build ./... >> $log 2>&1); builds=$?
(cd $WT && timeout 1500 go test -mod=mod -vet=off -count=1 -timeout 25m ./... > $SRC/suite.log 2>&1); suite=$?
cp $SRC/demo_test.go $WT/$dest
(cd $WT && timeout 900 go test -mod=mod -vet=off -count=1 -run "$runpat" ./$pkgdir/ >> $log 2>&1); demo_with=$?
git -C /repo worktree remove --force $WT
ok=false
if [ $applies = 0 ] && [ $builds = 0 ] && [ $suite = 0 ] && [ $demo_without = 0 ] && [ $demo_with != 0 ]; then ok=true; fi
echo "$P-$V applies=$applies builds=$builds suite=$suite demo_without=$demo_without demo_with=$demo_with ok=$ok"
if $ok; then
  mkdir -p $OUT; cp $SRC/patch.diff $OUT/patch.diff; cp $SRC/demo_test.go $OUT/demo_test.go; cp $SRC/NOTES.md $OUT/NOTES.md 2>/dev/null
  python3 - "$P" "$V" "$dest" "$runpat" <<'PY'
import json,sys,re
P,V,dest,runpat=sys.argv[1:5]
notes=open(f'/tmp/seed_{P}/{V}/NOTES.md').read() if True else ''
meta={"property":P,"variant":V,"breaks":P,
 "demo_destination":dest,"demo_run":f"go test -mod=mod -vet=off -count=1 -run '{runpat}' ./{dest.rsplit('/',1)[0]}/",
 "confirmed":{"patch_applies":True,"builds":True,"existing_suite_passes_with_change":True,"demo_passes_without_change":True,"demo_fails_with_change":True,
              "how":"tools/verify_seed.sh in a scratch worktree of /repo (removed afterwards)"},
 "needs_to_manifest":"see NOTES.md (written by the independent sub-agent that produced the change)",
 "detected_by":[]}
json.dump(meta,open(f'/verif/seeded/{P}-{V}/meta.json','w'),indent=1)
PY
fi
