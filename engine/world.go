package main

// World: the symbolic environment of one path (database, clock, coroutines)
// and the vx intrinsics that expose it to harnesses.

import (
	"fmt"
	"sort"
	"go/types"
	"strings"

	"golang.org/x/tools/go/ssa"
)

type goLaunch struct {
	name string
	recv Value
}

type World struct {
	ex         *Exec
	backend    string
	schema     *Schema
	db         *SymDB
	snaps      []*SymDB
	slots      map[string]int
	curTx      *sqlTx
	commits    []*Commit
	now        *Term
	times      []*Term
	sqlFaults  int
	faultsTaken []string
	txOpened, txCommitted, txRolledBack, stmtsRun int
	marshalled map[int]*MapObj
	encSeen    map[int]bool
	rkSeen     []*Term
	funcs      map[string]bool
	cuts       int
	oblOnPath  int
	panicOK    bool
	blockOK    bool
	nondetSelect bool
	onSelect   Value
	onSelectBlockingOnly bool
	inOnSelect bool
	// coroutines
	mode       int
	subFaults  int
	curCoro    int
	ncoro      int
	runCoro    *CoroObj    // the coroutine whose code is executing (nil: harness code)
	watches    []*subWatch // first submissions of spawned coroutines still in flight
	config     Value
	storeWorker Value // IfaceV of store.Store
	routerWorker Value
	yields     []*YieldRec
	entered    map[string]int
	sqlDBObj   *PtrV
	senderLog  []Value
	warm       bool   // a warm-up request is running: no environment step, no faults, router: no match, sender: success
	warmSave   [3]int
	warmO2     string
	warmSenderFail bool
	envSteps   int
	itoaSeen   []*Term
	autoO2     string
	httpReplies []httpReply
	ginParams  map[string]*Term
	ignoreGo   bool
	ginBound   []ginBound
	syncMaps   map[int][]syncMapEntry
	lifecycle  []string
	nsplit     int
	httpErrors []*Term
	reqDone    *ChanObj
	jwtOutcome string
	jwtNext    *IfaceV
	durMs      map[int]*Term
	tablesDropped, dbClosed int
	removed    []*Term
	grpcImpls  []Value // service implementations handed to grpc RegisterService, in order
	sqlPool    map[string]*Term // connection pool settings made on the handle
	sqlOpens   [][2]*Term // (driver, data source name) of every sql.Open
	httpBuilt  *httpSent
	httpSent   []*httpSent
	httpHeaders [][2]*Term
	ginSent    map[string]*Term
	schedFull  int
	schedCap, schedAdmitted int
	goSkipped  int
	locks      map[string]int
	pools      map[string]*poolState
	ncut       int
	bufCells   map[string]*bufCell
	schemaExecs, schemaNotIdempotent int
	goLog      []goLaunch // go statements met under vx.IgnoreGo (function name, receiver or first argument)
	lenOf      map[int]*Term
	ginWildcards map[string]bool
	nbind      int
	marshalledAny map[int]Value
	lastObs    *Term // tick of this coroutine's previous store transaction
}

func newWorld(ex *Exec) *World {
	w := &World{ex: ex, lenOf: map[int]*Term{}, marshalledAny: map[int]Value{}, marshalled: map[int]*MapObj{}, encSeen: map[int]bool{}, funcs: map[string]bool{}, entered: map[string]int{},
		slots: map[string]int{"promises": 3, "callbacks": 3, "schedules": 2, "locks": 2, "tasks": 4}}
	w.now = ex.tt.BV(0, 64)
	return w
}

func (w *World) finish(ex *Exec) {}

func (ex *Exec) str(v Value, what string) string {
	t, ok := v.(*Term)
	if ok {
		if s, ok := t.StrVal(); ok {
			return s
		}
	}
	panic(ex.unsupported("%s must be a constant string, got %s", what, describe(v)))
}

func (ex *Exec) input(name, kind string, sort Sort) *Term {
	t := ex.tt.Var(name, sort)
	ex.inputs = append(ex.inputs, namedInput{name: name, kind: kind, t: t})
	return t
}

const vxPkg = repoMod + "/internal/vx."

func vx(name string, f InterceptFn) { intercepts[vxPkg+name] = f }

func (ex *Exec) boolSlice(v Value) []*Term {
	sl := v.(*SliceV)
	var out []*Term
	for i := 0; i < sl.len; i++ {
		out = append(out, sl.arr.v.(*ArrayV).es[sl.off+i].(*Term))
	}
	return out
}

// assertObl discharges one obligation PC => cond.
func (ex *Exec) assertObl(cond *Term, label string) {
	h := ex.H
	if !h.wants(label) {
		return
	}
	h.mu.Lock()
	h.obligations++
	h.oblLabels[label]++
	h.mu.Unlock()
	ex.W.oblOnPath++
	if cond.IsTrue() {
		h.mu.Lock()
		h.discharged++
		h.mu.Unlock()
		return
	}
	ex.sol.what = "assert " + label
	r := ex.sat(ex.tt.Not(cond))
	switch r {
	case "unsat":
		h.mu.Lock()
		h.discharged++
		h.mu.Unlock()
		h.crossCheck(ex, ex.tt.Not(cond), label)
	case "sat":
		h.recordViolation(ex, label, "assertion can fail", ex.tt.Not(cond))
	default:
		h.noteUnknown(ex, "assert "+label)
	}
	ex.addPC(cond)
}

// assertGroup discharges several obligations with one query when they all hold.
func (ex *Exec) assertGroup(all0 []namedTerm, label string) {
	var cs []*Term
	var parts []namedTerm
	for _, p := range all0 {
		if strings.HasPrefix(p.name, "B:") {
			continue // stated bounds are assumed on havoc'd states, never checked
		}
		if ex.H.wants(label + ":" + p.name) {
			parts = append(parts, p)
			cs = append(cs, p.t)
		}
	}
	if len(parts) == 0 {
		return
	}
	all := ex.tt.And(cs...)
	ex.sol.what = "assert-group " + label
	if all.IsTrue() || ex.sat(ex.tt.Not(all)) == "unsat" {
		h := ex.H
		if !all.IsTrue() {
			h.crossCheck(ex, ex.tt.Not(all), label)
		}
		h.mu.Lock()
		h.obligations += len(parts)
		h.discharged += len(parts)
		for _, p := range parts {
			h.oblLabels[label+":"+p.name]++
		}
		h.mu.Unlock()
		ex.W.oblOnPath += len(parts)
		ex.addPC(all)
		return
	}
	for _, p := range parts {
		ex.assertObl(p.t, label+":"+p.name)
	}
}

func init() {
	vx("Int64", func(ex *Exec, fr *Frame, a []Value, s ssa.Instruction) Value {
		return ex.input(ex.str(a[0], "name"), "int64", SBV64)
	})
	vx("Int", func(ex *Exec, fr *Frame, a []Value, s ssa.Instruction) Value {
		return ex.input(ex.str(a[0], "name"), "int", SBV64)
	})
	vx("Int32", func(ex *Exec, fr *Frame, a []Value, s ssa.Instruction) Value {
		return ex.input(ex.str(a[0], "name"), "int32", SBV32)
	})
	vx("Bool", func(ex *Exec, fr *Frame, a []Value, s ssa.Instruction) Value {
		return ex.input(ex.str(a[0], "name"), "bool", SBool)
	})
	vx("String", func(ex *Exec, fr *Frame, a []Value, s ssa.Instruction) Value {
		return ex.input(ex.str(a[0], "name"), "string", SString)
	})
	vx("Bytes", func(ex *Exec, fr *Frame, a []Value, s ssa.Instruction) Value {
		n := ex.str(a[0], "name")
		return &BytesV{isNil: ex.input(n+".nil", "bool", SBool), s: ex.input(n, "bytes", SString)}
	})
	vx("StringPtr", func(ex *Exec, fr *Frame, a []Value, s ssa.Instruction) Value {
		n := ex.str(a[0], "name")
		v := ex.input(n, "string", SString)
		return &PtrV{obj: ex.newObj(v, types.Typ[types.String]), isNil: ex.input(n+".nil", "bool", SBool)}
	})
	vx("Int64Ptr", func(ex *Exec, fr *Frame, a []Value, s ssa.Instruction) Value {
		n := ex.str(a[0], "name")
		v := ex.input(n, "int64", SBV64)
		return &PtrV{obj: ex.newObj(v, types.Typ[types.Int64]), isNil: ex.input(n+".nil", "bool", SBool)}
	})
	vx("Tags", func(ex *Exec, fr *Frame, a []Value, s ssa.Instruction) Value {
		n := ex.str(a[0], "name")
		k := ex.concreteInt(a[1], "tag count")
		m := ex.newSymMap()
		tt := ex.tt
		for i := 0; i < k; i++ {
			key := ex.input(fmt.Sprintf("%s.k%d", n, i), "string", SString)
			val := ex.input(fmt.Sprintf("%s.v%d", n, i), "string", SString)
			for _, o := range m.keys {
				ex.addPC(tt.Not(tt.Eq(o, key)))
			}
			m.has = tt.Store(m.has, key, tt.Bool(true))
			m.val = tt.Store(m.val, key, val)
			m.keys = append(m.keys, key)
		}
		return &MapV{m: m}
	})
	vx("Choose", func(ex *Exec, fr *Frame, a []Value, s ssa.Instruction) Value {
		n := ex.concreteInt(a[0], "choice count")
		return ex.tt.BV(uint64(ex.choose(n, nil, "vx.Choose")), 64)
	})
	vx("Opt", func(ex *Exec, fr *Frame, a []Value, s ssa.Instruction) Value {
		n := ex.str(a[0], "option name")
		d := ex.concreteInt(a[1], "option default")
		if v, ok := ex.H.opts[n]; ok {
			d = v
		}
		return ex.tt.BV(uint64(d), 64)
	})
	vx("And", func(ex *Exec, fr *Frame, a []Value, s ssa.Instruction) Value { return ex.tt.And(ex.boolSlice(a[0])...) })
	vx("Or", func(ex *Exec, fr *Frame, a []Value, s ssa.Instruction) Value { return ex.tt.Or(ex.boolSlice(a[0])...) })
	vx("Not", func(ex *Exec, fr *Frame, a []Value, s ssa.Instruction) Value { return ex.tt.Not(a[0].(*Term)) })
	vx("Implies", func(ex *Exec, fr *Frame, a []Value, s ssa.Instruction) Value {
		return ex.tt.Implies(a[0].(*Term), a[1].(*Term))
	})
	vx("Iff", func(ex *Exec, fr *Frame, a []Value, s ssa.Instruction) Value { return ex.tt.Eq(a[0].(*Term), a[1].(*Term)) })
	ite := func(ex *Exec, fr *Frame, a []Value, s ssa.Instruction) Value {
		return ex.tt.Ite(a[0].(*Term), a[1].(*Term), a[2].(*Term))
	}
	vx("IteInt64", ite)
	vx("IteInt", ite)
	vx("IteString", ite)
	vx("IteBool", ite)
	vx("Assume", func(ex *Exec, fr *Frame, a []Value, s ssa.Instruction) Value {
		c := a[0].(*Term)
		if c.IsFalse() {
			panic(&pathEnd{kind: "pruned", msg: "assume(false)"})
		}
		if !c.IsTrue() {
			if ex.sat(c) == "unsat" {
				panic(&pathEnd{kind: "pruned", msg: "assumption infeasible"})
			}
			ex.addPC(c)
		}
		return nil
	})
	vx("Assert", func(ex *Exec, fr *Frame, a []Value, s ssa.Instruction) Value {
		ex.assertObl(a[0].(*Term), ex.str(a[1], "label"))
		return nil
	})
	// Accepts(cond, label): an acceptance obligation - over all executions that reach this point, at least one must
	// admit cond (sat query on this path's condition); decided when the harness has been explored completely
	vx("Accepts", func(ex *Exec, fr *Frame, a []Value, s ssa.Instruction) Value {
		label := ex.str(a[1], "label")
		h := ex.H
		if !h.wants(label) {
			return nil
		}
		h.mu.Lock()
		first := h.accPosed[label] == ""
		if first {
			h.accPosed[label] = ex.posStr()
			h.obligations++
			h.oblLabels[label]++
		}
		done := h.accWitness[label]
		h.mu.Unlock()
		if done {
			return nil
		}
		ex.sol.what = "accepts " + label
		switch ex.sat(a[0].(*Term)) {
		case "sat":
			h.mu.Lock()
			if !h.accWitness[label] {
				h.accWitness[label] = true
				h.discharged++
			}
			h.mu.Unlock()
		case "unsat":
		default:
			h.mu.Lock()
			h.accUnknown[label] = true
			h.mu.Unlock()
		}
		return nil
	})
	vx("Reach", func(ex *Exec, fr *Frame, a []Value, s ssa.Instruction) Value {
		l := ex.str(a[0], "label")
		ex.H.mu.Lock()
		ex.H.reach[l]++
		ex.H.mu.Unlock()
		return nil
	})
	vx("PanicOK", func(ex *Exec, fr *Frame, a []Value, s ssa.Instruction) Value {
		ex.W.panicOK = a[0].(*Term).IsTrue()
		return nil
	})
	vx("BytesEq", func(ex *Exec, fr *Frame, a []Value, s ssa.Instruction) Value {
		x, y := ex.bytesOf(a[0]), ex.bytesOf(a[1])
		tt := ex.tt
		// nil and empty are the same datum
		xs := tt.Ite(x.isNil, tt.Str(""), x.s)
		ys := tt.Ite(y.isNil, tt.Str(""), y.s)
		return tt.Eq(xs, ys)
	})
	vx("BytesNil", func(ex *Exec, fr *Frame, a []Value, s ssa.Instruction) Value { return ex.bytesOf(a[0]).isNil })
	vx("BytesStr", func(ex *Exec, fr *Frame, a []Value, s ssa.Instruction) Value { return ex.bytesOf(a[0]).s })
	vx("MapEq", func(ex *Exec, fr *Frame, a []Value, s ssa.Instruction) Value {
		return ex.mapEq(a[0].(*MapV).m, a[1].(*MapV).m)
	})
	vx("MapGet", func(ex *Exec, fr *Frame, a []Value, s ssa.Instruction) Value {
		v, _ := ex.mapGet(a[0].(*MapV).m, a[1], types.Typ[types.String])
		return v
	})
	vx("MapHas", func(ex *Exec, fr *Frame, a []Value, s ssa.Instruction) Value {
		_, h := ex.mapGet(a[0].(*MapV).m, a[1], types.Typ[types.String])
		return h
	})
	ptrEq := func(ex *Exec, fr *Frame, a []Value, s ssa.Instruction) Value {
		tt := ex.tt
		x, y := a[0].(*PtrV), a[1].(*PtrV)
		xn, yn := ex.isNilValue(x), ex.isNilValue(y)
		var veq *Term = tt.Bool(true)
		if x.obj != nil && y.obj != nil {
			veq = ex.eqValues(ex.load(&PtrV{obj: x.obj, path: x.path}), ex.load(&PtrV{obj: y.obj, path: y.path}))
		}
		return tt.Or(tt.And(xn, yn), tt.And(tt.Not(xn), tt.Not(yn), veq))
	}
	vx("StrPtrEq", ptrEq)
	vx("Int64PtrEq", ptrEq)
	vx("StrPtrVal", func(ex *Exec, fr *Frame, a []Value, s ssa.Instruction) Value {
		x := a[0].(*PtrV)
		if x.obj == nil {
			return ex.tt.Str("")
		}
		return ex.load(&PtrV{obj: x.obj, path: x.path})
	})
	vx("Int64PtrVal", func(ex *Exec, fr *Frame, a []Value, s ssa.Instruction) Value {
		x := a[0].(*PtrV)
		if x.obj == nil {
			return ex.tt.BV(0, 64)
		}
		return ex.load(&PtrV{obj: x.obj, path: x.path})
	})
	vx("IsNil", func(ex *Exec, fr *Frame, a []Value, s ssa.Instruction) Value {
		if iv, ok := a[0].(*IfaceV); ok && iv.typ != nil {
			return ex.isNilValue(iv.v)
		}
		return ex.tt.Bool(true)
	})
	vx("Restore", func(ex *Exec, fr *Frame, a []Value, s ssa.Instruction) Value {
		ex.W.db = ex.W.snaps[ex.concreteInt(a[0], "snapshot")].Clone()
		return nil
	})
	vx("SetDialect", func(ex *Exec, fr *Frame, a []Value, s ssa.Instruction) Value {
		ex.W.db.dialect = ex.str(a[0], "dialect")
		return nil
	})
	vx("TmplExpand", func(ex *Exec, fr *Frame, a []Value, s ssa.Instruction) Value {
		return ex.tt.UF("tmpl_expand", SString, a[0].(*Term), a[1].(*Term), a[2].(*Term))
	})
	vx("Itoa", func(ex *Exec, fr *Frame, a []Value, s ssa.Instruction) Value { return ex.fmtArg(a[0]) })
	vx("CronNext", func(ex *Exec, fr *Frame, a []Value, s ssa.Instruction) Value {
		return ex.tt.UF("cron_next", SBV64, a[0].(*Term), a[1].(*Term))
	})
	vx("CronValid", func(ex *Exec, fr *Frame, a []Value, s ssa.Instruction) Value {
		return ex.tt.UF("cron_valid", SBool, a[0].(*Term))
	})
	vx("Like", func(ex *Exec, fr *Frame, a []Value, s ssa.Instruction) Value {
		return ex.tt.UF("sql_like", SBool, a[0].(*Term), a[1].(*Term))
	})
	vx("LikePattern", func(ex *Exec, fr *Frame, a []Value, s ssa.Instruction) Value {
		// the '*' -> '%' rewrite the handlers apply to the client pattern
		p := a[0].(*Term)
		if c, ok := p.StrVal(); ok {
			return ex.tt.Str(strings.ReplaceAll(c, "*", "%"))
		}
		return ex.tt.UF("replaceall_"+sanitize("*")+"_"+sanitize("%"), SString, p)
	})
	vx("TemplateTrouble", func(ex *Exec, fr *Frame, a []Value, s ssa.Instruction) Value {
		// true iff a template failed to parse or execute on this path
		for _, t := range ex.trace {
			if t == "template-parses=0" || t == "template-exec-fails=1" {
				return ex.tt.Bool(true)
			}
		}
		return ex.tt.Bool(false)
	})
	vx("NamedConsts", func(ex *Exec, fr *Frame, a []Value, s ssa.Instruction) Value {
		// all package-level constants of a named integer type, read from the current source
		pkg := ex.P.pkg(ex.str(a[0], "package"))
		tn := ex.str(a[1], "type name")
		if pkg == nil {
			panic(ex.unsupported("package not loaded"))
		}
		var names []string
		for n, m := range pkg.Members {
			if c, ok := m.(*ssa.NamedConst); ok {
				if nt, ok := c.Type().(*types.Named); ok && nt.Obj().Name() == tn {
					names = append(names, n)
				}
			}
		}
		sort.Strings(names)
		arr := &ArrayV{}
		for _, n := range names {
			c := pkg.Members[n].(*ssa.NamedConst)
			arr.es = append(arr.es, ex.constVal(c.Value))
		}
		return &SliceV{arr: ex.newObj(arr, nil), len: len(arr.es), cap: len(arr.es)}
	})
	vx("SchemaDiff", func(ex *Exec, fr *Frame, a []Value, s ssa.Instruction) Value {
		sq, err1 := ex.P.schema("sqlite")
		pg, err2 := ex.P.schema("postgres")
		if err1 != nil || err2 != nil {
			panic(ex.unsupported("schema: %v %v", err1, err2))
		}
		var diffs []string
		for _, name := range sq.names {
			a, b := sq.defs[name], pg.defs[name]
			if b == nil {
				diffs = append(diffs, "table "+name+" missing in postgres")
				continue
			}
			for _, c := range a.cols {
				j, ok := b.idx[c.name]
				if !ok {
					diffs = append(diffs, name+"."+c.name+" missing in postgres")
					continue
				}
				d := b.cols[j]
				if c.typ != d.typ || c.unique != d.unique || c.hasDef != d.hasDef || c.def != d.def {
					diffs = append(diffs, fmt.Sprintf("%s.%s declared differently (%s/%v vs %s/%v)", name, c.name, c.typ, c.unique, d.typ, d.unique))
				}
				if c.typ == "INTEGER" && c.width != d.width && !c.autoinc {
					diffs = append(diffs, fmt.Sprintf("%s.%s is %d bits in sqlite and %d bits in postgres", name, c.name, c.width, d.width))
				}
			}
			for _, d := range b.cols {
				if _, ok := a.idx[d.name]; !ok {
					diffs = append(diffs, name+"."+d.name+" missing in sqlite")
				}
			}
		}
		return ex.tt.Str(strings.Join(diffs, "; "))
	})
	vx("ChanClosed", func(ex *Exec, fr *Frame, a []Value, s ssa.Instruction) Value {
		c := ex.chanOf(a[0])
		return ex.tt.Bool(c != nil && c.closed)
	})
	vx("ChanSends", func(ex *Exec, fr *Frame, a []Value, s ssa.Instruction) Value {
		c := ex.chanOf(a[0])
		if c == nil {
			return ex.tt.BV(0, 64)
		}
		return ex.tt.BV(uint64(c.sends), 64)
	})
	vx("HasPrefix", func(ex *Exec, fr *Frame, a []Value, s ssa.Instruction) Value {
		return ex.tt.PrefixOf(a[1].(*Term), a[0].(*Term))
	})
	vx("Concrete", func(ex *Exec, fr *Frame, a []Value, s ssa.Instruction) Value {
		// Concrete(x int64, lo, hi int) int: fork on the value of x within [lo,hi]
		x := a[0].(*Term)
		lo, hi := ex.concreteInt(a[1], "lo"), ex.concreteInt(a[2], "hi")
		var conds []*Term
		for v := lo; v <= hi; v++ {
			conds = append(conds, ex.tt.Eq(x, ex.tt.BV(uint64(v), 64)))
		}
		k := ex.choose(len(conds), conds, "vx.Concrete")
		return ex.tt.BV(uint64(lo+k), 64)
	})
}

func (ex *Exec) mapEq(x, y *MapObj) *Term {
	tt := ex.tt
	if x != nil && y != nil && x.src != nil && y.src != nil {
		// both are decodings of canonical encodings: equal maps <=> equal encodings
		return tt.Eq(x.src, y.src)
	}
	arr := func(m *MapObj) (*Term, *Term) {
		if m == nil {
			return tt.ConstArr(SArrSB, tt.Bool(false)), tt.ConstArr(SArrSS, tt.Str(""))
		}
		return m.has, m.val
	}
	xh, xv := arr(x)
	yh, yv := arr(y)
	// enumerable on one side: compare key-wise plus has-array equality
	return tt.And(tt.Eq(xh, yh), ex.valAgree(x, y, xh, xv, yv))
}

// valAgree: values agree on every key that is present.
func (ex *Exec) valAgree(x, y *MapObj, has, xv, yv *Term) *Term {
	tt := ex.tt
	var keys []*Term
	if x != nil && !x.opaq {
		keys = x.keys
	} else if y != nil && !y.opaq {
		keys = y.keys
	} else if x == nil || y == nil {
		return tt.Bool(true)
	} else {
		return tt.Eq(xv, yv)
	}
	var cs []*Term
	for _, k := range keys {
		cs = append(cs, tt.Eq(tt.Select(xv, k), tt.Select(yv, k)))
	}
	return tt.And(cs...)
}

// ---------------------------------------------------------------- database intrinsics

func (w *World) setBackend(ex *Exec, backend string) {
	sc, err := ex.P.schema(backend)
	if err != nil {
		panic(ex.unsupported("schema: %v", err))
	}
	w.backend = backend
	w.schema = sc
}

func (w *World) snap(ex *Exec) int {
	w.snaps = append(w.snaps, w.db.Clone())
	return len(w.snaps) - 1
}

func (ex *Exec) rowStruct(snap int, table string, slot int, key *Term) Value {
	tt := ex.tt
	if key == nil {
		key = tt.Str("")
	}
	return &StructV{fs: []Value{tt.BV(uint64(snap), 64), tt.Str(table), tt.BV(uint64(int64(slot)), 64), key, tt.Str("")}}
}

type rowRef struct {
	t    *Table
	sel  []*Term // per slot selector (exactly one may hold); nil => single slot
	slot int
}

func (ex *Exec) rowRefOf(v Value) *rowRef {
	sv := v.(*StructV)
	snap := ex.concreteInt(sv.fs[0], "row snapshot")
	table := ex.str(sv.fs[1], "row table")
	slot := ex.concreteInt(sv.fs[2], "row slot")
	key := sv.fs[3].(*Term)
	keyCol := ex.str(sv.fs[4], "row key column")
	if snap < 0 || snap >= len(ex.W.snaps) {
		panic(ex.unsupported("bad snapshot id %d", snap))
	}
	t := ex.W.snaps[snap].tabs[table]
	if t == nil {
		panic(ex.unsupported("no table %s", table))
	}
	if slot >= 0 {
		if slot >= len(t.rows) {
			panic(ex.unsupported("slot %d out of range for %s", slot, table))
		}
		return &rowRef{t: t, slot: slot}
	}
	kc := t.def.keyCol
	if keyCol != "" {
		kc = t.colIndex(keyCol)
	}
	rr := &rowRef{t: t, slot: -1}
	tt := ex.tt
	for _, r := range t.rows {
		rr.sel = append(rr.sel, tt.And(r.present, tt.Not(r.cols[kc].null), tt.Eq(r.cols[kc].v, key)))
	}
	return rr
}

func (rr *rowRef) present(ex *Exec) *Term {
	if rr.sel == nil {
		return rr.t.rows[rr.slot].present
	}
	return ex.tt.Or(rr.sel...)
}

func (rr *rowRef) col(ex *Exec, name string) SVal {
	ci := rr.t.colIndex(name)
	if rr.sel == nil {
		return rr.t.rows[rr.slot].cols[ci]
	}
	tt := ex.tt
	acc := rr.t.rows[len(rr.t.rows)-1].cols[ci]
	for i := len(rr.t.rows) - 2; i >= 0; i-- {
		acc = mergeVal(tt, rr.sel[i], rr.t.rows[i].cols[ci], acc)
	}
	return acc
}

func init() {
	vx("DB", func(ex *Exec, fr *Frame, a []Value, s ssa.Instruction) Value {
		w := ex.W
		w.setBackend(ex, ex.str(a[0], "backend"))
		for k := range w.slots {
			if v, ok := ex.H.opts["slots."+k]; ok {
				w.slots[k] = v
			}
		}
		w.db = ex.EmptyDB(w.schema, w.slots)
		w.sqlDBObj = ex.opaquePtr("sql.DB", nil)
		return w.sqlDBObj
	})
	vx("Slots", func(ex *Exec, fr *Frame, a []Value, s ssa.Instruction) Value {
		ex.W.slots[ex.str(a[0], "table")] = ex.concreteInt(a[1], "slots")
		return nil
	})
	vx("Havoc", func(ex *Exec, fr *Frame, a []Value, s ssa.Instruction) Value {
		w := ex.W
		w.db = ex.NewInvDB(w.schema, w.slots, fmt.Sprintf("db%d", len(w.snaps)))
		ex.addPC(ex.Inv(w.db, w.now))
		return nil
	})
	vx("HavocRaw", func(ex *Exec, fr *Frame, a []Value, s ssa.Instruction) Value {
		// arbitrary content satisfying only the schema constraints (key uniqueness, sort ids)
		w := ex.W
		w.db = ex.NewSymDB(w.schema, w.slots, fmt.Sprintf("db%d", len(w.snaps)))
		ex.addPC(ex.InvSchema(w.db))
		return nil
	})
	vx("Snap", func(ex *Exec, fr *Frame, a []Value, s ssa.Instruction) Value {
		return ex.tt.BV(uint64(ex.W.snap(ex)), 64)
	})
	vx("SqlFaults", func(ex *Exec, fr *Frame, a []Value, s ssa.Instruction) Value {
		ex.W.sqlFaults = ex.concreteInt(a[0], "fault budget")
		return nil
	})
	vx("FaultsTaken", func(ex *Exec, fr *Frame, a []Value, s ssa.Instruction) Value {
		return ex.tt.BV(uint64(len(ex.W.faultsTaken)), 64)
	})
	vx("TxStats", func(ex *Exec, fr *Frame, a []Value, s ssa.Instruction) Value {
		w := ex.W
		tt := ex.tt
		return &TupleV{vs: []Value{tt.BV(uint64(w.txOpened), 64), tt.BV(uint64(w.txCommitted), 64), tt.BV(uint64(w.txRolledBack), 64)}}
	})
	vx("NSlots", func(ex *Exec, fr *Frame, a []Value, s ssa.Instruction) Value {
		return ex.tt.BV(uint64(ex.W.slots[ex.str(a[0], "table")]), 64)
	})
	vx("Lookup", func(ex *Exec, fr *Frame, a []Value, s ssa.Instruction) Value {
		return ex.rowStruct(ex.concreteInt(a[0], "snapshot"), ex.str(a[1], "table"), -1, a[2].(*Term))
	})
	vx("LookupBy", func(ex *Exec, fr *Frame, a []Value, s ssa.Instruction) Value {
		r := ex.rowStruct(ex.concreteInt(a[0], "snapshot"), ex.str(a[1], "table"), -1, a[3].(*Term)).(*StructV)
		r.fs[4] = a[2]
		return r
	})
	vx("Slot", func(ex *Exec, fr *Frame, a []Value, s ssa.Instruction) Value {
		return ex.rowStruct(ex.concreteInt(a[0], "snapshot"), ex.str(a[1], "table"), ex.concreteInt(a[2], "slot"), nil)
	})
	vx("SameDB", func(ex *Exec, fr *Frame, a []Value, s ssa.Instruction) Value {
		return ex.sameDB(ex.W.snaps[ex.concreteInt(a[0], "snapshot")], ex.W.snaps[ex.concreteInt(a[1], "snapshot")], "")
	})
	vx("SameTable", func(ex *Exec, fr *Frame, a []Value, s ssa.Instruction) Value {
		return ex.sameDB(ex.W.snaps[ex.concreteInt(a[0], "snapshot")], ex.W.snaps[ex.concreteInt(a[1], "snapshot")], ex.str(a[2], "table"))
	})
	vx("SameRow", func(ex *Exec, fr *Frame, a []Value, s ssa.Instruction) Value {
		// SameRow(a,b Row): identical presence and column content
		x, y := ex.rowRefOf(a[0]), ex.rowRefOf(a[1])
		tt := ex.tt
		cs := []*Term{tt.Eq(x.present(ex), y.present(ex))}
		for ci := range x.t.def.cols {
			n := x.t.def.cols[ci].name
			xv, yv := x.col(ex, n), y.col(ex, n)
			cs = append(cs, tt.Implies(x.present(ex), tt.And(tt.Eq(xv.null, yv.null), tt.Implies(tt.Not(xv.null), tt.Eq(xv.v, yv.v)))))
		}
		return tt.And(cs...)
	})
	vx("NextSort", func(ex *Exec, fr *Frame, a []Value, s ssa.Instruction) Value {
		return ex.W.snaps[ex.concreteInt(a[0], "snapshot")].tabs[ex.str(a[1], "table")].nextSort
	})
	rowm := func(name string, f func(ex *Exec, rr *rowRef, a []Value) Value) {
		intercepts["("+vxPkg+"Row)."+name] = func(ex *Exec, fr *Frame, a []Value, s ssa.Instruction) Value {
			return f(ex, ex.rowRefOf(a[0]), a[1:])
		}
	}
	rowm("Present", func(ex *Exec, rr *rowRef, a []Value) Value { return rr.present(ex) })
	rowm("Int", func(ex *Exec, rr *rowRef, a []Value) Value {
		v := rr.col(ex, ex.str(a[0], "column"))
		if v.v.sort != SBV64 {
			panic(ex.unsupported("Row.Int on text column"))
		}
		return v.v
	})
	rowm("Str", func(ex *Exec, rr *rowRef, a []Value) Value {
		v := rr.col(ex, ex.str(a[0], "column"))
		if v.v.sort != SString {
			panic(ex.unsupported("Row.Str on integer column"))
		}
		return v.v
	})
	rowm("Null", func(ex *Exec, rr *rowRef, a []Value) Value { return rr.col(ex, ex.str(a[0], "column")).null })
	rowm("Bytes", func(ex *Exec, rr *rowRef, a []Value) Value {
		v := rr.col(ex, ex.str(a[0], "column"))
		return &BytesV{isNil: v.null, s: v.v}
	})
	rowm("Map", func(ex *Exec, rr *rowRef, a []Value) Value {
		v := rr.col(ex, ex.str(a[0], "column"))
		tt := ex.tt
		// NULL column decodes to the empty map
		has := tt.Ite(v.null, tt.ConstArr(SArrSB, tt.Bool(false)), decMapHas(tt, v.v))
		val := tt.Ite(v.null, tt.ConstArr(SArrSS, tt.Str("")), decMapVal(tt, v.v))
		m := ex.opaqueSymMap(has, val)
		m.src = tt.Ite(v.null, ex.encMap(nil), v.v)
		return &MapV{m: m}
	})
	rowm("MesgType", func(ex *Exec, rr *rowRef, a []Value) Value {
		return ex.mesgField(rr.col(ex, "mesg").v, 0)
	})
	rowm("MesgRoot", func(ex *Exec, rr *rowRef, a []Value) Value {
		return ex.mesgField(rr.col(ex, "mesg").v, 1)
	})
	rowm("MesgLeaf", func(ex *Exec, rr *rowRef, a []Value) Value {
		return ex.mesgField(rr.col(ex, "mesg").v, 2)
	})
	// commit log
	vx("NCommits", func(ex *Exec, fr *Frame, a []Value, s ssa.Instruction) Value {
		return ex.tt.BV(uint64(len(ex.W.commits)), 64)
	})
	vx("CommitPre", func(ex *Exec, fr *Frame, a []Value, s ssa.Instruction) Value {
		c := ex.W.commits[ex.concreteInt(a[0], "commit index")]
		ex.W.snaps = append(ex.W.snaps, c.pre)
		return ex.tt.BV(uint64(len(ex.W.snaps)-1), 64)
	})
	vx("CommitPost", func(ex *Exec, fr *Frame, a []Value, s ssa.Instruction) Value {
		c := ex.W.commits[ex.concreteInt(a[0], "commit index")]
		ex.W.snaps = append(ex.W.snaps, c.post)
		return ex.tt.BV(uint64(len(ex.W.snaps)-1), 64)
	})
	vx("CommitTime", func(ex *Exec, fr *Frame, a []Value, s ssa.Instruction) Value {
		return ex.W.commits[ex.concreteInt(a[0], "commit index")].time
	})
	vx("CheckInv", func(ex *Exec, fr *Frame, a []Value, s ssa.Instruction) Value {
		db := ex.W.snaps[ex.concreteInt(a[0], "snapshot")]
		label := ex.str(a[1], "label")
		ex.assertGroup(ex.InvParts(db, ex.W.now), label)
		return nil
	})
	vx("CheckG", func(ex *Exec, fr *Frame, a []Value, s ssa.Instruction) Value {
		pre := ex.W.snaps[ex.concreteInt(a[0], "snapshot")]
		post := ex.W.snaps[ex.concreteInt(a[1], "snapshot")]
		label := ex.str(a[2], "label")
		ex.assertGroup(ex.GParts(pre, post), label)
		return nil
	})
	vx("AssumeG", func(ex *Exec, fr *Frame, a []Value, s ssa.Instruction) Value {
		pre := ex.W.snaps[ex.concreteInt(a[0], "snapshot")]
		post := ex.W.snaps[ex.concreteInt(a[1], "snapshot")]
		for _, c := range ex.GParts(pre, post) {
			ex.addPC(c.t)
		}
		return nil
	})
	vx("Now", func(ex *Exec, fr *Frame, a []Value, s ssa.Instruction) Value { return ex.W.now })
	vx("SetNow", func(ex *Exec, fr *Frame, a []Value, s ssa.Instruction) Value {
		ex.W.now = a[0].(*Term)
		return nil
	})
}

func (ex *Exec) mesgField(s *Term, i int) *Term {
	return liftIte(ex.tt, s, func(s *Term) *Term {
		if s.op == "uf:jenc_message.Mesg" {
			return s.args[i]
		}
		return ex.tt.UF(fmt.Sprintf("jdec_message.Mesg_%d", i), SString, s)
	})
}

// sameDB: all rows of table (or all tables) are identical.
func (ex *Exec) sameDB(a, b *SymDB, table string) *Term {
	tt := ex.tt
	var cs []*Term
	for _, name := range a.names {
		if table != "" && name != table {
			continue
		}
		ta, tb := a.tabs[name], b.tabs[name]
		for i := range ta.rows {
			ra, rb := ta.rows[i], tb.rows[i]
			cs = append(cs, tt.Eq(ra.present, rb.present))
			for ci := range ra.cols {
				cs = append(cs, tt.Implies(ra.present, tt.And(tt.Eq(ra.cols[ci].null, rb.cols[ci].null),
					tt.Implies(tt.Not(ra.cols[ci].null), tt.Eq(ra.cols[ci].v, rb.cols[ci].v)))))
			}
		}
		if ta.nextSort != nil {
			cs = append(cs, tt.Eq(ta.nextSort, tb.nextSort))
		}
	}
	return tt.And(cs...)
}

func lastSeg(s string) string {
	if i := strings.LastIndex(s, "/"); i >= 0 {
		return s[i+1:]
	}
	return s
}
