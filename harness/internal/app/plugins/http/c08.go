package http

// C08 / C19 / C20 (http transport): a hand-off is reported successful only if the receiver's endpoint
// answered with a success status; the message is posted to exactly the configured url with exactly the
// dispatched body; undecodable receiver data is a failed hand-off that sends nothing.

import (
	"github.com/prometheus/client_golang/prometheus"
	"github.com/resonatehq/resonate/internal/metrics"
	"github.com/resonatehq/resonate/internal/vx"
)

func VH_PL_HttpProcess() {
	// the worker is the one the real constructor builds (its client, its time bound)
	h, herr := New(nil, metrics.New(prometheus.NewRegistry()), &Config{Size: 1, Workers: 1, Timeout: vx.DurationMs("config.timeout", 1, 1<<32)})
	vx.Assert(herr == nil && h != nil && len(h.workers) == 1 && h.workers[0] != nil && h.workers[0].client != nil, "C08:http-plugin-constructs-its-worker")
	if herr != nil || h == nil || len(h.workers) != 1 || h.workers[0] == nil || h.workers[0].client == nil {
		return
	}
	w := h.workers[0]
	data, body := vx.Bytes("data"), vx.Bytes("body")
	ok, err := w.Process(data, body)
	vx.Assert(!(ok && err != nil), "C08:http-success-and-error-exclude-each-other")
	if vx.HttpSent() == 0 {
		vx.Reach("not-sent")
		vx.Assert(!ok, "C08:http-nothing-sent-is-not-a-successful-hand-off")
		return
	}
	vx.Assert(vx.HttpSent() == 1, "C08:http-message-posted-at-most-once")
	// the attempt ends: a receiver that accepts the connection and never answers costs a bounded time, not the dispatch cycle
	vx.Assert(vx.HttpSentTimeout(0) > 0, "C11:http-hand-off-attempt-is-bounded-in-time")
	vx.Assert(vx.JsonDecodes(data, (*Data)(nil)), "C19:http-undecodable-receiver-sends-nothing")
	vx.Assert(vx.And(vx.HttpSentMethod(0) == "POST", vx.HttpSentURL(0) == vx.JsonStringField(data, (*Data)(nil), "Url")), "C19:http-posted-to-the-configured-url")
	vx.Assert(vx.BytesEq(vx.HttpSentBody(0), body), "C20:http-body-dispatched-verbatim")
	vx.Assert(vx.HttpSentHeader("Content-Type") == "application/json", "C19:http-content-type-not-overridable")
	st := vx.HttpSentStatus(0)
	if st < 0 {
		vx.Reach("transport-error")
		vx.Assert(!ok && err != nil, "C08:http-transport-error-is-a-failed-hand-off")
		return
	}
	vx.Reach("answered")
	// the receiver refused (3xx/4xx/5xx) => not a successful hand-off; 200 OK => successful
	vx.Assert(vx.Implies(ok, vx.And(st >= 200, st < 300)), "C08:http-refused-hand-off-is-not-successful")
	vx.Assert(vx.Implies(st == 200, ok), "C08:http-ok-is-a-successful-hand-off")
}
