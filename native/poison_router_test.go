// target: internal/app/subsystems/aio/router
package router

import (
	"testing"

	"github.com/resonatehq/resonate/pkg/promise"
)

// D4: the routing tag value `null` is valid JSON that decodes to a nil *Recv.
func TestVN_D4_RouterNullTag(t *testing.T) {
	defer func() {
		if r := recover(); r != nil {
			t.Fatalf("TagSource panicked on tag value null: %v", r)
		}
	}()
	_, ok := TagSource(&TagSourceConfig{Key: "resonate:invoke"})(&promise.Promise{Id: "p", Tags: map[string]string{"resonate:invoke": "null"}})
	if ok {
		t.Fatal("null must not route")
	}
}
