package http

// C13 / C15 (HTTP half): every HTTP handler end to end on a symbolic request:
// real handler (gin binding replaced by "any value satisfying the binding tags") ->
// real api.Process -> kernel double running the REAL request coroutine under havoc
// semantics -> real reply. A reachable panic is a violation; exactly one reply whose
// status code is the kernel status divided by 100.

import (
	"github.com/gin-gonic/gin"
	i_api "github.com/resonatehq/resonate/internal/api"
	"github.com/resonatehq/resonate/internal/app/coroutines"
	"github.com/resonatehq/resonate/internal/app/subsystems/api"
	"github.com/resonatehq/resonate/internal/kernel/bus"
	"github.com/resonatehq/resonate/internal/kernel/t_api"
	"github.com/resonatehq/resonate/internal/vx"
)

type vhKernel struct {
	i_api.API
	c     vx.Coro
	calls int
	req   *t_api.Request
	res   *t_api.Response
	err   error
}

func (k *vhKernel) EnqueueSQE(sqe *bus.SQE[t_api.Request, t_api.Response]) {
	k.calls++
	k.req = sqe.Submission
	k.res, k.err = coroutines.VXDispatch(k.c, sqe.Submission)
	sqe.Callback(k.res, k.err)
}

func (k *vhKernel) DequeueCQE(cq <-chan *bus.CQE[t_api.Request, t_api.Response]) *bus.CQE[t_api.Request, t_api.Response] {
	return <-cq
}

func vhServer() (*server, *vhKernel) {
	k := &vhKernel{c: coroutines.VXSetup(vx.HavocMode | vx.Faults(vx.Opt("faults", 1)))}
	return &server{api: api.New(k, "http"), config: &Config{TaskFrequency: 60000000000}}, k
}

func vhCheck(k *vhKernel, kind t_api.Kind) {
	vx.Assert(vx.HttpReplies() == 1, "C15:exactly-one-http-reply")
	if vx.HttpReplies() != 1 {
		return
	}
	code := vx.HttpCode(0)
	body, isErrBody := vx.HttpBody(0).(gin.H)
	if k.calls == 0 {
		vx.Reach("refused-by-front-end")
		vx.Assert(code == 400, "C13:invalid-request-answered-with-client-error")
		_, has := body["error"]
		vx.Assert(isErrBody && has, "C15:error-body")
		return
	}
	vx.Assert(k.calls == 1 && k.req.Kind == kind, "C12:one-kernel-request-per-call")
	if k.err != nil {
		vx.Reach("kernel-error")
		te, ok := k.err.(*t_api.Error)
		vx.Assert(ok && code == int(te.Code())/100, "C15:http-status-is-kernel-status-over-100")
		_, has := body["error"]
		vx.Assert(isErrBody && has, "C15:error-body")
		return
	}
	st := k.res.Status()
	vx.Assert(code == int(st)/100, "C15:http-status-is-kernel-status-over-100")
	if st.IsSuccessful() {
		vx.Reach("reply")
	} else {
		vx.Reach("kernel-refusal")
		_, has := body["error"]
		vx.Assert(isErrBody && has, "C15:error-body")
	}
}

func VH_H_ReadPromise()   { s, k := vhServer(); s.readPromise(vx.GinContext("GET", "id")); vhCheck(k, t_api.ReadPromise) }
func VH_H_SearchPromises() { s, k := vhServer(); s.searchPromises(vx.GinContext("GET")); vhCheck(k, t_api.SearchPromises) }
func VH_H_CreatePromise() {
	s, k := vhServer()
	s.createPromise(vx.GinContext("POST"))
	vhCheck(k, t_api.CreatePromise)
	if k.calls == 1 && k.err == nil && k.res.CreatePromise.Status.IsSuccessful() {
		p, _ := vx.HttpBody(0).(interface{ GetId() string })
		_ = p
	}
}
func VH_H_CreatePromiseAndTask() { s, k := vhServer(); s.createPromiseAndTask(vx.GinContext("POST")); vhCheck(k, t_api.CreatePromiseAndTask) }
func VH_H_CompletePromise()      { s, k := vhServer(); s.completePromise(vx.GinContext("PATCH", "id")); vhCheck(k, t_api.CompletePromise) }
func VH_H_CreateCallback()       { s, k := vhServer(); s.createCallback(vx.GinContext("POST")); vhCheck(k, t_api.CreateCallback) }
func VH_H_CreateSubscription()   { s, k := vhServer(); s.createSubscription(vx.GinContext("POST")); vhCheck(k, t_api.CreateSubscription) }
func VH_H_ReadSchedule()         { s, k := vhServer(); s.readSchedule(vx.GinContext("GET", "id")); vhCheck(k, t_api.ReadSchedule) }
func VH_H_SearchSchedules()      { s, k := vhServer(); s.searchSchedules(vx.GinContext("GET")); vhCheck(k, t_api.SearchSchedules) }
func VH_H_CreateSchedule()       { s, k := vhServer(); s.createSchedule(vx.GinContext("POST")); vhCheck(k, t_api.CreateSchedule) }
func VH_H_DeleteSchedule()       { s, k := vhServer(); s.deleteSchedule(vx.GinContext("DELETE", "id")); vhCheck(k, t_api.DeleteSchedule) }
func VH_H_AcquireLock()          { s, k := vhServer(); s.acquireLock(vx.GinContext("POST")); vhCheck(k, t_api.AcquireLock) }
func VH_H_ReleaseLock()          { s, k := vhServer(); s.releaseLock(vx.GinContext("POST")); vhCheck(k, t_api.ReleaseLock) }
func VH_H_HeartbeatLocks()       { s, k := vhServer(); s.heartbeatLocks(vx.GinContext("POST")); vhCheck(k, t_api.HeartbeatLocks) }

func vhMethod() string {
	if vx.Choose(2) == 0 {
		return "GET"
	}
	return "POST"
}
func VH_H_ClaimTask()      { s, k := vhServer(); s.claimTask(vx.GinContext(vhMethod())); vhCheck(k, t_api.ClaimTask) }
func VH_H_CompleteTask()   { s, k := vhServer(); s.completeTask(vx.GinContext(vhMethod())); vhCheck(k, t_api.CompleteTask) }
func VH_H_HeartbeatTasks() { s, k := vhServer(); s.heartbeatTasks(vx.GinContext(vhMethod())); vhCheck(k, t_api.HeartbeatTasks) }
