package main

// Parser for the SQL dialect subset used by sqlite.go / postgres.go.
// Anything outside the subset is an error (=> INCONCLUSIVE), never a guess.

import (
	"fmt"
	"strconv"
	"strings"
)

type SQLExpr struct {
	op    string // param col int str + - & | = != < <= > >= and or not in isnull notnull like jsoneq contains exists notexists null
	args  []*SQLExpr
	table string
	name  string
	num   int64
	param int // 0-based argument index
	list  []int64
	sub   *SQLStmt
}

type SQLSet struct {
	col  string
	expr *SQLExpr
}

type OrderKey struct {
	table, col string
	desc       bool
}

type ColDef struct {
	name    string
	typ     string // TEXT INTEGER BLOB
	width   int    // integer width in bits
	unique  bool
	autoinc bool
	hasDef  bool
	def     int64
	pk      bool
	notnull bool
	dialectType string
	foreignType bool // a type name outside the set both dialects' schemas use
	numericAffinity bool // SQLite: a declared type without INT/CHAR/CLOB/TEXT/BLOB in its name gives NUMERIC (or REAL) affinity
}

type SQLStmt struct {
	kind       string // select insert update delete create-table create-index
	table      string
	alias      string
	cols       []string // select list or insert column list
	selectOne  bool     // SELECT 1
	where      *SQLExpr
	orderBy    []OrderKey
	limit      *SQLExpr
	groupBy    string
	distinctOn string
	values     []*SQLExpr // INSERT ... VALUES or INSERT ... SELECT <exprs> (no FROM)
	fromSelect *SQLStmt   // INSERT ... SELECT ... FROM t
	selExprs   []*SQLExpr // select list expressions for INSERT..SELECT..FROM
	conflict   string     // ON CONFLICT(col)
	conflictDo string     // nothing | update
	sets       []SQLSet
	cwhere     *SQLExpr // DO UPDATE ... WHERE
	coldefs    []ColDef
	nparams    int
	text       string
}

type sqlParser struct {
	toks   []string
	pos    int
	nparam int
	text   string
}

func sqlTokens(s string) ([]string, error) {
	var toks []string
	i := 0
	for i < len(s) {
		c := s[i]
		switch {
		case c == ' ' || c == '\t' || c == '\n' || c == '\r':
			i++
		case c == '-' && i+1 < len(s) && s[i+1] == '-':
			for i < len(s) && s[i] != '\n' {
				i++
			}
		case c == '\'':
			j := i + 1
			for j < len(s) && s[j] != '\'' {
				j++
			}
			if j >= len(s) {
				return nil, fmt.Errorf("unterminated string literal")
			}
			toks = append(toks, s[i:j+1])
			i = j + 1
		case c == '$' && i+1 < len(s) && s[i+1] >= '0' && s[i+1] <= '9':
			j := i + 1
			for j < len(s) && s[j] >= '0' && s[j] <= '9' {
				j++
			}
			toks = append(toks, s[i:j])
			i = j
		case c >= '0' && c <= '9':
			j := i
			for j < len(s) && s[j] >= '0' && s[j] <= '9' {
				j++
			}
			toks = append(toks, s[i:j])
			i = j
		case c == '_' || c >= 'a' && c <= 'z' || c >= 'A' && c <= 'Z':
			j := i
			for j < len(s) && (s[j] == '_' || s[j] >= 'a' && s[j] <= 'z' || s[j] >= 'A' && s[j] <= 'Z' || s[j] >= '0' && s[j] <= '9') {
				j++
			}
			toks = append(toks, s[i:j])
			i = j
		default:
			for _, op := range []string{"::", "!=", "<>", "<=", ">=", "@>", "||"} {
				if strings.HasPrefix(s[i:], op) {
					toks = append(toks, op)
					i += len(op)
					goto next
				}
			}
			if strings.ContainsRune("(),=<>+-&|?*.;", rune(c)) {
				toks = append(toks, string(c))
				i++
			} else {
				return nil, fmt.Errorf("unexpected character %q in SQL", c)
			}
		next:
		}
	}
	return toks, nil
}

func (p *sqlParser) peek() string {
	if p.pos < len(p.toks) {
		return p.toks[p.pos]
	}
	return ""
}
func (p *sqlParser) peekU() string { return strings.ToUpper(p.peek()) }
func (p *sqlParser) next() string {
	t := p.peek()
	p.pos++
	return t
}
func (p *sqlParser) accept(kw string) bool {
	if p.peekU() == kw {
		p.pos++
		return true
	}
	return false
}
func (p *sqlParser) expect(kw string) error {
	if !p.accept(kw) {
		return fmt.Errorf("expected %s, got %q (at token %d of %q)", kw, p.peek(), p.pos, strings.TrimSpace(p.text))
	}
	return nil
}

func isIdent(t string) bool {
	if t == "" {
		return false
	}
	c := t[0]
	return c == '_' || c >= 'a' && c <= 'z' || c >= 'A' && c <= 'Z'
}

// ParseSQLScript parses one or more ';'-separated statements.
func ParseSQLScript(text string) ([]*SQLStmt, error) {
	var out []*SQLStmt
	for _, part := range splitStatements(text) {
		if strings.TrimSpace(stripComments(part)) == "" {
			continue
		}
		st, err := ParseSQL(part)
		if err != nil {
			return nil, err
		}
		out = append(out, st)
	}
	return out, nil
}

func stripComments(s string) string {
	var sb strings.Builder
	for _, l := range strings.Split(s, "\n") {
		if i := strings.Index(l, "--"); i >= 0 {
			l = l[:i]
		}
		sb.WriteString(l)
		sb.WriteByte('\n')
	}
	return sb.String()
}

func splitStatements(s string) []string {
	return strings.Split(stripComments(s), ";")
}

func ParseSQL(text string) (*SQLStmt, error) {
	toks, err := sqlTokens(text)
	if err != nil {
		return nil, err
	}
	p := &sqlParser{toks: toks, text: text}
	st, err := p.statement()
	if err != nil {
		return nil, err
	}
	p.accept(";")
	if p.pos != len(p.toks) {
		return nil, fmt.Errorf("trailing SQL tokens at %q in %q", p.peek(), strings.TrimSpace(text))
	}
	st.nparams = p.nparam
	st.text = text
	return st, nil
}

func (p *sqlParser) statement() (*SQLStmt, error) {
	switch p.peekU() {
	case "SELECT":
		return p.selectStmt()
	case "INSERT":
		return p.insertStmt()
	case "UPDATE":
		return p.updateStmt()
	case "DELETE":
		return p.deleteStmt()
	case "CREATE":
		return p.createStmt()
	case "DROP":
		for p.pos < len(p.toks) && p.peek() != ";" {
			p.next()
		}
		return &SQLStmt{kind: "drop"}, nil
	}
	return nil, fmt.Errorf("unsupported SQL statement starting with %q", p.peek())
}

func (p *sqlParser) ident() (string, error) {
	t := p.next()
	if !isIdent(t) {
		return "", fmt.Errorf("expected identifier, got %q in %q", t, strings.TrimSpace(p.text))
	}
	return strings.ToLower(t), nil
}

var sqlKeywords = map[string]bool{"WHERE": true, "ORDER": true, "GROUP": true, "LIMIT": true, "ON": true, "SET": true, "AND": true, "OR": true, "FROM": true, "VALUES": true, "SELECT": true}

func (p *sqlParser) selectStmt() (*SQLStmt, error) {
	if err := p.expect("SELECT"); err != nil {
		return nil, err
	}
	st := &SQLStmt{kind: "select"}
	if p.accept("DISTINCT") {
		if err := p.expect("ON"); err != nil {
			return nil, err
		}
		if err := p.expect("("); err != nil {
			return nil, err
		}
		c, err := p.ident()
		if err != nil {
			return nil, err
		}
		st.distinctOn = c
		if err := p.expect(")"); err != nil {
			return nil, err
		}
	}
	// select list
	for {
		if p.peek() == "1" {
			p.next()
			st.selectOne = true
		} else {
			e, err := p.expr()
			if err != nil {
				return nil, err
			}
			st.selExprs = append(st.selExprs, e)
			if e.op == "col" {
				st.cols = append(st.cols, e.name)
			} else {
				st.cols = append(st.cols, "")
			}
		}
		if !p.accept(",") {
			break
		}
	}
	if p.accept("FROM") {
		t, err := p.ident()
		if err != nil {
			return nil, err
		}
		st.table = t
		if isIdent(p.peek()) && !sqlKeywords[p.peekU()] {
			a, _ := p.ident()
			st.alias = a
		}
	}
	if p.accept("WHERE") {
		e, err := p.expr()
		if err != nil {
			return nil, err
		}
		st.where = e
	}
	if p.accept("GROUP") {
		if err := p.expect("BY"); err != nil {
			return nil, err
		}
		c, err := p.ident()
		if err != nil {
			return nil, err
		}
		st.groupBy = c
	}
	if p.accept("ORDER") {
		if err := p.expect("BY"); err != nil {
			return nil, err
		}
		for {
			c, err := p.ident()
			if err != nil {
				return nil, err
			}
			k := OrderKey{col: c}
			if p.accept(".") {
				c2, err := p.ident()
				if err != nil {
					return nil, err
				}
				k.table, k.col = c, c2
			}
			if p.accept("DESC") {
				k.desc = true
			} else {
				p.accept("ASC")
			}
			st.orderBy = append(st.orderBy, k)
			if !p.accept(",") {
				break
			}
		}
	}
	if p.accept("LIMIT") {
		e, err := p.primary()
		if err != nil {
			return nil, err
		}
		st.limit = e
	}
	return st, nil
}

func (p *sqlParser) identList() ([]string, error) {
	if err := p.expect("("); err != nil {
		return nil, err
	}
	var out []string
	for {
		c, err := p.ident()
		if err != nil {
			return nil, err
		}
		out = append(out, c)
		if !p.accept(",") {
			break
		}
	}
	return out, p.expect(")")
}

func (p *sqlParser) insertStmt() (*SQLStmt, error) {
	p.next()
	if err := p.expect("INTO"); err != nil {
		return nil, err
	}
	t, err := p.ident()
	if err != nil {
		return nil, err
	}
	st := &SQLStmt{kind: "insert", table: t}
	if st.cols, err = p.identList(); err != nil {
		return nil, err
	}
	switch p.peekU() {
	case "VALUES":
		p.next()
		if err := p.expect("("); err != nil {
			return nil, err
		}
		for {
			e, err := p.expr()
			if err != nil {
				return nil, err
			}
			st.values = append(st.values, e)
			if !p.accept(",") {
				break
			}
		}
		if err := p.expect(")"); err != nil {
			return nil, err
		}
	case "SELECT":
		sel, err := p.selectStmt()
		if err != nil {
			return nil, err
		}
		if sel.table == "" {
			st.values = sel.selExprs
			st.where = sel.where
		} else {
			st.fromSelect = sel
		}
	default:
		return nil, fmt.Errorf("unsupported INSERT form at %q", p.peek())
	}
	if len(st.values) > 0 && len(st.values) != len(st.cols) {
		return nil, fmt.Errorf("INSERT column/value count mismatch in %q", strings.TrimSpace(p.text))
	}
	if st.fromSelect != nil && len(st.fromSelect.selExprs) != len(st.cols) {
		return nil, fmt.Errorf("INSERT..SELECT column count mismatch in %q", strings.TrimSpace(p.text))
	}
	if p.accept("ON") {
		if err := p.expect("CONFLICT"); err != nil {
			return nil, err
		}
		cs, err := p.identList()
		if err != nil {
			return nil, err
		}
		if len(cs) != 1 {
			return nil, fmt.Errorf("multi-column ON CONFLICT unsupported")
		}
		st.conflict = cs[0]
		if err := p.expect("DO"); err != nil {
			return nil, err
		}
		if p.accept("NOTHING") {
			st.conflictDo = "nothing"
		} else if p.accept("UPDATE") {
			st.conflictDo = "update"
			if err := p.expect("SET"); err != nil {
				return nil, err
			}
			if st.sets, err = p.setList(); err != nil {
				return nil, err
			}
			if p.accept("WHERE") {
				if st.cwhere, err = p.expr(); err != nil {
					return nil, err
				}
			}
		} else {
			return nil, fmt.Errorf("unsupported ON CONFLICT action %q", p.peek())
		}
	}
	return st, nil
}

func (p *sqlParser) setList() ([]SQLSet, error) {
	var out []SQLSet
	for {
		c, err := p.ident()
		if err != nil {
			return nil, err
		}
		if err := p.expect("="); err != nil {
			return nil, err
		}
		e, err := p.addExpr()
		if err != nil {
			return nil, err
		}
		out = append(out, SQLSet{col: c, expr: e})
		if !p.accept(",") {
			break
		}
	}
	return out, nil
}

func (p *sqlParser) updateStmt() (*SQLStmt, error) {
	p.next()
	t, err := p.ident()
	if err != nil {
		return nil, err
	}
	st := &SQLStmt{kind: "update", table: t}
	if err := p.expect("SET"); err != nil {
		return nil, err
	}
	if st.sets, err = p.setList(); err != nil {
		return nil, err
	}
	if p.accept("WHERE") {
		if st.where, err = p.expr(); err != nil {
			return nil, err
		}
	}
	return st, nil
}

func (p *sqlParser) deleteStmt() (*SQLStmt, error) {
	p.next()
	if err := p.expect("FROM"); err != nil {
		return nil, err
	}
	t, err := p.ident()
	if err != nil {
		return nil, err
	}
	st := &SQLStmt{kind: "delete", table: t}
	if p.accept("WHERE") {
		if st.where, err = p.expr(); err != nil {
			return nil, err
		}
	}
	return st, nil
}

func (p *sqlParser) createStmt() (*SQLStmt, error) {
	p.next()
	if p.accept("INDEX") || (p.peekU() == "UNIQUE" && false) {
		// CREATE INDEX IF NOT EXISTS name ON t(cols): no semantic effect
		for p.pos < len(p.toks) && p.peek() != ";" {
			p.next()
		}
		return &SQLStmt{kind: "create-index"}, nil
	}
	if err := p.expect("TABLE"); err != nil {
		return nil, err
	}
	if p.accept("IF") {
		p.expect("NOT")
		p.expect("EXISTS")
	}
	t, err := p.ident()
	if err != nil {
		return nil, err
	}
	st := &SQLStmt{kind: "create-table", table: t}
	if err := p.expect("("); err != nil {
		return nil, err
	}
	for {
		if p.peekU() == "PRIMARY" {
			p.next()
			if err := p.expect("KEY"); err != nil {
				return nil, err
			}
			ks, err := p.identList()
			if err != nil {
				return nil, err
			}
			if len(ks) != 1 {
				return nil, fmt.Errorf("composite primary key unsupported")
			}
			for i := range st.coldefs {
				if st.coldefs[i].name == ks[0] {
					st.coldefs[i].unique, st.coldefs[i].pk = true, true
				}
			}
			if !p.accept(",") {
				break
			}
			continue
		}
		c, err := p.ident()
		if err != nil {
			return nil, err
		}
		cd := ColDef{name: c, width: 64}
		ty := p.peekU()
		switch ty {
		case "TEXT":
			cd.typ = "TEXT"
		case "INTEGER":
			cd.typ = "INTEGER"
			cd.width = 0 // dialect dependent: 64 in SQLite, 32 in Postgres (set by schema loader)
		case "BIGINT":
			cd.typ = "INTEGER"
		case "BLOB", "BYTEA", "JSONB":
			cd.typ = "BLOB"
		case "SERIAL":
			cd.typ = "INTEGER"
			cd.autoinc = true
			cd.width = 32
		case "BIGSERIAL":
			cd.typ = "INTEGER"
			cd.autoinc = true
		default:
			// any other declared type name: SQLite accepts every name and derives the column's affinity from it
			// (https://www.sqlite.org/datatype3.html 3.1); Postgres rejects unknown type names (checked by the schema loader)
			if ty == "" || ty == "," || ty == ")" || !isIdentLike(ty) {
				return nil, fmt.Errorf("unsupported column type %q", p.peek())
			}
			switch {
			case strings.Contains(ty, "INT"):
				cd.typ = "INTEGER"
			case strings.Contains(ty, "CHAR"), strings.Contains(ty, "CLOB"), strings.Contains(ty, "TEXT"):
				cd.typ = "TEXT"
			case strings.Contains(ty, "BLOB"):
				cd.typ = "BLOB"
			default:
				cd.typ = "TEXT" // holds what the code writes, but converts text that looks like a number
				cd.numericAffinity = true
			}
			cd.foreignType = true
		}
		p.next()
		cd.dialectType = ty
		for p.peek() != "," && p.peek() != ")" && p.peek() != "" {
			switch p.peekU() {
			case "UNIQUE":
				p.next()
				cd.unique = true
			case "PRIMARY":
				p.next()
				if err := p.expect("KEY"); err != nil {
					return nil, err
				}
				cd.unique = true
				cd.pk = true
			case "AUTOINCREMENT":
				p.next()
				cd.autoinc = true
			case "DEFAULT":
				p.next()
				n, err := strconv.ParseInt(p.next(), 10, 64)
				if err != nil {
					return nil, fmt.Errorf("unsupported DEFAULT in %s.%s", t, c)
				}
				cd.hasDef, cd.def = true, n
			case "NOT":
				p.next()
				if err := p.expect("NULL"); err != nil {
					return nil, err
				}
				cd.notnull = true
			default:
				return nil, fmt.Errorf("unsupported column constraint %q", p.peek())
			}
		}
		st.coldefs = append(st.coldefs, cd)
		if !p.accept(",") {
			break
		}
	}
	return st, p.expect(")")
}

// ---- expressions: or > and > not > cmp > add > primary

func (p *sqlParser) expr() (*SQLExpr, error) {
	l, err := p.andExpr()
	if err != nil {
		return nil, err
	}
	for p.accept("OR") {
		r, err := p.andExpr()
		if err != nil {
			return nil, err
		}
		l = &SQLExpr{op: "or", args: []*SQLExpr{l, r}}
	}
	return l, nil
}

func (p *sqlParser) andExpr() (*SQLExpr, error) {
	l, err := p.notExpr()
	if err != nil {
		return nil, err
	}
	for p.accept("AND") {
		r, err := p.notExpr()
		if err != nil {
			return nil, err
		}
		l = &SQLExpr{op: "and", args: []*SQLExpr{l, r}}
	}
	return l, nil
}

func (p *sqlParser) notExpr() (*SQLExpr, error) {
	if p.peekU() == "NOT" && p.pos+1 < len(p.toks) && strings.ToUpper(p.toks[p.pos+1]) == "EXISTS" {
		p.next()
		e, err := p.existsExpr()
		if err != nil {
			return nil, err
		}
		e.op = "notexists"
		return e, nil
	}
	if p.accept("NOT") {
		e, err := p.notExpr()
		if err != nil {
			return nil, err
		}
		return &SQLExpr{op: "not", args: []*SQLExpr{e}}, nil
	}
	if p.peekU() == "EXISTS" {
		return p.existsExpr()
	}
	return p.cmpExpr()
}

func (p *sqlParser) existsExpr() (*SQLExpr, error) {
	if err := p.expect("EXISTS"); err != nil {
		return nil, err
	}
	if err := p.expect("("); err != nil {
		return nil, err
	}
	sub, err := p.selectStmt()
	if err != nil {
		return nil, err
	}
	if err := p.expect(")"); err != nil {
		return nil, err
	}
	return &SQLExpr{op: "exists", sub: sub}, nil
}

func (p *sqlParser) cmpExpr() (*SQLExpr, error) {
	l, err := p.addExpr()
	if err != nil {
		return nil, err
	}
	switch t := p.peekU(); t {
	case "=", "!=", "<>", "<", "<=", ">", ">=":
		p.next()
		r, err := p.addExpr()
		if err != nil {
			return nil, err
		}
		if t == "<>" {
			t = "!="
		}
		return &SQLExpr{op: t, args: []*SQLExpr{l, r}}, nil
	case "@>":
		p.next()
		r, err := p.addExpr()
		if err != nil {
			return nil, err
		}
		return &SQLExpr{op: "contains", args: []*SQLExpr{l, r}}, nil
	case "IS":
		p.next()
		neg := p.accept("NOT")
		if err := p.expect("NULL"); err != nil {
			return nil, err
		}
		if neg {
			return &SQLExpr{op: "notnull", args: []*SQLExpr{l}}, nil
		}
		return &SQLExpr{op: "isnull", args: []*SQLExpr{l}}, nil
	case "LIKE":
		p.next()
		r, err := p.addExpr()
		if err != nil {
			return nil, err
		}
		return &SQLExpr{op: "like", args: []*SQLExpr{l, r}}, nil
	case "IN":
		p.next()
		if err := p.expect("("); err != nil {
			return nil, err
		}
		e := &SQLExpr{op: "in", args: []*SQLExpr{l}}
		for {
			n, err := strconv.ParseInt(p.next(), 10, 64)
			if err != nil {
				return nil, fmt.Errorf("IN list supports integer literals only")
			}
			e.list = append(e.list, n)
			if !p.accept(",") {
				break
			}
		}
		return e, p.expect(")")
	}
	return l, nil
}

func (p *sqlParser) addExpr() (*SQLExpr, error) {
	l, err := p.primary()
	if err != nil {
		return nil, err
	}
	for {
		t := p.peek()
		if t == "+" || t == "-" || t == "&" || t == "|" {
			p.next()
			r, err := p.primary()
			if err != nil {
				return nil, err
			}
			l = &SQLExpr{op: t, args: []*SQLExpr{l, r}}
			continue
		}
		return l, nil
	}
}

func (p *sqlParser) primary() (*SQLExpr, error) {
	t := p.next()
	var e *SQLExpr
	switch {
	case t == "?":
		e = &SQLExpr{op: "param", param: p.nparam}
		p.nparam++
	case strings.HasPrefix(t, "$"):
		n, err := strconv.Atoi(t[1:])
		if err != nil || n < 1 {
			return nil, fmt.Errorf("bad parameter %q", t)
		}
		e = &SQLExpr{op: "param", param: n - 1}
		if n > p.nparam {
			p.nparam = n
		}
	case t == "(":
		in, err := p.expr()
		if err != nil {
			return nil, err
		}
		if err := p.expect(")"); err != nil {
			return nil, err
		}
		e = in
	case t != "" && t[0] >= '0' && t[0] <= '9':
		n, err := strconv.ParseInt(t, 10, 64)
		if err != nil {
			return nil, err
		}
		e = &SQLExpr{op: "int", num: n}
	case t != "" && t[0] == '\'':
		e = &SQLExpr{op: "str", name: t[1 : len(t)-1]}
	case strings.ToUpper(t) == "NULL":
		e = &SQLExpr{op: "null"}
	case strings.ToLower(t) == "json_extract":
		if err := p.expect("("); err != nil {
			return nil, err
		}
		c, err := p.primary()
		if err != nil {
			return nil, err
		}
		if err := p.expect(","); err != nil {
			return nil, err
		}
		k, err := p.primary()
		if err != nil {
			return nil, err
		}
		if err := p.expect(")"); err != nil {
			return nil, err
		}
		e = &SQLExpr{op: "jsonextract", args: []*SQLExpr{c, k}}
	case isIdent(t):
		name := strings.ToLower(t)
		if p.peek() == "(" {
			// scalar two-or-more-argument extremum functions (integers): SQLite MIN/MAX (NULL if any argument
			// is NULL), Postgres LEAST/GREATEST (NULL arguments ignored)
			up := strings.ToUpper(t)
			if up == "MIN" || up == "MAX" || up == "LEAST" || up == "GREATEST" {
				p.accept("(")
				var args []*SQLExpr
				for {
					a, err := p.expr()
					if err != nil {
						return nil, err
					}
					args = append(args, a)
					if !p.accept(",") {
						break
					}
				}
				if err := p.expect(")"); err != nil {
					return nil, err
				}
				if len(args) < 2 {
					return nil, fmt.Errorf("aggregate %s is outside the supported SQL subset", t)
				}
				return &SQLExpr{op: "extremum", name: up, args: args}, nil
			}
			return nil, fmt.Errorf("unsupported SQL function %s", t)
		}
		if p.accept(".") {
			c, err := p.ident()
			if err != nil {
				return nil, err
			}
			e = &SQLExpr{op: "col", table: name, name: c}
		} else {
			e = &SQLExpr{op: "col", name: name}
		}
	default:
		return nil, fmt.Errorf("unexpected SQL token %q in %q", t, strings.TrimSpace(p.text))
	}
	for p.accept("::") {
		ty, err := p.ident()
		if err != nil {
			return nil, err
		}
		e = &SQLExpr{op: "cast", name: ty, args: []*SQLExpr{e}}
	}
	return e, nil
}

func isIdentLike(s string) bool {
	for i, r := range s {
		if !(r == '_' || (r >= 'A' && r <= 'Z') || (r >= 'a' && r <= 'z') || (i > 0 && r >= '0' && r <= '9')) {
			return false
		}
	}
	return s != ""
}
