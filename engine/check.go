package main

// `gosmt check <ID> --tier quick|thorough`: run the harness set of one property,
// write /verif/evidence/<ID>.json, print VIOLATION / KNOWN-FINDING / INCONCLUSIVE lines.

import (
	"bufio"
	"encoding/json"
	"flag"
	"fmt"
	"os"
	"path/filepath"
	"runtime"
	"sort"
	"strconv"
	"strings"
	"time"
)

type PropertySpec struct {
	Level       string         `json:"level"`
	Explanation string         `json:"explanation"`
	Assumptions []string       `json:"assumptions"`
	Outside     []string       `json:"outside"`
	Harnesses   []*HarnessSpec `json:"harnesses"`
}

type knownFinding struct {
	property, harness, label, match, text string
}

func loadKnown(path string) ([]knownFinding, error) {
	f, err := os.Open(path)
	if err != nil {
		if os.IsNotExist(err) {
			return nil, nil
		}
		return nil, err
	}
	defer f.Close()
	var out []knownFinding
	sc := bufio.NewScanner(f)
	for sc.Scan() {
		line := strings.TrimSpace(sc.Text())
		if !strings.HasPrefix(line, "known:") {
			continue
		}
		head, text, _ := strings.Cut(strings.TrimPrefix(line, "known:"), "::")
		k := knownFinding{text: strings.TrimSpace(text)}
		// fields: property= harness= label= match="..."
		rest := strings.TrimSpace(head)
		for rest != "" {
			rest = strings.TrimSpace(rest)
			i := strings.IndexByte(rest, '=')
			if i < 0 {
				break
			}
			key := rest[:i]
			rest = rest[i+1:]
			var val string
			if strings.HasPrefix(rest, "\"") {
				j := strings.Index(rest[1:], "\"")
				if j < 0 {
					break
				}
				val = rest[1 : 1+j]
				rest = rest[j+2:]
			} else {
				j := strings.IndexByte(rest, ' ')
				if j < 0 {
					val, rest = rest, ""
				} else {
					val, rest = rest[:j], rest[j+1:]
				}
			}
			switch key {
			case "property":
				k.property = val
			case "harness":
				k.harness = val
			case "label":
				k.label = val
			case "match":
				k.match = val
			}
		}
		out = append(out, k)
	}
	return out, sc.Err()
}

func (k *knownFinding) matches(prop string, v *Violation) bool {
	if k.property != prop {
		return false
	}
	if k.harness != "" && k.harness != v.Harness {
		return false
	}
	if k.label != "" && k.label != v.Label {
		return false
	}
	if k.match != "" && !strings.Contains(v.Msg+" @"+v.Pos+" "+strings.Join(v.Trace, ","), k.match) {
		return false
	}
	return true
}

func cmdCheck(args []string) {
	fs := flag.NewFlagSet("check", flag.ExitOnError)
	tier := fs.String("tier", "", "quick|thorough")
	repo := fs.String("repo", "/repo", "repository")
	vdir := fs.String("verif", "/verif", "verif directory")
	workers := fs.Int("j", runtime.NumCPU(), "workers")
	only := fs.String("only", "", "run only harnesses whose name contains this")
	evPath := fs.String("evidence", "", "evidence file (default <verif>/evidence/<ID>.json)")
	replay := fs.String("replay", "", "replay a recorded counterexample file")
	verbose := fs.Bool("v", false, "verbose")
	var pid string
	if len(args) > 0 && !strings.HasPrefix(args[0], "-") {
		pid = args[0]
		args = args[1:]
	}
	fs.Parse(args)
	if pid == "" && fs.NArg() > 0 {
		pid = fs.Arg(0)
	}
	if *tier == "" {
		*tier = os.Getenv("VERIF_TIER")
	}
	if v := os.Getenv("VX_CROSS"); v != "" {
		crossEvery, _ = strconv.Atoi(v)
	} else if *tier == "thorough" {
		crossEvery = 3
	} else {
		crossEvery = 10
	}
	if *tier != "thorough" {
		*tier = "quick"
	}
	seed, _ := strconv.Atoi(os.Getenv("VERIF_SEED"))
	t0 := time.Now()
	fail := func(code int, f string, a ...interface{}) {
		fmt.Printf(f+"\n", a...)
		os.Exit(code)
	}
	regb, err := os.ReadFile(filepath.Join(*vdir, "harness", "registry.json"))
	if err != nil {
		fail(2, "INCONCLUSIVE property=%s registry: %v", pid, err)
	}
	reg := map[string]*PropertySpec{}
	if err := json.Unmarshal(regb, &reg); err != nil {
		fail(2, "INCONCLUSIVE property=%s registry: %v", pid, err)
	}
	ps, ok := reg[pid]
	if !ok {
		fail(2, "INCONCLUSIVE property=%s not in registry", pid)
	}
	known, err := loadKnown(filepath.Join(*vdir, "known_findings.txt"))
	if err != nil {
		fail(2, "INCONCLUSIVE property=%s known findings: %v", pid, err)
	}
	P, err := LoadProgram(*repo, filepath.Join(*vdir, "harness"), loadPatterns)
	if err != nil {
		fail(2, "INCONCLUSIVE property=%s cannot load /repo with harness overlays: %v", pid, err)
	}
	loadS := time.Since(t0).Seconds()
	if *replay != "" {
		os.Exit(doReplay(P, ps, pid, *replay, *tier))
	}

	// translator self-test: the repository's own 55 store cases through the encoding of both backends
	validated := 0
	var selftestProblems []string
	for backend := 0; backend <= 1; backend++ {
		st := &HarnessSpec{Name: "VH_Selftest", Pkg: "internal/app/subsystems/aio/store/test", Opts: map[string]int{"backend": backend}}
		h := NewHarnessRun(P, st, *tier)
		err := h.Run(*workers)
		r := h.Result(err)
		if r.Err != "" || len(r.Violations) > 0 || len(r.Unsupported) > 0 || len(r.Unknowns) > 0 {
			for _, v := range r.Violations {
				selftestProblems = append(selftestProblems, fmt.Sprintf("self-test backend %d: %s %s", backend, v.Label, v.Msg))
			}
			selftestProblems = append(selftestProblems, r.Unsupported...)
			if r.Err != "" {
				selftestProblems = append(selftestProblems, r.Err)
			}
		} else {
			validated += r.Paths
		}
	}
	var results []*HarnessResult
	for _, hs := range ps.Harnesses {
		if hs.Tier == "thorough" && *tier != "thorough" {
			continue
		}
		if hs.Tier == "quick" && *tier == "thorough" {
			continue // a quick-tier variant the thorough options of its sibling already subsume
		}
		if *only != "" && !strings.Contains(hs.Name, *only) {
			continue
		}
		h := NewHarnessRun(P, hs, *tier)
		h.known, h.property = known, pid
		err := h.Run(*workers)
		r := h.Result(err)
		results = append(results, r)
		if *verbose {
			fmt.Fprintf(os.Stderr, "%-40s paths=%d obligations=%d/%d viol=%d unknown=%d unsupported=%d %.1fs\n", r.Name, r.Paths, r.Discharged, r.Obligations, len(r.Violations), len(r.Unknowns), len(r.Unsupported), r.WallS)
		}
	}

	// aggregate
	outDir := filepath.Join(*vdir, "out", "replays")
	os.MkdirAll(outDir, 0o755)
	exit := 0
	var lines []string
	nViol, nKnown := 0, 0
	paths, obl, dis, commits, cuts, decisions := 0, 0, 0, 0, 0, 0
	funcs, sqls, stubs, bounds := map[string]bool{}, map[string]bool{}, map[string]bool{}, map[string]bool{}
	var samples []interface{}
	var reached []string
	inconclusive := []string{}
	perHarness := []map[string]interface{}{}
	knownPrinted := map[string]bool{}
	for _, r := range results {
		paths += r.Paths
		obl += r.Obligations
		dis += r.Discharged
		commits += r.Commits
		decisions += r.Decisions
		cuts += r.Cuts
		for _, f := range r.Funcs {
			funcs[f] = true
		}
		for _, f := range r.SQL {
			sqls[f] = true
		}
		for _, f := range r.Stubs {
			stubs[f] = true
		}
		for _, f := range r.Bounds {
			bounds[f] = true
		}
		for l := range r.Reach {
			reached = append(reached, r.Name+":"+l)
		}
		for _, s := range r.Samples {
			if len(samples) < 12 {
				samples = append(samples, s)
			}
		}
		perHarness = append(perHarness, map[string]interface{}{"harness": r.Name, "paths": r.Paths, "obligations": r.Obligations, "discharged": r.Discharged, "violations": len(r.Violations), "wall_s": r.WallS})
		if r.Err != "" {
			inconclusive = append(inconclusive, r.Name+": "+r.Err)
		}
		for _, u := range r.Unknowns {
			inconclusive = append(inconclusive, r.Name+": solver unknown: "+u)
		}
		for _, u := range r.Unsupported {
			inconclusive = append(inconclusive, r.Name+": "+u)
		}
		for _, m := range r.MissingReach {
			inconclusive = append(inconclusive, r.Name+": vacuous: witness '"+m+"' not reached")
		}
		for i, v := range r.Violations {
			matched := false
			for _, k := range known {
				if k.matches(pid, v) {
					matched = true
					key := k.harness + "|" + k.label + "|" + k.match
					if !knownPrinted[key] {
						knownPrinted[key] = true
						lines = append(lines, fmt.Sprintf("KNOWN-FINDING: property=%s %s", pid, k.text))
					}
					break
				}
			}
			if matched {
				nKnown++
				continue
			}
			nViol++
			rp := filepath.Join(outDir, fmt.Sprintf("%s_%s_%s_%d.json", pid, r.Name, lastSeg(r.Pkg), i))
			rb, _ := json.MarshalIndent(map[string]interface{}{"property": pid, "tier": *tier, "violation": v}, "", " ")
			os.WriteFile(rp, rb, 0o644)
			lines = append(lines, fmt.Sprintf("VIOLATION property=%s replay=%s   # %s/%s: %s @%s", pid, rp, v.Harness, v.Label, v.Msg, v.Pos))
			exit = 1
		}
	}
	sort.Strings(reached)
	if exit == 0 && len(inconclusive) > 0 {
		exit = 2
	}
	for _, m := range selftestProblems {
		inconclusive = append(inconclusive, "translator "+m)
	}
	if len(selftestProblems) > 0 && exit == 0 {
		exit = 2
	}
	if len(results) == 0 {
		inconclusive = append(inconclusive, "no harness ran")
		exit = 2
	}

	// evidence
	cov := map[string]interface{}{
		"states":                        paths,
		"transitions":                   commits + decisions,
		"store_transactions_committed":  commits,
		"symbolic_decisions":            decisions,
		"traces_validated_against_impl": validated,
		"translator_selftest":           "the repository's store suite (store/test/cases.go: concrete transactions with expected results) executed through the engine's encoding of the SQLite and the Postgres handlers; every result equals the expected one",
		"evaluations":                   int(gStats.Queries),
		"distinct_nontrivial":           obl,
		"rule":                          "one evaluation = one SMT query (feasibility, assertion, invariant, witness); states = symbolic paths explored (each keeps all data symbolic); transitions = store transactions committed on those paths + solver-decided branching decisions taken along them; distinct_nontrivial = assertion/invariant obligations (PC => cond) posed on feasible paths",
		"obligations":                   obl,
		"discharged":                    dis,
		"unknown":                       len(inconclusive),
		"subsumption_cuts":              cuts,
		"witnesses_reached":             reached,
		"functions_encoded":             setKeys(funcs),
		"sql_statements":                setKeys(sqls),
		"stubs":                         setKeys(stubs),
		"bound_assumptions_hit":         setKeys(bounds),
		"harnesses":                     perHarness,
		"samples":                       samples,
		"solver":                        map[string]interface{}{"primary": primarySolver, "fallback": []string{"z3", "z3-new"}, "queries": gStats.Queries, "sat": gStats.Sat, "unsat": gStats.Unsat, "unknown": gStats.Unknown, "time_s": float64(gStats.TimeNanos) / 1e9},
		"cross_solver":                  map[string]interface{}{"solver": crossSolver, "every_nth_unsat_obligation": crossEvery, "rechecked": gCross.Checked, "agree": gCross.Agree, "undecided_within_15s": gCross.Undecided, "disagree": gCross.Disagree},
		"load_s":                        loadS,
		"explanation":                   ps.Explanation,
		"exhaustive":                    false,
		"known_findings_matched":        nKnown,
		"inconclusive":                  inconclusive,
		"outside_the_claim":             ps.Outside,
	}
	if ps.Level == "translation_validation" {
		cov["programs"] = len(results)
		cov["disagreements_checked"] = obl
	}
	if len(samples) == 0 {
		cov["samples"] = []interface{}{map[string]interface{}{"note": "no completed path"}}
	}
	ev := map[string]interface{}{
		"property_id": pid, "tier": *tier, "seed": seed, "level": ps.Level, "coverage": cov,
		"assumptions": ps.Assumptions, "wall_s": time.Since(t0).Seconds(), "violations": nViol,
	}
	eb, _ := json.MarshalIndent(ev, "", " ")
	os.MkdirAll(filepath.Join(*vdir, "evidence"), 0o755)
	if *evPath == "" {
		*evPath = filepath.Join(*vdir, "evidence", pid+".json")
	}
	if err := os.WriteFile(*evPath, eb, 0o644); err != nil {
		fmt.Println("INCONCLUSIVE cannot write evidence:", err)
		exit = 2
	}
	for _, l := range lines {
		fmt.Println(l)
	}
	if exit == 2 {
		for _, m := range inconclusive {
			fmt.Printf("INCONCLUSIVE property=%s %s\n", pid, m)
		}
	}
	fmt.Printf("property=%s tier=%s harnesses=%d paths=%d obligations=%d discharged=%d violations=%d known=%d queries=%d solver_s=%.1f wall_s=%.1f exit=%d\n",
		pid, *tier, len(results), paths, obl, dis, nViol, nKnown, gStats.Queries, float64(gStats.TimeNanos)/1e9, time.Since(t0).Seconds(), exit)
	os.Exit(exit)
}

// doReplay re-executes the recorded path of a counterexample with every symbolic
// variable pinned to its model value and reports whether the violation reappears.
func doReplay(P *Program, ps *PropertySpec, pid, path, tier string) int {
	b, err := os.ReadFile(path)
	if err != nil {
		fmt.Println("INCONCLUSIVE replay:", err)
		return 2
	}
	var rf struct {
		Violation *Violation `json:"violation"`
	}
	if err := json.Unmarshal(b, &rf); err != nil || rf.Violation == nil {
		fmt.Println("INCONCLUSIVE replay: bad file")
		return 2
	}
	v := rf.Violation
	var spec *HarnessSpec
	for _, h := range ps.Harnesses {
		if h.Name == v.Harness && h.Pkg == v.Pkg {
			spec = h
			break
		}
	}
	if spec == nil {
		fmt.Println("INCONCLUSIVE replay: harness not registered:", v.Harness)
		return 2
	}
	h := NewHarnessRun(P, spec, tier)
	h.pins = v.Model
	h.replayPath = v.Decisions
	if h.replayPath == nil {
		h.replayPath = []int{}
	}
	err = h.Run(1)
	r := h.Result(err)
	for _, w := range r.Violations {
		if w.Label == v.Label {
			fmt.Printf("REPLAY property=%s harness=%s label=%s reproduced=true (recorded path re-executed with all %d model values pinned)\n", pid, v.Harness, v.Label, len(v.Model))
			fmt.Printf("VIOLATION property=%s replay=%s\n", pid, path)
			return 1
		}
	}
	fmt.Printf("REPLAY property=%s harness=%s label=%s reproduced=false (the tree no longer violates this obligation on the recorded path)\n", pid, v.Harness, v.Label)
	return 0
}
