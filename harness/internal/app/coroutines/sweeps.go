package coroutines

// C11: ranking lemmas. One fault-free instance of each background coroutine, run
// alone from an arbitrary database, reduces the number of overdue items of its
// class by at least min(batch, overdue); hence ceil(overdue/batch) instances suffice
// for every batch size >= 1.

import (
	"github.com/resonatehq/resonate/internal/kernel/system"
	"github.com/resonatehq/resonate/internal/vx"
)

func vhMin64(a, b int64) int64 { return vx.IteInt64(a < b, a, b) }

func VH_G_ProgressPromises() {
	c := vhSetup(vx.Sequential)
	cfg, _ := c.Get("config").(*system.Config)
	_, _ = TimeoutPromises(cfg, map[string]string{})(c)
	n := vx.NYields()
	s0, s1, t0 := vx.YieldPre(0), vx.YieldPost(n-1), vx.YieldTime(0)
	var mu, still int64
	for k := 0; k < vx.NSlots("promises"); k++ {
		a, b := vx.Slot(s0, "promises", k), vx.Slot(s1, "promises", k)
		od := vx.And(a.Present(), a.Int("state") == 1, a.Int("timeout") <= t0)
		mu += vhB2I(od)
		still += vhB2I(vx.And(od, b.Int("state") == 1))
	}
	vx.Assert(still <= mu-vhMin64(int64(cfg.PromiseBatchSize), mu), "C11:promise-sweep-makes-progress")
	vx.Reach("done")
}

func VH_G_ProgressLocks() {
	c := vhSetup(vx.Sequential)
	cfg, _ := c.Get("config").(*system.Config)
	_, _ = TimeoutLocks(cfg, map[string]string{})(c)
	s0, s1, t0 := vx.YieldPre(0), vx.YieldPost(vx.NYields()-1), vx.YieldTime(0)
	for k := 0; k < vx.NSlots("locks"); k++ {
		a, b := vx.Slot(s0, "locks", k), vx.Slot(s1, "locks", k)
		vx.Assert(vx.Implies(vx.And(a.Present(), a.Int("expires_at") <= t0), !b.Present()), "C11:no-lock-remains-past-its-lease")
	}
	vx.Reach("done")
}

func VH_G_ProgressTasks() {
	c := vhSetup(vx.Sequential)
	cfg, _ := c.Get("config").(*system.Config)
	_, _ = TimeoutTasks(cfg, map[string]string{})(c)
	s0, s1, t0 := vx.YieldPre(0), vx.YieldPost(vx.NYields()-1), vx.YieldTime(0)
	var mu, still int64
	for k := 0; k < vx.NSlots("tasks"); k++ {
		a, b := vx.Slot(s0, "tasks", k), vx.Slot(s1, "tasks", k)
		od := vx.And(a.Present(), vx.Or(a.Int("state") == 2, a.Int("state") == 4), vx.Or(a.Int("expires_at") <= t0, a.Int("timeout") <= t0))
		mu += vhB2I(od)
		still += vhB2I(vx.And(od, vx.Or(b.Int("state") == 2, b.Int("state") == 4)))
	}
	vx.Assert(still <= mu-vhMin64(int64(cfg.TaskBatchSize), mu), "C11:lease-sweep-makes-progress")
	vx.Reach("done")
}

func VH_G_ProgressSchedules() {
	c := vhSetup(vx.Sequential)
	cfg, _ := c.Get("config").(*system.Config)
	_, _ = SchedulePromises(cfg, map[string]string{})(c)
	n := vx.NYields()
	s0, s1, t0 := vx.YieldPre(0), vx.YieldPost(n-1), vx.YieldTime(0)
	// schedules with a satisfiable cron expression and a parsable id template
	var mu, advanced int64
	bad := false
	for k := 0; k < vx.NSlots("schedules"); k++ {
		a, b := vx.Slot(s0, "schedules", k), vx.Slot(s1, "schedules", k)
		od := vx.And(a.Present(), a.Int("next_run_time") <= t0)
		bad = vx.Or(bad, vx.And(od, vx.Not(vx.CronValid(a.Str("cron")))))
		mu += vhB2I(od)
		advanced += vhB2I(vx.And(od, b.Present(), b.Int("next_run_time") > a.Int("next_run_time")))
	}
	if vx.Opt("templates-ok", 1) == 1 && vx.TemplateTrouble() {
		return
	}
	for i := 0; i < n; i++ {
		if vx.YieldKind(i) == "router" && vx.YieldOutcome(i) == "error" {
			return // the lemma is about fault-free instances; a router failure delays the schedule by a cycle
		}
	}
	vx.Assert(vx.Or(bad, advanced >= vhMin64(int64(cfg.ScheduleBatchSize), mu)), "C11:schedule-sweep-makes-progress")
	vx.Reach("done")
}

func VH_G_ProgressEnqueue() {
	c := vhSetup(vx.Sequential)
	cfg, _ := c.Get("config").(*system.Config)
	_, _ = EnqueueTasks(cfg, map[string]string{})(c)
	n := vx.NYields()
	for i := 0; i < n; i++ {
		if vx.YieldKind(i) == "sender" && vx.YieldOutcome(i) != "success" {
			return // the lemma is about cycles whose hand-offs succeed
		}
	}
	s0, s1 := vx.YieldPre(0), vx.YieldPost(n-1)
	// dispatchable roots before / roots that still have only undispatched Init tasks after
	var mu, done int64
	for k := 0; k < vx.NSlots("tasks"); k++ {
		a, b := vx.Slot(s0, "tasks", k), vx.Slot(s1, "tasks", k)
		disp := vx.And(a.Present(), a.Int("state") == 1)
		first := true
		for j := 0; j < vx.NSlots("tasks"); j++ {
			o := vx.Slot(s0, "tasks", j)
			same := vx.And(o.Present(), o.Str("root_promise_id") == a.Str("root_promise_id"))
			disp = vx.And(disp, vx.Not(vx.And(same, vx.Or(o.Int("state") == 2, o.Int("state") == 4))))
			if j < k {
				first = vx.And(first, vx.Not(vx.And(same, o.Int("state") == 1)))
			}
		}
		mu += vhB2I(vx.And(disp, first))
		done += vhB2I(vx.And(a.Present(), a.Int("state") == 1, b.Int("state") != 1))
	}
	vx.Assert(done >= vhMin64(int64(cfg.TaskBatchSize), mu), "C11:dispatch-makes-progress")
	vx.Reach("done")
}

// VH_G_Registered (C11): the progress lemmas above are about five coroutine constructors; this is the wiring
// that makes them the server's behaviour: the real registration block of cmd/serve (read from its SSA, like the
// request table the kernel double dispatches through) adds each of the five as a background coroutine exactly once.
func VH_G_Registered() {
	vx.Assert(vx.ServeRegistersBackground(TimeoutPromises) == 1, "C11:serve-registers-the-promise-timeout-sweep")
	vx.Assert(vx.ServeRegistersBackground(SchedulePromises) == 1, "C11:serve-registers-the-schedule-sweep")
	vx.Assert(vx.ServeRegistersBackground(TimeoutLocks) == 1, "C11:serve-registers-the-lock-sweep")
	vx.Assert(vx.ServeRegistersBackground(EnqueueTasks) == 1, "C11:serve-registers-the-dispatch-cycle")
	vx.Assert(vx.ServeRegistersBackground(TimeoutTasks) == 1, "C11:serve-registers-the-task-lease-sweep")
	// and the default configuration lets each of them do something: a sweep reads at most its batch size of rows
	for _, f := range []string{"PromiseBatchSize", "ScheduleBatchSize", "TaskBatchSize", "CoroutineMaxSize", "SubmissionBatchSize", "CompletionBatchSize"} {
		vx.Assert(vx.Atoi(vx.FieldTag((*system.Config)(nil), f, "default")) >= 1, "C11:default-"+f+"-is-positive")
	}
	vx.Reach("done")
}
