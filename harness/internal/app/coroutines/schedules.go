package coroutines

// C10: schedules fire every occurrence once, in order, atomically.

import (
	"github.com/resonatehq/resonate/internal/kernel/system"
	"github.com/resonatehq/resonate/internal/kernel/t_api"
	"github.com/resonatehq/resonate/internal/vx"
	"github.com/resonatehq/resonate/pkg/idempotency"
	"github.com/resonatehq/resonate/pkg/promise"
)

func VH_S_Fire() {
	c := vhSetup(vx.HavocMode | vx.Faults(vx.Opt("faults", 1)))
	cfg, _ := c.Get("config").(*system.Config)
	_, err := SchedulePromises(cfg, map[string]string{})(c)
	vx.Assert(err == nil, "C11:sweep-returns")
	if vx.NYields() < 1 || vx.YieldFault(0) != "" {
		return
	}
	t0 := vx.YieldTime(0)
	for i := 1; i < vx.NYields(); i++ {
		if vx.YieldKind(i) != "store" || vx.YieldFault(i) == "before" {
			continue
		}
		vx.Reach("firing-transaction")
		pre, post := vx.YieldPre(i), vx.YieldPost(i)
		var advanced int64
		for k := 0; k < vx.NSlots("schedules"); k++ {
			a, b := vx.Slot(pre, "schedules", k), vx.Slot(post, "schedules", k)
			changed := vx.Not(vx.SameRow(a, b))
			advanced += vhB2I(changed)
			occ := a.Int("next_run_time")
			vx.Assert(vx.Implies(changed, vx.And(a.Present(), b.Present(), occ <= t0)), "C10:never-fires-before-the-occurrence")
			vx.Assert(vx.Implies(changed, vx.And(b.Int("last_run_time") == occ, !b.Null("last_run_time"), b.Int("next_run_time") == vx.CronNext(occ, a.Str("cron")),
				b.Int("next_run_time") > occ)), "C10:advances-by-exactly-one-occurrence")
			vx.Assert(vx.Implies(changed, vx.And(b.Str("id") == a.Str("id"), b.Str("cron") == a.Str("cron"), b.Str("promise_id") == a.Str("promise_id"),
				b.Int("promise_timeout") == a.Int("promise_timeout"), b.Int("sort_id") == a.Int("sort_id"), b.Int("created_on") == a.Int("created_on"))), "C10:configuration-kept")
			// the occurrence's promise exists in the very state in which the schedule has advanced
			pid := vx.TmplExpand(a.Str("promise_id"), a.Str("id"), vx.Itoa(occ))
			p0, p1 := vx.Lookup(pre, "promises", pid), vx.Lookup(post, "promises", pid)
			vx.Assert(vx.Implies(changed, p1.Present()), "C10:promise-created-in-the-same-step")
			// and conversely: the transaction that creates this occurrence's promise (it names the schedule in its
			// tags) is the one that advances the schedule, otherwise the occurrence would be found due again
			mine := vx.And(vx.MapHas(p1.Map("tags"), "resonate:schedule"), vx.MapGet(p1.Map("tags"), "resonate:schedule") == a.Str("id"))
			r0 := vx.Lookup(vx.YieldPost(0), "schedules", a.Str("id")) // the row as the sweep read it
			same := vx.And(r0.Present(), r0.Int("next_run_time") == occ)
			vx.Assert(vx.Implies(vx.And(a.Present(), same, occ <= t0, !p0.Present(), p1.Present(), mine), changed), "C10:schedule-advanced-with-its-promise")
			want := a.Map("promise_tags")
			want["resonate:schedule"] = a.Str("id")
			want["resonate:invocation"] = "true"
			vx.Assert(vx.Implies(vx.And(changed, !p0.Present()), vx.And(p1.Int("state") == 1, p1.Int("timeout") == a.Int("promise_timeout")+occ,
				vx.BytesEq(p1.Bytes("param_data"), a.Bytes("promise_param_data")), vx.MapEq(p1.Map("param_headers"), a.Map("promise_param_headers")),
				vx.MapEq(p1.Map("tags"), want), p1.Int("created_on") >= t0, p1.Int("created_on") <= vx.YieldTime(i))), "C10:promise-as-configured")
		}
		vx.Assert(advanced <= 1, "C10:one-schedule-per-transaction")
		// existing promises are never modified by a firing
		for k := 0; k < vx.NSlots("promises"); k++ {
			a, b := vx.Slot(pre, "promises", k), vx.Slot(post, "promises", k)
			vx.Assert(vx.Implies(a.Present(), vx.SameRow(a, b)), "C10:existing-promise-untouched")
		}
	}
}

func VH_S_Create() {
	c := vhSetup(vx.HavocMode | vx.Faults(vx.Opt("faults", 1)))
	req := &t_api.CreateScheduleRequest{Id: vx.String("id"), Description: vx.String("desc"), Cron: vx.String("cron"), Tags: vx.Tags("tags", 1),
		PromiseId: vx.String("promiseId"), PromiseTimeout: vx.Int64("promiseTimeout"), PromiseParam: promise.Value{Headers: vx.Tags("phdr", 1), Data: vx.Bytes("pdata")},
		PromiseTags: vx.Tags("ptags", 1), IdempotencyKey: (*idempotency.Key)(vx.StringPtr("ikey"))}
	res, err := CreateSchedule(c, &t_api.Request{Kind: t_api.CreateSchedule, Tags: map[string]string{}, CreateSchedule: req})
	if err != nil {
		vx.Reach("error")
		return
	}
	st, s := res.CreateSchedule.Status, res.CreateSchedule.Schedule
	if st == t_api.StatusCreated {
		vx.Reach("created")
		pre, post := vx.Lookup(vx.YieldPre(1), "schedules", req.Id), vx.Lookup(vx.YieldPost(1), "schedules", req.Id)
		t := vx.YieldTime(1)
		vx.Assert(!pre.Present(), "C10:created-only-if-absent")
		vx.Assert(vx.And(post.Present(), post.Int("created_on") == t, post.Int("next_run_time") == vx.CronNext(t, req.Cron), post.Int("next_run_time") > t, post.Null("last_run_time"),
			post.Str("cron") == req.Cron, post.Str("description") == req.Description, post.Str("promise_id") == req.PromiseId, post.Int("promise_timeout") == req.PromiseTimeout,
			vx.MapEq(post.Map("tags"), req.Tags), vx.MapEq(post.Map("promise_tags"), req.PromiseTags), vx.MapEq(post.Map("promise_param_headers"), req.PromiseParam.Headers),
			vx.BytesEq(post.Bytes("promise_param_data"), req.PromiseParam.Data),
			vhKeyIs(req.IdempotencyKey, post.Null("idempotency_key"), post.Str("idempotency_key"))), "C10:first-occurrence-after-creation")
		vx.Assert(vx.And(s.Id == req.Id, s.NextRunTime == post.Int("next_run_time"), s.CreatedOn == t, s.LastRunTime == nil, s.Cron == req.Cron), "C10:create-response")
		return
	}
	vx.Reach("exists")
	row := vx.Lookup(vx.YieldPost(0), "schedules", req.Id)
	ok := vhMatch(row.Null("idempotency_key"), row.Str("idempotency_key"), req.IdempotencyKey)
	vx.Assert(vx.And(row.Present(), int64(st) == vx.IteInt64(ok, int64(t_api.StatusOK), int64(t_api.StatusScheduleAlreadyExists))), "C10:recreate-idempotent-by-key")
	vx.Assert(vx.And(s.Id == req.Id, s.Cron == row.Str("cron"), s.NextRunTime == row.Int("next_run_time"), s.CreatedOn == row.Int("created_on"),
		vhI64Is(s.LastRunTime, row.Null("last_run_time"), row.Int("last_run_time")), s.PromiseId == row.Str("promise_id")), "C10:existing-schedule-returned")
	for i := 0; i < vx.NYields(); i++ {
		vx.Assert(vx.SameDB(vx.YieldPre(i), vx.YieldPost(i)), "C10:recreate-changes-nothing")
	}
}

func VH_S_Delete() {
	c := vhSetup(vx.HavocMode | vx.Faults(vx.Opt("faults", 1)))
	id := vx.String("id")
	res, err := DeleteSchedule(c, &t_api.Request{Kind: t_api.DeleteSchedule, Tags: map[string]string{}, DeleteSchedule: &t_api.DeleteScheduleRequest{Id: id}})
	if err != nil {
		vx.Reach("error")
		return
	}
	pre := vx.Lookup(vx.YieldPre(0), "schedules", id)
	st := res.DeleteSchedule.Status
	vx.Assert(vx.Iff(st == t_api.StatusNoContent, pre.Present()), "C10:delete-status")
	vx.Assert(vx.Iff(st == t_api.StatusScheduleNotFound, !pre.Present()), "C10:delete-notfound")
	vx.Reach("answered")
	for k := 0; k < vx.NSlots("schedules"); k++ {
		a, b := vx.Slot(vx.YieldPre(0), "schedules", k), vx.Slot(vx.YieldPost(0), "schedules", k)
		hit := vx.And(a.Present(), a.Str("id") == id)
		vx.Assert(vx.Implies(hit, !b.Present()), "C10:deleted")
		vx.Assert(vx.Implies(!hit, vx.SameRow(a, b)), "C10:other-schedules-untouched")
	}
}

// VH_S_Search (C14): one page of a schedule search and its cursor.
func VH_S_Search() {
	c := vhSetup(vx.HavocMode | vx.Faults(vx.Opt("faults", 0)))
	pat := vx.String("pattern")
	vx.Assume(pat != "")
	limit := vx.Int("limit")
	vx.Assume(vx.And(limit >= 1, limit <= 2))
	req := &t_api.SearchSchedulesRequest{Id: pat, Tags: vx.Tags("tags", 1), Limit: limit, SortId: vx.Int64Ptr("sortId")}
	res, err := SearchSchedules(c, &t_api.Request{Kind: t_api.SearchSchedules, Tags: map[string]string{}, SearchSchedules: req})
	if err != nil {
		vx.Reach("error")
		return
	}
	vx.Reach("page")
	r := res.SearchSchedules
	read := vx.YieldPost(0)
	for k := range r.Schedules {
		s := r.Schedules[k]
		row := vx.Lookup(read, "schedules", s.Id)
		vx.Assert(vx.And(row.Present(), s.Cron == row.Str("cron"), s.NextRunTime == row.Int("next_run_time"), s.CreatedOn == row.Int("created_on"), vx.MapEq(s.Tags, row.Map("tags"))), "C14:item-is-the-stored-schedule")
	}
	vx.Assert((r.Cursor != nil) == (len(r.Schedules) == limit), "C14:cursor-exactly-when-page-full")
	if r.Cursor != nil {
		vx.Reach("cursor")
		n := r.Cursor.Next
		last := r.Schedules[len(r.Schedules)-1]
		vx.Assert(vx.And(n.Id == pat, n.Limit == limit, n.SortId != nil, *n.SortId == vx.Lookup(read, "schedules", last.Id).Int("sort_id"), vx.MapEq(n.Tags, req.Tags)), "C14:cursor-continues-the-same-query")
	}
}

// VH_S_Lifecycle (C10 / C20): one server process, sequentially: a schedule is created, fires, is deleted,
// is re-created under the same id with a different configuration and fires again. Whatever the process keeps
// between requests (caches keyed by id, shared maps), the second firing's promise carries the second
// configuration only, and the first firing's promise the first.
func VH_S_Lifecycle() {
	c := vhSetup(vx.Sequential)
	cfg, _ := c.Get("config").(*system.Config)
	id, cron := vx.String("id"), vx.String("cron")
	tags1, tags2 := vx.Tags("ptags1", 1), vx.Tags("ptags2", 1)
	hdr1, hdr2 := vx.Tags("phdr1", 1), vx.Tags("phdr2", 1)
	tmpl1, tmpl2 := vx.String("template1"), vx.String("template2")
	mk := func(tags, hdr map[string]string, data []byte) *t_api.Request {
		tmpl := tmpl1
		if string(data) == "two" {
			tmpl = tmpl2
		}
		return &t_api.Request{Kind: t_api.CreateSchedule, Tags: map[string]string{}, CreateSchedule: &t_api.CreateScheduleRequest{Id: id, Cron: cron,
			Tags: map[string]string{}, PromiseId: tmpl, PromiseTimeout: 1000, PromiseParam: promise.Value{Headers: hdr, Data: data}, PromiseTags: tags}}
	}
	// fired: the promise row inserted by one sweep, with the schedule row (as read by that sweep) it was made for
	fired := func() (vx.Row, vx.Row, bool) {
		n0 := vx.NYields()
		_, _ = SchedulePromises(cfg, map[string]string{})(c)
		for i := n0 + 1; i < vx.NYields(); i++ {
			if vx.YieldKind(i) != "store" {
				continue
			}
			pre, post := vx.YieldPre(i), vx.YieldPost(i)
			for k := 0; k < vx.NSlots("promises"); k++ {
				a, b := vx.Slot(pre, "promises", k), vx.Slot(post, "promises", k)
				if !a.Present() && b.Present() {
					return b, vx.Lookup(pre, "schedules", id), true
				}
			}
		}
		return vx.Row{}, vx.Row{}, false
	}
	r1, err := CreateSchedule(c, mk(tags1, hdr1, []byte("one")))
	if err != nil || r1.CreateSchedule.Status != t_api.StatusCreated {
		return
	}
	p1, s1, ok1 := fired()
	if !ok1 {
		return
	}
	vx.Reach("first-firing")
	want1 := vhCopyMap(tags1)
	want1["resonate:schedule"] = id
	want1["resonate:invocation"] = "true"
	vx.Assert(vx.And(vx.MapEq(p1.Map("tags"), want1), vx.MapEq(p1.Map("param_headers"), hdr1), vx.BytesEq(p1.Bytes("param_data"), []byte("one"))), "C10:lifecycle-first-firing-as-configured")
	vx.Assert(vx.And(s1.Present(), p1.Str("id") == vx.TmplExpand(tmpl1, id, vx.Itoa(s1.Int("next_run_time")))), "C10:lifecycle-first-firing-id-from-its-own-template")
	d, err := DeleteSchedule(c, &t_api.Request{Kind: t_api.DeleteSchedule, Tags: map[string]string{}, DeleteSchedule: &t_api.DeleteScheduleRequest{Id: id}})
	if err != nil || d.DeleteSchedule.Status != t_api.StatusNoContent {
		return
	}
	r2, err := CreateSchedule(c, mk(tags2, hdr2, []byte("two")))
	if err != nil || r2.CreateSchedule.Status != t_api.StatusCreated {
		return
	}
	p2, s2, ok2 := fired()
	if !ok2 {
		return
	}
	vx.Reach("second-firing")
	want2 := vhCopyMap(tags2)
	want2["resonate:schedule"] = id
	want2["resonate:invocation"] = "true"
	vx.Assert(vx.And(vx.MapEq(p2.Map("tags"), want2), vx.MapEq(p2.Map("param_headers"), hdr2), vx.BytesEq(p2.Bytes("param_data"), []byte("two"))), "C10:lifecycle-recreated-schedule-fires-with-its-own-configuration")
	vx.Assert(vx.And(s2.Present(), p2.Str("id") == vx.TmplExpand(tmpl2, id, vx.Itoa(s2.Int("next_run_time")))), "C10:lifecycle-recreated-schedule-id-from-its-own-template")
}

func vhCopyMap(m map[string]string) map[string]string {
	out := map[string]string{}
	for k, v := range m {
		out[k] = v
	}
	return out
}
