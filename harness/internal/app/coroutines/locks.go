package coroutines

// C09: lock exclusivity and leases.

import (
	"github.com/resonatehq/resonate/internal/kernel/system"
	"github.com/resonatehq/resonate/internal/kernel/t_api"
	"github.com/resonatehq/resonate/internal/vx"
)

func VH_L_Acquire() {
	c := vhSetup(vx.HavocMode | vx.Faults(vx.Opt("faults", 1)))
	rid, eid, pid := vx.String("resourceId"), vx.String("executionId"), vx.String("processId")
	ttl := vx.Int64("ttl")
	vx.Assume(vx.And(ttl >= 0, ttl < 1<<62))
	res, err := AcquireLock(c, &t_api.Request{Kind: t_api.AcquireLock, Tags: map[string]string{}, AcquireLock: &t_api.AcquireLockRequest{ResourceId: rid, ExecutionId: eid, ProcessId: pid, Ttl: ttl}})
	if err != nil {
		vx.Reach("error")
		return
	}
	t := vx.YieldTime(0)
	pre, post := vx.Lookup(vx.YieldPre(0), "locks", rid), vx.Lookup(vx.YieldPost(0), "locks", rid)
	heldByOther := vx.And(pre.Present(), pre.Str("execution_id") != eid)
	st := res.AcquireLock.Status
	vx.Assert(vx.Iff(st == t_api.StatusLockAlreadyAcquired, heldByOther), "C09:acquire-refused-iff-held-by-other-execution")
	vx.Assert(vx.Iff(st == t_api.StatusCreated, !heldByOther), "C09:acquire-status")
	if st == t_api.StatusCreated {
		vx.Reach("acquired")
		vx.Assert(vx.And(post.Present(), post.Str("execution_id") == eid, post.Str("process_id") == pid, post.Int("ttl") == ttl, post.Int("expires_at") == t+ttl), "C09:acquire-effect")
		l := res.AcquireLock.Lock
		vx.Assert(vx.And(l.ResourceId == rid, l.ExecutionId == eid, l.ProcessId == pid, l.Ttl == ttl, l.ExpiresAt == t+ttl), "C09:acquire-response")
	} else {
		vx.Reach("refused")
		vx.Assert(vx.SameDB(vx.YieldPre(0), vx.YieldPost(0)), "C09:refused-acquire-has-no-effect")
	}
	for k := 0; k < vx.NSlots("locks"); k++ {
		a, b := vx.Slot(vx.YieldPre(0), "locks", k), vx.Slot(vx.YieldPost(0), "locks", k)
		vx.Assert(vx.Implies(vx.And(a.Present(), a.Str("resource_id") != rid), vx.SameRow(a, b)), "C09:other-locks-untouched")
		vx.Assert(vx.Implies(vx.And(a.Present(), a.Str("execution_id") != eid), vx.SameRow(a, b)), "C09:lock-of-other-execution-untouched")
	}
}

func VH_L_Release() {
	c := vhSetup(vx.HavocMode | vx.Faults(vx.Opt("faults", 1)))
	rid, eid := vx.String("resourceId"), vx.String("executionId")
	res, err := ReleaseLock(c, &t_api.Request{Kind: t_api.ReleaseLock, Tags: map[string]string{}, ReleaseLock: &t_api.ReleaseLockRequest{ResourceId: rid, ExecutionId: eid}})
	if err != nil {
		vx.Reach("error")
		return
	}
	pre := vx.Lookup(vx.YieldPre(0), "locks", rid)
	mine := vx.And(pre.Present(), pre.Str("execution_id") == eid)
	st := res.ReleaseLock.Status
	vx.Assert(vx.Iff(st == t_api.StatusNoContent, mine), "C09:release-status")
	vx.Assert(vx.Iff(st == t_api.StatusLockNotFound, !mine), "C09:release-notfound")
	if st == t_api.StatusNoContent {
		vx.Reach("released")
	} else {
		vx.Reach("notfound")
	}
	for k := 0; k < vx.NSlots("locks"); k++ {
		a, b := vx.Slot(vx.YieldPre(0), "locks", k), vx.Slot(vx.YieldPost(0), "locks", k)
		hit := vx.And(a.Present(), a.Str("resource_id") == rid, a.Str("execution_id") == eid)
		vx.Assert(vx.Implies(hit, !b.Present()), "C09:release-removes-own-lock")
		vx.Assert(vx.Implies(!hit, vx.SameRow(a, b)), "C09:release-by-other-execution-has-no-effect")
	}
}

func VH_L_Heartbeat() {
	c := vhSetup(vx.HavocMode | vx.Faults(vx.Opt("faults", 1)))
	pid := vx.String("processId")
	res, err := HeartbeatLocks(c, &t_api.Request{Kind: t_api.HeartbeatLocks, Tags: map[string]string{}, HeartbeatLocks: &t_api.HeartbeatLocksRequest{ProcessId: pid}})
	if err != nil {
		vx.Reach("error")
		return
	}
	vx.Reach("ok")
	t := vx.YieldTime(0)
	var n int64
	for k := 0; k < vx.NSlots("locks"); k++ {
		a, b := vx.Slot(vx.YieldPre(0), "locks", k), vx.Slot(vx.YieldPost(0), "locks", k)
		mine := vx.And(a.Present(), a.Str("process_id") == pid)
		n += vhB2I(mine)
		vx.Assert(vx.Implies(mine, vx.And(b.Present(), b.Int("expires_at") == t+a.Int("ttl"), b.Str("execution_id") == a.Str("execution_id"),
			b.Str("resource_id") == a.Str("resource_id"), b.Str("process_id") == pid, b.Int("ttl") == a.Int("ttl"))), "C09:heartbeat-extends-lease")
		vx.Assert(vx.Implies(!mine, vx.SameRow(a, b)), "C09:heartbeat-never-creates-or-transfers")
	}
	vx.Assert(vx.And(res.HeartbeatLocks.Status == t_api.StatusOK, res.HeartbeatLocks.LocksAffected == n), "C09:heartbeat-count")
}

func VH_L_TimeoutSweep() {
	c := vhSetup(vx.HavocMode | vx.Faults(vx.Opt("faults", 1)))
	cfg, _ := c.Get("config").(*system.Config)
	_, err := TimeoutLocks(cfg, map[string]string{})(c)
	vx.Assert(err == nil, "C11:sweep-returns")
	if vx.NYields() < 1 || vx.YieldFault(0) == "before" {
		return
	}
	vx.Reach("swept")
	t := vx.YieldTime(0)
	for k := 0; k < vx.NSlots("locks"); k++ {
		a, b := vx.Slot(vx.YieldPre(0), "locks", k), vx.Slot(vx.YieldPost(0), "locks", k)
		expired := vx.And(a.Present(), a.Int("expires_at") <= t)
		vx.Assert(vx.Implies(expired, !b.Present()), "C11:expired-lock-removed")
		vx.Assert(vx.Implies(!expired, vx.SameRow(a, b)), "C09:lock-kept-until-lease-ran-out")
	}
}
