package grpc

// C15 / C13 (gRPC wiring): the real constructor registers all six services - promises, callbacks, subscriptions,
// schedules, locks, tasks - on the server it returns, each implemented by one handler object that talks to the
// kernel (an unregistered service answers every call of that family with Unimplemented, which is neither the
// kernel's outcome nor what the HTTP front end answers).

import (
	"strings"

	"github.com/resonatehq/resonate/internal/vx"
)

func VH_G_New() {
	k := &vhKernel{}
	sub, err := New(k, &Config{Addr: ":0"})
	g, _ := sub.(*Grpc)
	vx.Assert(err == nil && g != nil && g.server != nil && g.listen != nil, "C15:grpc-front-end-constructs")
	lc := "," + vx.Lifecycle() + ","
	for _, svc := range []string{"promise.Promises", "callback.Callbacks", "subscription.Subscriptions", "schedule.Schedules", "lock.Locks", "task.Tasks"} {
		vx.Assert(strings.Count(lc, ",grpc.RegisterService:"+svc+",") == 1, "C15:grpc-service-registered-once:"+svc)
	}
	wired := 0
	for i := 0; i < strings.Count(lc, "grpc.RegisterService:"); i++ {
		if s, _ := vx.GrpcRegisteredImpl(i).(*server); s != nil && s.api != nil {
			wired++
		}
	}
	vx.Assert(wired >= 6, "C15:grpc-services-implemented-by-handlers-wired-to-the-kernel")
	vx.Reach("done")
}
