package config

// C08 / C11 / C19 (wiring): the subsystems the server command hands to the kernel. The proofs about routing,
// dispatch and storage are about the router, sender and store subsystems; this is the step that makes them part
// of the running server: the real Config.AIOSubsystems, for every combination of enable flags, instantiates
// exactly the enabled ones (one each), always exactly one store - Postgres when enabled, otherwise SQLite -
// and fails only when no store is enabled; routing, sending and the SQLite store are enabled by default.

import (
	"github.com/prometheus/client_golang/prometheus"
	kaio "github.com/resonatehq/resonate/internal/kernel/t_aio"
	"github.com/resonatehq/resonate/internal/metrics"
	"github.com/resonatehq/resonate/internal/vx"
)

func VH_CFG_AIOSubsystems() {
	c := &Config{}
	s := &c.AIO.Subsystems
	s.Echo.Enabled, s.Router.Enabled, s.Sender.Enabled = vx.Choose(2) == 1, vx.Choose(2) == 1, vx.Choose(2) == 1
	s.StorePostgres.Enabled, s.StoreSqlite.Enabled = vx.Choose(2) == 1, vx.Choose(2) == 1
	s.Echo.Config.Size, s.Echo.Config.BatchSize, s.Echo.Config.Workers = 1, 1, 1
	s.Router.Config.Size, s.Router.Config.Workers = 1, 1
	s.Sender.Config.Size = 1
	s.StoreSqlite.Config.Size, s.StoreSqlite.Config.BatchSize, s.StoreSqlite.Config.Path = 1, 1, "resonate.db"
	s.StorePostgres.Config.Size, s.StorePostgres.Config.BatchSize, s.StorePostgres.Config.Workers = 1, 1, 1
	subs, err := c.AIOSubsystems(nil, metrics.New(prometheus.NewRegistry()))
	if !s.StorePostgres.Enabled && !s.StoreSqlite.Enabled {
		vx.Reach("no-store")
		vx.Assert(err != nil, "C06:no-store-enabled-is-a-configuration-error")
		return
	}
	vx.Assert(err == nil, "C11:enabled-subsystems-instantiate")
	if err != nil {
		return
	}
	n := map[kaio.Kind]int{}
	for _, sub := range subs {
		n[sub.Kind()]++
	}
	vx.Assert(n[kaio.Store] == 1, "C06:exactly-one-store")
	vx.Assert(n[kaio.Router] == vhB(s.Router.Enabled), "C08:router-subsystem-present-iff-enabled")
	vx.Assert(n[kaio.Sender] == vhB(s.Sender.Enabled), "C08:sender-subsystem-present-iff-enabled")
	vx.Assert(n[kaio.Echo] == vhB(s.Echo.Enabled), "C12:echo-subsystem-present-iff-enabled")
	for _, sub := range subs {
		if sub.Kind() == kaio.Store {
			vx.Assert((sub.String() == "store:postgres") == s.StorePostgres.Enabled, "C06:postgres-store-iff-enabled-else-sqlite")
		}
	}
	vx.Assert(vx.FieldTag((*EnabledSubsystem[int])(nil), "Enabled", "default") == "true" && vx.FieldTag((*DisabledSubsystem[int])(nil), "Enabled", "default") == "false", "C11:enabled-means-enabled-by-default")
	vx.Reach("done")
}

func vhB(b bool) int {
	if b {
		return 1
	}
	return 0
}

// C13 / C15 (wiring): the front ends the server command hands to the kernel API: the real Config.APISubsystems
// instantiates exactly the enabled front ends, each under its own kind (the kind "http" is the one whose address
// the server advertises in the links it hands out), on the configured address; both are enabled by default.
func VH_CFG_APISubsystems() {
	vx.IgnoreGo()
	c := &Config{}
	s := &c.API.Subsystems
	s.Http.Enabled, s.Grpc.Enabled = vx.Choose(2) == 1, vx.Choose(2) == 1
	s.Http.Config.Addr, s.Grpc.Config.Addr = ":0", ":0"
	s.Http.Config.Timeout = 10000000000
	subs, err := c.APISubsystems(nil)
	vx.Assert(err == nil, "C15:enabled-front-ends-instantiate")
	if err != nil {
		return
	}
	n := map[string]int{}
	for _, sub := range subs {
		n[sub.Kind()]++
	}
	vx.Assert(len(subs) == vhB(s.Http.Enabled)+vhB(s.Grpc.Enabled), "C15:exactly-the-enabled-front-ends")
	vx.Assert(n["http"] == vhB(s.Http.Enabled), "C15:http-front-end-present-iff-enabled")
	vx.Assert(n["grpc"] == vhB(s.Grpc.Enabled), "C15:grpc-front-end-present-iff-enabled")
	vx.Reach("done")
}
