package aio

// C12 / C11 / C06 wiring of the kernel AIO: Start starts every registered subsystem exactly once and reports the
// first failure, Flush reaches every subsystem with the tick's time, Stop stops every subsystem and closes the
// completion queue, a subsystem is registered under its own kind (the kind is what submissions are routed by).

import (
	"errors"

	"github.com/prometheus/client_golang/prometheus"
	"github.com/resonatehq/resonate/internal/kernel/bus"
	"github.com/resonatehq/resonate/internal/kernel/t_aio"
	"github.com/resonatehq/resonate/internal/metrics"
	"github.com/resonatehq/resonate/internal/vx"
)

type vhLife struct {
	kind                      t_aio.Kind
	started, stopped, flushed int
	flushedAt                 int64
	failStart, failStop       bool
	errs                      chan<- error
	got                       int
}

func (s *vhLife) String() string   { return "vh" }
func (s *vhLife) Kind() t_aio.Kind { return s.kind }
func (s *vhLife) Start(e chan<- error) error {
	s.started++
	s.errs = e
	if s.failStart {
		return errors.New("start failed")
	}
	return nil
}
func (s *vhLife) Stop() error {
	s.stopped++
	if s.failStop {
		return errors.New("stop failed")
	}
	return nil
}
func (s *vhLife) Flush(t int64) { s.flushed++; s.flushedAt = t }
func (s *vhLife) Enqueue(sqe *bus.SQE[t_aio.Submission, t_aio.Completion]) bool {
	s.got++
	return true
}

func VH_W_AioLifecycle() {
	a := New(1, metrics.New(prometheus.NewRegistry()))
	kinds := []t_aio.Kind{t_aio.Echo, t_aio.Router, t_aio.Sender, t_aio.Store}
	subs := make([]*vhLife, len(kinds))
	for i, k := range kinds {
		subs[i] = &vhLife{kind: k}
		a.AddSubsystem(subs[i])
	}
	// a submission reaches the subsystem of its kind and no other
	for i, k := range kinds {
		a.EnqueueSQE(&bus.SQE[t_aio.Submission, t_aio.Completion]{Id: "x", Submission: &t_aio.Submission{Kind: k, Tags: map[string]string{"id": "x"}},
			Callback: func(*t_aio.Completion, error) {}})
		for j := range subs {
			want := 0
			if j <= i {
				want = 1
			}
			vx.Assert(subs[j].got == want, "C12:submission-routed-to-the-subsystem-of-its-kind")
		}
	}
	failing := vx.Choose(len(kinds) + 1) // index of the subsystem whose start fails; len = none
	if failing < len(kinds) {
		subs[failing].failStart = true
	}
	err := a.Start()
	if failing == len(kinds) {
		vx.Reach("started")
		vx.Assert(err == nil, "C12:aio-start-succeeds-when-every-subsystem-starts")
		var errs chan<- error = a.errors
		for _, s := range subs {
			vx.Assert(s.started == 1, "C12:every-subsystem-started-exactly-once")
			vx.Assert(s.errs == errs, "C12:subsystems-report-failures-on-the-aio-error-channel")
		}
	} else {
		vx.Reach("start-failed")
		vx.Assert(err != nil, "C12:a-subsystem-that-cannot-start-fails-the-start")
		for _, s := range subs {
			vx.Assert(s.started <= 1, "C12:every-subsystem-started-exactly-once")
		}
		return
	}
	t := vx.Int64("t")
	a.Flush(t)
	for _, s := range subs {
		vx.Assert(s.flushed == 1 && s.flushedAt == t, "C12:flush-reaches-every-subsystem-with-the-tick-time")
	}
	failStop := vx.Choose(len(kinds) + 1)
	if failStop < len(kinds) {
		subs[failStop].failStop = true
	}
	err = a.Stop()
	vx.Assert(vx.ChanClosed(a.cq), "C12:stop-closes-the-completion-queue")
	if failStop == len(kinds) {
		vx.Reach("stopped")
		vx.Assert(err == nil, "C06:aio-stop-succeeds-when-every-subsystem-stops")
		for _, s := range subs {
			vx.Assert(s.stopped == 1, "C06:every-subsystem-stopped-exactly-once")
		}
	} else {
		vx.Assert(err != nil, "C06:a-subsystem-that-cannot-stop-fails-the-stop")
	}
}
