package coroutines

// C12 (d): every request coroutine, on every path, under store/router/sender failures,
// returns exactly one of (response, error), the error is a *t_api.Error, the response
// carries the request's kind and a readable status, and no path panics.

import (
	"github.com/resonatehq/resonate/internal/kernel/bus"
	"github.com/resonatehq/resonate/internal/kernel/t_api"
	"github.com/resonatehq/resonate/internal/vx"
	"github.com/resonatehq/resonate/pkg/idempotency"
	"github.com/resonatehq/resonate/pkg/promise"
)

func vhC12Check(kind t_api.Kind, res *t_api.Response, err error) {
	vx.Assert((res != nil) != (err != nil), "C12:exactly-one-of-response-and-error")
	if err != nil {
		vx.Reach("error")
		_, ok := err.(*t_api.Error)
		vx.Assert(ok, "C12:error-is-a-kernel-error")
		return
	}
	vx.Reach("response")
	vx.Assert(res.Kind == kind, "C12:response-kind")
	st := res.Status() // panics on a response whose kind-specific part is missing
	vx.Assert(st >= 200, "C12:status-set")
}

// vhKernelRun: the request travels the real kernel path (api queue -> System.Tick -> AddOnRequest wrapper ->
// the coroutine cmd/serve registers -> api.EnqueueCQE) and must be answered exactly once within the tick.
func vhKernelRun(c vx.Coro, req *t_api.Request) (*t_api.Response, error) {
	calls := 0
	res, err, n := VXProcess(c, &bus.SQE[t_api.Request, t_api.Response]{Id: "r", Submission: req, Callback: func(*t_api.Response, error) { calls++ }})
	vx.Assert(n == 1 && calls == 1, "C12:kernel-answers-exactly-once")
	return res, err
}

func vhC12Setup() vx.Coro { return vhSetup(vx.HavocMode | vx.Faults(vx.Opt("faults", 2))) }

func vhTags() map[string]string { return map[string]string{"id": "r"} }

func VH_X_ReadPromise() {
	c := vhC12Setup()
	res, err := vhKernelRun(c, &t_api.Request{Kind: t_api.ReadPromise, Tags: vhTags(), ReadPromise: &t_api.ReadPromiseRequest{Id: vx.String("id")}})
	vhC12Check(t_api.ReadPromise, res, err)
}

func VH_X_SearchPromises() {
	c := vhC12Setup()
	pat, limit := vx.String("pattern"), vx.Int("limit")
	vx.Assume(vx.And(pat != "", limit >= 1, limit <= 2))
	res, err := vhKernelRun(c, &t_api.Request{Kind: t_api.SearchPromises, Tags: vhTags(), SearchPromises: &t_api.SearchPromisesRequest{Id: pat,
		States: []promise.State{promise.Pending}, Tags: vx.Tags("tags", 0), Limit: limit, SortId: vx.Int64Ptr("sortId")}})
	vhC12Check(t_api.SearchPromises, res, err)
}

func VH_X_CreatePromise() {
	c := vhC12Setup()
	res, err := vhKernelRun(c, &t_api.Request{Kind: t_api.CreatePromise, Tags: vhTags(), CreatePromise: vhCreateReq()})
	vhC12Check(t_api.CreatePromise, res, err)
}

func VH_X_CreatePromiseAndTask() {
	c := vhC12Setup()
	req := vhCreateReq()
	pid, ttl := vx.String("processId"), vx.Int("ttl")
	vx.Assume(vx.And(pid != "", ttl >= 0, ttl < 1<<31))
	res, err := vhKernelRun(c, &t_api.Request{Kind: t_api.CreatePromiseAndTask, Tags: vhTags(), CreatePromiseAndTask: &t_api.CreatePromiseAndTaskRequest{Promise: req,
		Task: &t_api.CreateTaskRequest{PromiseId: req.Id, ProcessId: pid, Ttl: ttl, Timeout: req.Timeout}}})
	vhC12Check(t_api.CreatePromiseAndTask, res, err)
}

func VH_X_CompletePromise() {
	c := vhC12Setup()
	state := vx.Int64("state")
	vx.Assume(vx.Or(state == 2, state == 4, state == 8))
	res, err := vhKernelRun(c, &t_api.Request{Kind: t_api.CompletePromise, Tags: vhTags(), CompletePromise: &t_api.CompletePromiseRequest{Id: vx.String("id"),
		IdempotencyKey: (*idempotency.Key)(vx.StringPtr("ikey")), Strict: vx.Bool("strict"), State: promise.State(state), Value: promise.Value{Headers: vx.Tags("vhdr", 1), Data: vx.Bytes("vdata")}}})
	vhC12Check(t_api.CompletePromise, res, err)
}

func VH_X_CreateCallback() {
	c := vhC12Setup()
	recv := vx.Bytes("recv")
	vx.Assume(!vx.BytesNil(recv))
	res, err := vhKernelRun(c, &t_api.Request{Kind: t_api.CreateCallback, Tags: vhTags(), CreateCallback: &t_api.CreateCallbackRequest{Id: vx.String("id"),
		PromiseId: vx.String("promiseId"), RootPromiseId: vx.String("rootPromiseId"), Timeout: vx.Int64("timeout"), Recv: recv}})
	vhC12Check(t_api.CreateCallback, res, err)
}

func VH_X_CreateSubscription() {
	c := vhC12Setup()
	recv := vx.Bytes("recv")
	vx.Assume(!vx.BytesNil(recv))
	res, err := vhKernelRun(c, &t_api.Request{Kind: t_api.CreateSubscription, Tags: vhTags(), CreateSubscription: &t_api.CreateSubscriptionRequest{Id: vx.String("id"),
		PromiseId: vx.String("promiseId"), Timeout: vx.Int64("timeout"), Recv: recv}})
	vhC12Check(t_api.CreateSubscription, res, err)
}

func VH_X_ReadSchedule() {
	c := vhC12Setup()
	res, err := vhKernelRun(c, &t_api.Request{Kind: t_api.ReadSchedule, Tags: vhTags(), ReadSchedule: &t_api.ReadScheduleRequest{Id: vx.String("id")}})
	vhC12Check(t_api.ReadSchedule, res, err)
}

func VH_X_SearchSchedules() {
	c := vhC12Setup()
	pat, limit := vx.String("pattern"), vx.Int("limit")
	vx.Assume(vx.And(pat != "", limit >= 1, limit <= 2))
	res, err := vhKernelRun(c, &t_api.Request{Kind: t_api.SearchSchedules, Tags: vhTags(), SearchSchedules: &t_api.SearchSchedulesRequest{Id: pat, Tags: vx.Tags("tags", 0), Limit: limit, SortId: vx.Int64Ptr("sortId")}})
	vhC12Check(t_api.SearchSchedules, res, err)
}

func VH_X_CreateSchedule() {
	c := vhC12Setup()
	res, err := vhKernelRun(c, &t_api.Request{Kind: t_api.CreateSchedule, Tags: vhTags(), CreateSchedule: &t_api.CreateScheduleRequest{Id: vx.String("id"), Description: vx.String("desc"),
		Cron: vx.String("cron"), Tags: vx.Tags("tags", 1), PromiseId: vx.String("promiseId"), PromiseTimeout: vx.Int64("promiseTimeout"),
		PromiseParam: promise.Value{Headers: vx.Tags("phdr", 1), Data: vx.Bytes("pdata")}, PromiseTags: vx.Tags("ptags", 1), IdempotencyKey: (*idempotency.Key)(vx.StringPtr("ikey"))}})
	vhC12Check(t_api.CreateSchedule, res, err)
}

func VH_X_DeleteSchedule() {
	c := vhC12Setup()
	res, err := vhKernelRun(c, &t_api.Request{Kind: t_api.DeleteSchedule, Tags: vhTags(), DeleteSchedule: &t_api.DeleteScheduleRequest{Id: vx.String("id")}})
	vhC12Check(t_api.DeleteSchedule, res, err)
}

func VH_X_AcquireLock() {
	c := vhC12Setup()
	ttl := vx.Int64("ttl")
	vx.Assume(ttl >= 0)
	res, err := vhKernelRun(c, &t_api.Request{Kind: t_api.AcquireLock, Tags: vhTags(), AcquireLock: &t_api.AcquireLockRequest{ResourceId: vx.String("resourceId"),
		ExecutionId: vx.String("executionId"), ProcessId: vx.String("processId"), Ttl: ttl}})
	vhC12Check(t_api.AcquireLock, res, err)
}

func VH_X_ReleaseLock() {
	c := vhC12Setup()
	res, err := vhKernelRun(c, &t_api.Request{Kind: t_api.ReleaseLock, Tags: vhTags(), ReleaseLock: &t_api.ReleaseLockRequest{ResourceId: vx.String("resourceId"), ExecutionId: vx.String("executionId")}})
	vhC12Check(t_api.ReleaseLock, res, err)
}

func VH_X_HeartbeatLocks() {
	c := vhC12Setup()
	res, err := vhKernelRun(c, &t_api.Request{Kind: t_api.HeartbeatLocks, Tags: vhTags(), HeartbeatLocks: &t_api.HeartbeatLocksRequest{ProcessId: vx.String("processId")}})
	vhC12Check(t_api.HeartbeatLocks, res, err)
}

func VH_X_ClaimTask() {
	c := vhC12Setup()
	pid, ttl := vx.String("processId"), vx.Int("ttl")
	vx.Assume(vx.And(pid != "", ttl >= 0, ttl < 1<<31))
	res, err := vhKernelRun(c, &t_api.Request{Kind: t_api.ClaimTask, Tags: vhTags(), ClaimTask: &t_api.ClaimTaskRequest{Id: vx.String("id"), Counter: vx.Int("counter"), ProcessId: pid, Ttl: ttl}})
	vhC12Check(t_api.ClaimTask, res, err)
}

func VH_X_CompleteTask() {
	c := vhC12Setup()
	res, err := vhKernelRun(c, &t_api.Request{Kind: t_api.CompleteTask, Tags: vhTags(), CompleteTask: &t_api.CompleteTaskRequest{Id: vx.String("id"), Counter: vx.Int("counter")}})
	vhC12Check(t_api.CompleteTask, res, err)
}

func VH_X_HeartbeatTasks() {
	c := vhC12Setup()
	res, err := vhKernelRun(c, &t_api.Request{Kind: t_api.HeartbeatTasks, Tags: vhTags(), HeartbeatTasks: &t_api.HeartbeatTasksRequest{ProcessId: vx.String("processId")}})
	vhC12Check(t_api.HeartbeatTasks, res, err)
}

func VH_X_Echo() {
	c := vhC12Setup()
	res, err := vhKernelRun(c, &t_api.Request{Kind: t_api.Echo, Tags: vhTags(), Echo: &t_api.EchoRequest{Data: vx.String("data")}})
	vhC12Check(t_api.Echo, res, err)
}
