package poll

// C18 / C11 wiring of the poll transport: Start launches the listener side and the worker exactly once each,
// Enqueue accepts while the queue has room and refuses without side effect when full.

import (
	"github.com/prometheus/client_golang/prometheus"
	"github.com/resonatehq/resonate/internal/aio"
	"github.com/resonatehq/resonate/internal/metrics"
	"github.com/resonatehq/resonate/internal/vx"
)

func VH_W_PollPlugin() {
	vx.IgnoreGo()
	size := 1 + vx.Choose(2)
	cfg := &Config{Size: size, BufferSize: 1, MaxConnections: 1, Addr: ":0", Timeout: 10000000000}
	p, err := New(nil, metrics.New(prometheus.NewRegistry()), cfg)
	vx.Assert(err == nil && p != nil && p.worker != nil && p.server != nil && p.Type() == "poll", "C18:poll-transport-constructs")
	if err != nil || p == nil || p.worker == nil || p.server == nil {
		return
	}
	room := cap(p.sq)
	for i := 0; i < room+1; i++ {
		ok := p.Enqueue(&aio.Message{Type: "poll"})
		vx.Assert(ok == (i < room), "C18:enqueue-accepts-exactly-while-there-is-room")
		vx.Assert(len(p.sq) == min(i+1, room), "C18:a-refused-message-is-not-queued")
	}
	vx.Assert(p.Start(nil) == nil, "C18:start-succeeds")
	srv, wrk := 0, 0
	for i := 0; i < vx.GoStarted(); i++ {
		if vx.GoStartedName(i) == "Start" && vx.GoStartedOn(i, p.server) {
			srv++
		}
		if vx.GoStartedName(i) == "Start" && vx.GoStartedOn(i, p.worker) {
			wrk++
		}
	}
	vx.Assert(srv == 1 && wrk == 1, "C18:listener-side-and-worker-started-exactly-once")
	vx.Reach("done")
}
