#!/bin/bash
# benign_matrix.sh <dir-with-*.diff>...: false-alarm test. Applies each behaviour-preserving change in a scratch
# worktree (never in /repo) and runs the quick checks of every property whose evidence lists a function of a
# changed package; anything but exit 0 is reported.
export GOFLAGS=-mod=mod GOPROXY=off GOSUMDB=off GOTOOLCHAIN=local
WT=/tmp/bx_repo
git -C /repo worktree remove --force $WT 2>/dev/null; git -C /repo worktree prune
git -C /repo worktree add -q --detach $WT HEAD || exit 2
mkdir -p /verif/out/benign
for d in "$@"; do
 for f in $d/*.diff; do
  name=$(basename $(dirname $f))_$(basename $f .diff)
  (cd $WT && git checkout -q -- . && git clean -fdq && git apply $f) || { echo "$name apply-failed"; continue; }
  props=$(python3 - "$f" <<'PY'
import sys,re,json,glob
names=set(); pk=set()
for l in open(sys.argv[1]):
    m=re.match(r'\+\+\+ b/(.*)/[^/]+\.go',l)
    if m: pk.add('github.com/resonatehq/resonate/'+m.group(1))
    m=re.match(r'@@ .* @@ func (?:\([^)]*\) )?([A-Za-z0-9_]+)',l)
    if m: names.add(m.group(1))
    m=re.match(r'[-+ ]func (?:\([^)]*\) )?([A-Za-z0-9_]+)',l)
    if m: names.add(m.group(1))
cands=[]
for ev in sorted(glob.glob('/verif/evidence/C*.json')):
    e=json.load(open(ev))
    fns=e['coverage'].get('functions_encoded',[])
    hit=any(any(p+'.' in fn or p+')' in fn for p in pk) and (not names or any(fn.endswith('.'+n) or ('.'+n+'$') in fn for n in names)) for fn in fns)
    if hit: cands.append((e.get('wall_s',0),ev.split('/')[-1][:3]))
cands.sort()
print(' '.join(c for _,c in cands[:6]))
PY
)
  res=""
  for p in $props; do
    /verif/bin/gosmt check $p --tier quick -repo $WT -verif /verif -evidence /verif/out/benign/$name.$p.evidence.json > /verif/out/benign/$name.$p.log 2>&1; rc=$?
    res="$res $p=$rc"
    if [ $rc != 0 ]; then grep -E "^(VIOLATION|INCONCLUSIVE)" /verif/out/benign/$name.$p.log | head -3 | cut -c1-300 | sed "s/^/    /"; fi
  done
  echo "$name:$res"
 done
done
git -C /repo worktree remove --force $WT
