package http

// C12: stopping the HTTP front end waits for the requests it has accepted (graceful Shutdown, not Close).

import (
	"net/http"

	"github.com/resonatehq/resonate/internal/vx"
)

func VH_H_Stop() {
	h := &Http{config: &Config{Timeout: 10000000000}, server: &http.Server{}}
	err := h.Stop()
	vx.Assert(err == nil, "C12:http-stop-returns")
	vx.Assert(vx.Lifecycle() == "http.Shutdown", "C12:http-stop-waits-for-in-flight-requests")
	vx.Reach("done")
}
