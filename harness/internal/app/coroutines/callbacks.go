package coroutines

// C05: an acknowledged registration either reports the promise as completed or
// leaves a registration that the completion transaction turns into a task.

import (
	"github.com/resonatehq/resonate/internal/kernel/t_api"
	"github.com/resonatehq/resonate/internal/vx"
	"github.com/resonatehq/resonate/pkg/callback"
	"github.com/resonatehq/resonate/pkg/promise"
)

func vhCheckRegistration(st t_api.StatusCode, p *promise.Promise, cb *callback.Callback, pid, cbId string, recv []byte, timeout int64, mtype, root, leaf string) {
	n := vx.NYields()
	if st == t_api.StatusPromiseNotFound {
		vx.Reach("notfound")
		vx.Assert(!vx.Lookup(vx.YieldPost(0), "promises", pid).Present(), "C05:notfound-means-absent")
		vx.Assert(n == 1, "C05:notfound-writes-nothing")
		return
	}
	last := vx.YieldPost(n - 1)
	row := vx.Lookup(last, "callbacks", cbId)
	if st == t_api.StatusCreated {
		vx.Reach("registered")
		pre := vx.Lookup(vx.YieldPre(1), "callbacks", cbId)
		prom := vx.Lookup(vx.YieldPre(1), "promises", pid)
		vx.Assert(vx.And(!pre.Present(), prom.Present(), prom.Int("state") == 1), "C05:created-means-inserted-on-pending")
		vx.Assert(vx.And(row.Present(), row.Str("promise_id") == pid, row.Str("root_promise_id") == root, vx.BytesEq(row.Bytes("recv"), recv),
			row.Int("timeout") == timeout, row.Int("created_on") == vx.YieldTime(1), row.MesgType() == mtype, row.MesgRoot() == root, row.MesgLeaf() == leaf), "C05:registration-stored")
		vx.Assert(vx.And(cb != nil, cb.Id == cbId, cb.PromiseId == pid, cb.Timeout == timeout, cb.CreatedOn == vx.YieldTime(1)), "C05:registration-returned")
		vx.Assert(vhBodyIsRow(p, vx.Lookup(vx.YieldPost(0), "promises", pid)), "C01:body-is-row")
		return
	}
	vx.Assert(st == t_api.StatusOK, "C05:registration-status")
	vx.Assert(cb == nil, "C05:no-callback-returned-unless-created")
	if n == 1 {
		vx.Reach("already-completed")
		prow := vx.Lookup(vx.YieldPost(0), "promises", pid)
		vx.Assert(int64(p.State) != 1, "C05:no-registration-only-if-reported-completed")
		vx.Assert(vx.And(int64(p.State) != 1, vhBodyIsRow(p, prow)), "C01:body-is-row")
		return
	}
	vx.Reach("not-inserted")
	// the insert matched nothing (yield 1) and the coroutine re-read the promise (yield 2): either the
	// registration exists already, or the promise completed meanwhile and the answer says so -
	// the acknowledgement never makes the caller wait for a wake-up that will not come
	vx.Assert(n == 3, "C05:unmatched-insert-is-followed-by-a-re-read")
	vx.Assert(vx.SameDB(vx.YieldPre(1), vx.YieldPost(1)), "C05:second-registration-changes-nothing")
	prow := vx.Lookup(last, "promises", pid)
	vx.Assert(vx.Implies(prow.Present(), vhBodyIsRow(p, prow)), "C01:body-is-row")
	blocker := vx.Lookup(vx.YieldPre(1), "callbacks", cbId)
	foreign := vx.And(blocker.Present(), blocker.Str("promise_id") != pid)
	vx.Assert(vx.Implies(!foreign, vx.Or(int64(p.State) != 1, row.Present())), "C05:ack-leaves-registration-or-reports-completed")
	// known finding D12: the ':'-joined derived ids are not injective; a registration of ANOTHER promise that
	// happens to carry the same derived id makes this one look like a duplicate and it is silently dropped
	vx.Assert(vx.Implies(foreign, vx.Or(int64(p.State) != 1, vx.And(row.Present(), row.Str("promise_id") == pid))), "C05:colliding-derived-id-must-not-drop-the-registration")
}

func VH_CB_CreateCallback() {
	c := vhSetup(vx.HavocMode | vx.Faults(vx.Opt("faults", 1)))
	id, pid, root := vx.String("id"), vx.String("promiseId"), vx.String("rootPromiseId")
	recv := vx.Bytes("recv")
	vx.Assume(!vx.BytesNil(recv))
	timeout := vx.Int64("timeout")
	res, err := CreateCallback(c, &t_api.Request{Kind: t_api.CreateCallback, Tags: map[string]string{},
		CreateCallback: &t_api.CreateCallbackRequest{Id: id, PromiseId: pid, RootPromiseId: root, Timeout: timeout, Recv: recv}})
	if err != nil {
		vx.Reach("error")
		return
	}
	r := res.CreateCallback
	if r.Status == t_api.StatusCallbackInvalidPromise {
		vx.Reach("invalid")
		vx.Assert(vx.And(pid == root, vx.NYields() == 0), "C05:invalid-promise-writes-nothing")
		return
	}
	vx.Assert(pid != root, "C05:root-equals-leaf-refused")
	vhCheckRegistration(r.Status, r.Promise, r.Callback, pid, "__resume:"+root+":"+pid, recv, timeout, "resume", root, pid)
}

func VH_CB_CreateSubscription() {
	c := vhSetup(vx.HavocMode | vx.Faults(vx.Opt("faults", 1)))
	id, pid := vx.String("id"), vx.String("promiseId")
	recv := vx.Bytes("recv")
	vx.Assume(!vx.BytesNil(recv))
	timeout := vx.Int64("timeout")
	res, err := CreateSubscription(c, &t_api.Request{Kind: t_api.CreateSubscription, Tags: map[string]string{},
		CreateSubscription: &t_api.CreateSubscriptionRequest{Id: id, PromiseId: pid, Timeout: timeout, Recv: recv}})
	if err != nil {
		vx.Reach("error")
		return
	}
	r := res.CreateSubscription
	vhCheckRegistration(r.Status, r.Promise, r.Callback, pid, "__notify:"+pid+":"+id, recv, timeout, "notify", pid, "")
}
