// target: internal/app/coroutines
package coroutines

import (
	"errors"
	"testing"

	"github.com/resonatehq/resonate/internal/kernel/t_aio"
	"github.com/resonatehq/resonate/internal/kernel/t_api"
	"github.com/resonatehq/resonate/pkg/promise"
)

func vnCreate(t *testing.T, w *vnWorld, id string, timeout int64, tags map[string]string) {
	res, err := w.Run(CreatePromise, &t_api.Request{Kind: t_api.CreatePromise, CreatePromise: &t_api.CreatePromiseRequest{Id: id, Timeout: timeout, Tags: tags}})
	if err != nil || res.CreatePromise.Status != t_api.StatusCreated {
		t.Fatalf("create %s: %v %v", id, res, err)
	}
}

// D1: the awaited promise is completed by another request between CreateCallback's read and its
// guarded insert. The acknowledgement must not tell the caller the promise is still pending while
// no registration exists (nothing would ever wake the caller).
func TestVN_D1_CallbackRacesCompletion(t *testing.T) {
	for _, kind := range []string{"callback", "subscription"} {
		w := vnNew(t)
		vnCreate(t, w, "leaf", 1<<40, nil)
		vnCreate(t, w, "root", 1<<40, nil)
		w.nStore = 0
		w.BeforeStore = func(n int, sub *t_aio.Submission) {
			if n == 1 { // between the registration's read (0) and its insert (1): another client resolves the promise
				w.Exec(`UPDATE promises SET state = 2, value_headers = '{}', value_data = x'', completed_on = ? WHERE id = 'leaf' AND state = 1`, w.now)
				w.Exec(`DELETE FROM callbacks WHERE promise_id = 'leaf'`)
			}
		}
		var p *promise.Promise
		var status t_api.StatusCode
		if kind == "callback" {
			res, err := w.Run(CreateCallback, &t_api.Request{Kind: t_api.CreateCallback, CreateCallback: &t_api.CreateCallbackRequest{Id: "cb", PromiseId: "leaf", RootPromiseId: "root", Timeout: 1 << 40, Recv: []byte(`"default"`)}})
			if err != nil {
				t.Fatal(err)
			}
			p, status = res.CreateCallback.Promise, res.CreateCallback.Status
		} else {
			res, err := w.Run(CreateSubscription, &t_api.Request{Kind: t_api.CreateSubscription, CreateSubscription: &t_api.CreateSubscriptionRequest{Id: "sub", PromiseId: "leaf", Timeout: 1 << 40, Recv: []byte(`"default"`)}})
			if err != nil {
				t.Fatal(err)
			}
			p, status = res.CreateSubscription.Promise, res.CreateSubscription.Status
		}
		registered := w.QueryInt(`SELECT count(*) FROM callbacks WHERE promise_id = 'leaf'`)
		if p != nil && p.State == promise.Pending && registered == 0 {
			t.Fatalf("%s: acknowledged with status %d and a PENDING promise although the promise is completed and no registration exists", kind, status)
		}
	}
}

// D11: a router *error* (not a non-match) must not silently store a routable promise without its task.
func TestVN_D11_RouterErrorOnCreate(t *testing.T) {
	w := vnNew(t)
	w.Router = func(sub *t_aio.Submission) (*t_aio.Completion, error) { return nil, errors.New("router unavailable") }
	res, err := w.Run(CreatePromise, &t_api.Request{Kind: t_api.CreatePromise, CreatePromise: &t_api.CreatePromiseRequest{Id: "p", Timeout: 1 << 40, Tags: map[string]string{"resonate:invoke": "default"}}})
	stored := w.QueryInt(`SELECT count(*) FROM promises WHERE id = 'p'`)
	tasks := w.QueryInt(`SELECT count(*) FROM tasks`)
	if stored == 1 && tasks == 0 {
		t.Fatalf("router failed, yet the routed promise was stored without its invocation task (res=%v err=%v)", res, err)
	}
	if err == nil {
		t.Fatalf("expected an error response while the router is unavailable, got %v", res)
	}
}
