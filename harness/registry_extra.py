SMALL = {"slots.callbacks": 1, "slots.locks": 0, "slots.schedules": 0, "slots.promises": 2, "slots.tasks": 2}
THOR = {"slots.callbacks": 2, "slots.locks": 0, "slots.schedules": 0, "slots.promises": 3, "slots.tasks": 3, "faults": 2}

def co(names, labels, opts=None, optsT=None, reach=None, **kw):
    out = []
    for n in names:
        d = {"name": n, "pkg": CO, "labels": labels, "opts": dict(opts or SMALL), "opts_thorough": dict(optsT or THOR)}
        if reach and n in reach:
            d["reach"] = reach[n]
        d.update(kw)
        out.append(d)
        # the same harness over the Postgres store handlers (thorough tier)
        e = dict(d); e["opts"] = dict(d["opts"]); e["opts"]["backend"] = 1; e["opts_thorough"] = dict(d["opts_thorough"]); e["opts_thorough"]["backend"] = 1; e["tier"] = "thorough"
        out.append(e)
    return out

def store(names, labels):
    out = []
    for n in names:
        for pkg in (SQ, PG):
            out.append({"name": n, "pkg": pkg, "labels": labels, "reach": ["done"]})
    return out

PROMISE_H = ["VH_P_Read", "VH_P_Create", "VH_P_Complete", "VH_P_TimeoutSweep"]
REACH_P = {"VH_P_Read": ["read-plain", "read-notfound", "read-lazy-timeout", "error"], "VH_P_Create": ["created", "exists", "exists-lazy-timeout", "error"],
           "VH_P_Complete": ["completed", "already-completed", "complete-lazy-timeout", "notfound", "error"], "VH_P_TimeoutSweep": ["sweep-write"],
           "VH_CB_CreateCallback": ["registered", "not-inserted", "already-completed", "notfound", "invalid"],
           "VH_CB_CreateSubscription": ["registered", "not-inserted", "already-completed", "notfound"],
           "VH_C07_Claim": ["claimed", "refused", "error"]}
CB_H = ["VH_CB_CreateCallback", "VH_CB_CreateSubscription"]
CBOPT = {"slots.callbacks": 2, "slots.locks": 0, "slots.schedules": 0, "slots.promises": 2, "slots.tasks": 1}

ASSUME_CO = COMMON_ASSUME + [
    "coroutines run under havoc semantics: before every store submission the database is replaced by an arbitrary state satisfying Inv and G-related to the previous one (rely/guarantee, DESIGN 3); Inv and G are re-proved for every transaction the coroutine commits (labels O2:*)",
    "gocoro Spawn/Await children run to completion at the spawn point; tail-recursive retries are cut as subsumed by the entry state",
    "store faults: a submission may fail before processing or after commit (budget 1 quick / 2 thorough); Router/Sender completions are arbitrary",
]
EXPL = "bounded symbolic execution (Go SSA -> SMT) of the real coroutine(s) and the real store handlers + SQL on a symbolic database, every interleaving with other requests abstracted by an invariant-constrained environment step before each store submission; responses and committed transactions are compared with the reference of DESIGN Appendix B"

reg["C01"] = {"level": "model_checking", "explanation": EXPL, "assumptions": ASSUME_CO,
    "outside": ["JSON/protobuf rendering of bodies", "process crash/restart (SQL engine durability is assumed)", "claim payloads and notifications are checked under C07/C08/C19"],
    "harnesses": co(PROMISE_H, ["C01:", "O2:G1", "O2:I2", "O2:I1:promises"], reach=REACH_P) + co(CB_H, ["C01:", "O2:G1", "O2:I2"], opts=CBOPT, reach=REACH_P)
                 + store(["VH_C16_UpdatePromise", "VH_C16_CreatePromise"], []) + store(["VH_C05_CompletionTxn"], ["C01:"])}
reg["C03"] = {"level": "model_checking", "explanation": EXPL, "assumptions": ASSUME_CO,
    "outside": ["HTTP/gRPC header parsing of the idempotency key and strict flag"],
    "harnesses": co(["VH_P_Create", "VH_P_Complete"], ["C03:", "O2:G1"], reach=REACH_P)}
reg["C04"] = {"level": "model_checking", "explanation": EXPL, "assumptions": ASSUME_CO + ["the wall clock behind time.Now() is monotone; a tick's time is the time at which its transactions are built"],
    "outside": ["wall clock to tick mapping in System.Loop", "search responses (C14)"],
    "harnesses": co(PROMISE_H, ["C04:", "O2:I2"], reach=REACH_P)}
reg["C05"] = {"level": "model_checking", "explanation": EXPL, "assumptions": ASSUME_CO,
    "outside": ["dispatch of the created tasks (C08)", "crash between commits (atomicity of one SQL transaction is assumed)"],
    "harnesses": store(["VH_C05_CompletionTxn"], ["C05:"]) + store(["VH_C16_CreateCallback", "VH_C16_DeleteCallbacks", "VH_C16_CreateTasks"], [])
                 + co(CB_H, ["C05:", "O2:I3"], opts=CBOPT, reach=REACH_P) + co(PROMISE_H, ["O2:I3", "O2:I4"], reach=REACH_P)}
reg["C07"] = {"level": "model_checking", "explanation": EXPL, "assumptions": ASSUME_CO,
    "outside": ["real-time behaviour of workers", "more than the fault budget of failing submissions"],
    "harnesses": co(["VH_C07_Claim"], ["claim", "refus", "invalid", "O2:G2", "O2:I4"], opts={"slots.callbacks": 0, "slots.locks": 0, "slots.schedules": 0, "slots.promises": 2, "slots.tasks": 2}, reach=REACH_P)
                 + store(["VH_C16_UpdateTask", "VH_C16_HeartbeatTasks", "VH_C16_CompleteTasks"], [])}
