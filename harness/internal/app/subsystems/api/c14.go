package api

// C14 / C20: the query a client writes is the query the kernel gets. The helper shared by both front ends
// maps (id pattern, state name, tags, limit, cursor) to the kernel request: the state filter names exactly
// the documented state sets, the pattern and tags are passed unaltered, the page size is the requested one
// (100 when absent), out-of-range values are refused, and a cursor is only accepted if it decodes to a
// continuation that is itself a valid query.

import (
	"github.com/resonatehq/resonate/internal/kernel/t_api"
	"github.com/resonatehq/resonate/internal/vx"
	"github.com/resonatehq/resonate/pkg/promise"
)

func vhStateSet(states []promise.State) int {
	m := 0
	for _, s := range states {
		m |= int(s)
	}
	return m
}

func VH_A_SearchPromisesReq() {
	a := &API{protocol: "http"}
	id := vx.String("id")
	names := []string{"", "pending", "Pending", "RESOLVED", "rejected", "timedout", "bogus"}
	want := []int{1 | 2 | 4 | 8 | 16, 1, 1, 2, 4 | 8 | 16, -1, -1}
	k := vx.Choose(len(names))
	tags := vx.Tags("tags", 1)
	if vx.Choose(2) == 1 {
		tags = nil
	}
	limit := vx.Int("limit")
	req, err := a.SearchPromises(id, names[k], tags, limit, "")
	valid := vx.And(id != "", want[k] >= 0, limit >= 0, limit <= 100)
	vx.Assert((err == nil) == valid && (req != nil) == (err == nil), "C14:query-accepted-iff-valid")
	if err != nil {
		vx.Reach("refused")
		return
	}
	vx.Reach("accepted")
	vx.Assert(req.Id == id, "C14:id-pattern-passed-unaltered")
	vx.Assert(vhStateSet(req.States) == want[k] && len(req.States) >= 1, "C14:state-filter-names-exactly-its-states")
	vx.Assert(req.Tags != nil && vx.MapEq(req.Tags, tags), "C14:tag-filter-passed-unaltered")
	vx.Assert(req.Limit == vx.IteInt(limit == 0, 100, limit), "C14:page-size-as-requested-or-100")
	vx.Assert(req.SortId == nil, "C14:first-page-has-no-position")
}

func VH_A_SearchPromisesCursor() {
	a := &API{protocol: "http"}
	cur := vx.String("cursor")
	vx.Assume(cur != "")
	req, err := a.SearchPromises(vx.String("id"), "bogus", nil, -5, cur) // with a cursor the other arguments are ignored
	if err != nil {
		vx.Reach("refused")
		vx.Assert(req == nil, "C14:refused-cursor-yields-no-request")
		// a cursor the server itself issued (validly signed, continuing a valid query: a pattern, at least one
		// state, a page size of 1..100) is never refused, or the traversal could not be completed
		if vx.JwtOutcome() == "valid" {
			n, _ := vx.JwtClaimsNext().(*t_api.SearchPromisesRequest)
			vx.Assert(vx.Not(vx.And(n != nil, vhCursorOK(n))), "C14:a-cursor-the-server-issued-is-accepted")
		}
		return
	}
	_ = promise.Pending
	vx.Reach("accepted")
	vx.Assert(vx.JwtOutcome() == "valid", "C14:cursor-whose-signature-does-not-verify-is-rejected")
	vx.Assert(req != nil && req.Id != "" && len(req.States) > 0 && req.Limit >= 1 && req.Limit <= 100, "C14:accepted-cursor-is-a-valid-continuation")
}

func VH_A_SearchSchedulesReq() {
	a := &API{protocol: "http"}
	id := vx.String("id")
	tags := vx.Tags("tags", 1)
	if vx.Choose(2) == 1 {
		tags = nil
	}
	limit := vx.Int("limit")
	req, err := a.SearchSchedules(id, tags, limit, "")
	valid := vx.And(id != "", limit >= 0, limit <= 100)
	vx.Assert((err == nil) == valid && (req != nil) == (err == nil), "C14:query-accepted-iff-valid")
	if err != nil {
		vx.Reach("refused")
		return
	}
	vx.Reach("accepted")
	vx.Assert(req.Id == id, "C14:id-pattern-passed-unaltered")
	vx.Assert(req.Tags != nil && vx.MapEq(req.Tags, tags), "C14:tag-filter-passed-unaltered")
	vx.Assert(req.Limit == vx.IteInt(limit == 0, 100, limit), "C14:page-size-as-requested-or-100")
	vx.Assert(req.SortId == nil, "C14:first-page-has-no-position")
}

func vhCursorOK(n *t_api.SearchPromisesRequest) bool {
	if n == nil {
		return false
	}
	return vx.And(n.Id != "", len(n.States) > 0, n.Limit >= 1, n.Limit <= 100)
}
