package grpc

// C13 / C15: every gRPC handler end to end on a fully symbolic protocol request:
// real handler -> real api.Process -> kernel double that runs the REAL request coroutine
// (havoc semantics, store faults) -> real reply construction. Any reachable panic is a
// violation (C13); flags and codes are compared with the kernel outcome (C15).

import (
	"encoding/json"

	"github.com/resonatehq/resonate/pkg/receiver"
	"github.com/resonatehq/resonate/pkg/promise"
	"github.com/resonatehq/resonate/pkg/schedule"
	"github.com/resonatehq/resonate/pkg/callback"
	"github.com/resonatehq/resonate/pkg/idempotency"
	"context"

	i_api "github.com/resonatehq/resonate/internal/api"
	"github.com/resonatehq/resonate/internal/app/coroutines"
	"github.com/resonatehq/resonate/internal/app/subsystems/api"
	"github.com/resonatehq/resonate/internal/app/subsystems/api/grpc/pb"
	"github.com/resonatehq/resonate/internal/kernel/bus"
	"github.com/resonatehq/resonate/internal/kernel/t_api"
	"github.com/resonatehq/resonate/internal/vx"
)

type vhKernel struct {
	i_api.API
	c     vx.Coro
	calls int
	req   *t_api.Request
	res   *t_api.Response
	err   error
}

func (k *vhKernel) EnqueueSQE(sqe *bus.SQE[t_api.Request, t_api.Response]) {
	k.calls++
	k.req = sqe.Submission
	var n int
	k.res, k.err, n = coroutines.VXProcess(k.c, sqe)
	vx.Assert(n == 1, "C12:kernel-answers-an-accepted-request-exactly-once-per-tick")
}

func (k *vhKernel) DequeueCQE(cq <-chan *bus.CQE[t_api.Request, t_api.Response]) *bus.CQE[t_api.Request, t_api.Response] {
	return <-cq
}

func vhServer() (*server, *vhKernel) {
	k := &vhKernel{c: coroutines.VXSetup(vx.HavocMode | vx.Faults(vx.Opt("faults", 1)))}
	return &server{api: api.New(k, "grpc")}, k
}

// vhWantCode: the gRPC code a kernel status must be rendered as.
func vhWantCode(st t_api.StatusCode) int {
	switch {
	case st >= 50300:
		return 14 // Unavailable
	case st >= 50000:
		return 13 // Internal
	case st >= 40900:
		return 6 // AlreadyExists
	case st >= 40400:
		return 5 // NotFound
	case st >= 40300:
		return 7 // PermissionDenied
	case st >= 40000:
		return 3 // InvalidArgument
	}
	return 0
}

// vhReply: exactly one of reply/error; an error carries the mapped code of the kernel outcome,
// and a request refused by the front end never reached the kernel.
func vhReply(k *vhKernel, hasReply bool, err error) bool {
	vx.Assert(hasReply != (err != nil), "C15:exactly-one-of-reply-and-error")
	if err == nil {
		vx.Reach("reply")
		vx.Assert(k.calls == 1 && k.err == nil && k.res != nil && k.res.Status().IsSuccessful(), "C15:ok-reply-only-for-successful-kernel-status")
		return true
	}
	code := vx.GrpcCode(err)
	if k.calls == 0 {
		vx.Reach("refused-by-front-end")
		vx.Assert(code == 3, "C13:invalid-request-answered-with-client-error")
		return false
	}
	vx.Reach("kernel-error")
	vx.Assert(k.calls == 1, "C12:one-kernel-request-per-call")
	if k.err != nil {
		te, ok := k.err.(*t_api.Error)
		vx.Assert(ok && code == vhWantCode(te.Code()), "C15:error-code-mapped")
	} else {
		vx.Assert(code == vhWantCode(k.res.Status()), "C15:error-code-mapped")
	}
	return false
}

func vhValue(n string) *pb.Value {
	if vx.Choose(2) == 0 {
		return nil
	}
	return &pb.Value{Headers: vx.Tags(n+".headers", 1), Data: vx.Bytes(n + ".data")}
}

func vhRecv() *pb.Recv {
	switch vx.Choose(4) {
	case 0:
		return nil
	case 1:
		return &pb.Recv{}
	case 2:
		return &pb.Recv{Recv: &pb.Recv_Logical{Logical: vx.String("recv.logical")}}
	}
	if vx.Choose(2) == 0 {
		return &pb.Recv{Recv: &pb.Recv_Physical{}}
	}
	return &pb.Recv{Recv: &pb.Recv_Physical{Physical: &pb.PhysicalRecv{Type: vx.String("recv.type"), Data: vx.Bytes("recv.data")}}}
}

// vhRecvStored: the receiver description reaches the kernel exactly as supplied - a logical name as the JSON
// string of that name (what the HTTP front end stores for "recv": "<name>" and the sender decodes), a physical
// one as the JSON object of its type and data - and one that cannot be stored (data that is not a JSON text)
// is refused by the front end instead of reaching the kernel as something else.
func vhRecvStored(in *pb.Recv, calls int, got []byte) {
	if in == nil {
		vx.Assert(calls == 0, "C13:missing-receiver-refused")
		return
	}
	switch r := in.Recv.(type) {
	case *pb.Recv_Logical:
		name := r.Logical
		want, _ := json.Marshal(&name)
		vx.Assert(vx.Implies(calls == 1, vx.BytesEq(got, want)), "C20:logical-receiver-stored-as-the-json-string-of-the-name")
	case *pb.Recv_Physical:
		if r.Physical == nil {
			vx.Assert(calls == 0, "C13:missing-receiver-refused")
			return
		}
		want, werr := json.Marshal(&receiver.Recv{Type: r.Physical.Type, Data: r.Physical.Data})
		if werr != nil {
			vx.Reach("unstorable-receiver")
			vx.Assert(calls == 0, "C13:unstorable-receiver-refused")
			return
		}
		vx.Assert(vx.Implies(calls == 1, vx.BytesEq(got, want)), "C20:physical-receiver-stored-as-supplied")
	default:
		vx.Assert(calls == 0, "C13:missing-receiver-refused")
	}
}

// vhPromiseReply / vhCallbackReply: the resource in a reply is the kernel's, field by field (absent iff the kernel
// returned none; absent keys and times are the protobuf zero values).
func vhPromiseReply(out *pb.Promise, p *promise.Promise) bool {
	if p == nil {
		return out == nil
	}
	if out == nil || out.Param == nil || out.Value == nil {
		return false
	}
	// (header and tag maps and the keys are compared where the reply is the subject: VH_G_ReadPromise, C20)
	return vx.And(out.Id == p.Id, out.Timeout == p.Timeout, vx.BytesEq(out.Param.Data, p.Param.Data), vx.BytesEq(out.Value.Data, p.Value.Data),
		vx.Implies(p.CreatedOn != nil, out.CreatedOn == vx.Int64PtrVal(p.CreatedOn)), vx.Implies(p.CompletedOn != nil, out.CompletedOn == vx.Int64PtrVal(p.CompletedOn)))
}

func vhScheduleReply(out *pb.Schedule, sc *schedule.Schedule) bool {
	if sc == nil {
		return out == nil
	}
	if out == nil || out.PromiseParam == nil {
		return false
	}
	return vx.And(out.Id == sc.Id, out.Cron == sc.Cron, out.Description == sc.Description, out.PromiseId == sc.PromiseId, out.PromiseTimeout == sc.PromiseTimeout,
		out.NextRunTime == sc.NextRunTime, out.CreatedOn == sc.CreatedOn, vx.BytesEq(out.PromiseParam.Data, sc.PromiseParam.Data))
}

func vhCallbackReply(out *pb.Callback, c *callback.Callback) bool {
	if c == nil {
		return out == nil
	}
	if out == nil {
		return false
	}
	return vx.And(out.Id == c.Id, out.PromiseId == c.PromiseId, out.Timeout == c.Timeout, out.CreatedOn == c.CreatedOn)
}

var vhCtx = context.Background()

// ---------------------------------------------------------------- promises

func VH_G_ReadPromise() {
	s, k := vhServer()
	out, err := s.ReadPromise(vhCtx, &pb.ReadPromiseRequest{Id: vx.String("id"), RequestId: vx.String("requestId")})
	if vhReply(k, out != nil, err) {
		p := k.res.ReadPromise.Promise
		vx.Assert(out.Promise != nil && out.Promise.Id == p.Id && out.Promise.Timeout == p.Timeout && vx.BytesEq(out.Promise.Param.Data, p.Param.Data) && vx.BytesEq(out.Promise.Value.Data, p.Value.Data), "C20:reply-carries-the-kernel-promise")
	}
}

// vhKeyIs: an empty protobuf key means "no key"; otherwise the kernel gets exactly that key
func vhKeyIs(k *idempotency.Key, sent string) bool {
	if k == nil {
		return sent == ""
	}
	return vx.And(sent != "", string(*k) == sent)
}

func vhValueIs(v promise.Value, sent *pb.Value) bool {
	if sent == nil {
		return vx.And(vx.BytesEq(v.Data, nil), vx.MapEq(v.Headers, nil))
	}
	return vx.And(vx.BytesEq(v.Data, sent.Data), vx.MapEq(v.Headers, sent.Headers))
}

func vhCompleteCopied(q *t_api.CompletePromiseRequest, id, ikey string, strict bool, val *pb.Value) bool {
	return vx.And(q.Id == id, q.Strict == strict, vhKeyIs(q.IdempotencyKey, ikey), vhValueIs(q.Value, val))
}

func vhCreatePromiseReq() *pb.CreatePromiseRequest {
	return &pb.CreatePromiseRequest{Id: vx.String("id"), IdempotencyKey: vx.String("ikey"), Strict: vx.Bool("strict"), Param: vhValue("param"),
		Timeout: vx.Int64("timeout"), Tags: vx.Tags("tags", 1), RequestId: vx.String("requestId")}
}

func VH_G_CreatePromise() {
	s, k := vhServer()
	r := vhCreatePromiseReq()
	out, err := s.CreatePromise(vhCtx, r)
	if k.calls == 1 {
		q := k.req.CreatePromise
		vx.Assert(vx.And(q.Id == r.Id, q.Timeout == r.Timeout, q.Strict == r.Strict, vx.MapEq(q.Tags, r.Tags), vhKeyIs(q.IdempotencyKey, r.IdempotencyKey), vhValueIs(q.Param, r.Param)), "C20:request-fields-copied")
	}
	if vhReply(k, out != nil, err) {
		vx.Assert(out.Noop == (k.res.CreatePromise.Status == t_api.StatusOK), "C15:noop-flag")
		vx.Assert(vhPromiseReply(out.Promise, k.res.CreatePromise.Promise), "C15:reply-carries-the-kernel-resource")
	}
}

func VH_G_CreatePromiseAndTask() {
	s, k := vhServer()
	r := &pb.CreatePromiseAndTaskRequest{}
	if vx.Choose(2) == 1 {
		r.Promise = vhCreatePromiseReq()
	}
	if vx.Choose(2) == 1 {
		r.Task = &pb.CreatePromiseTaskRequest{ProcessId: vx.String("processId"), Ttl: vx.Int32("ttl")}
	}
	out, err := s.CreatePromiseAndTask(vhCtx, r)
	if k.calls == 1 && r.Promise != nil && r.Task != nil {
		q := k.req.CreatePromiseAndTask
		p := r.Promise
		vx.Assert(vx.And(q.Promise.Id == p.Id, q.Promise.Timeout == p.Timeout, q.Promise.Strict == p.Strict, vx.MapEq(q.Promise.Tags, p.Tags), vhKeyIs(q.Promise.IdempotencyKey, p.IdempotencyKey), vhValueIs(q.Promise.Param, p.Param)), "C20:request-fields-copied")
		vx.Assert(vx.And(q.Task.PromiseId == p.Id, q.Task.ProcessId == r.Task.ProcessId, int64(q.Task.Ttl) == int64(r.Task.Ttl), q.Task.Timeout == p.Timeout), "C20:task-fields-copied")
		vx.Accepts(r.Task.Ttl == 0, "C15:accepts-create-with-task-ttl-zero")
		vx.Accepts(r.Task.Ttl == 1<<30 && p.Timeout == 0, "C15:accepts-create-with-task-large-ttl")
	}
	if vhReply(k, out != nil, err) {
		vx.Assert(out.Noop == (k.res.CreatePromiseAndTask.Status == t_api.StatusOK), "C15:noop-flag")
		vx.Assert(vhPromiseReply(out.Promise, k.res.CreatePromiseAndTask.Promise), "C15:reply-carries-the-kernel-resource")
	}
}

func VH_G_ResolvePromise() {
	s, k := vhServer()
	r := &pb.ResolvePromiseRequest{Id: vx.String("id"), IdempotencyKey: vx.String("ikey"), Strict: vx.Bool("strict"), Value: vhValue("value"), RequestId: vx.String("requestId")}
	out, err := s.ResolvePromise(vhCtx, r)
	if k.calls == 1 {
		vx.Assert(vhCompleteCopied(k.req.CompletePromise, r.Id, r.IdempotencyKey, r.Strict, r.Value), "C20:request-fields-copied")
		vx.Assert(int64(k.req.CompletePromise.State) == 2, "C15:resolve-requests-resolved")
	}
	if vhReply(k, out != nil, err) {
		vx.Assert(out.Noop == (k.res.CompletePromise.Status == t_api.StatusOK), "C15:noop-flag")
		vx.Assert(vhPromiseReply(out.Promise, k.res.CompletePromise.Promise), "C15:reply-carries-the-kernel-resource")
	}
}

func VH_G_RejectPromise() {
	s, k := vhServer()
	r := &pb.RejectPromiseRequest{Id: vx.String("id"), IdempotencyKey: vx.String("ikey"), Strict: vx.Bool("strict"), Value: vhValue("value"), RequestId: vx.String("requestId")}
	out, err := s.RejectPromise(vhCtx, r)
	if k.calls == 1 {
		vx.Assert(vhCompleteCopied(k.req.CompletePromise, r.Id, r.IdempotencyKey, r.Strict, r.Value), "C20:request-fields-copied")
		vx.Assert(int64(k.req.CompletePromise.State) == 4, "C15:reject-requests-rejected")
	}
	if vhReply(k, out != nil, err) {
		vx.Assert(out.Noop == (k.res.CompletePromise.Status == t_api.StatusOK), "C15:noop-flag")
		vx.Assert(vhPromiseReply(out.Promise, k.res.CompletePromise.Promise), "C15:reply-carries-the-kernel-resource")
	}
}

func VH_G_CancelPromise() {
	s, k := vhServer()
	r := &pb.CancelPromiseRequest{Id: vx.String("id"), IdempotencyKey: vx.String("ikey"), Strict: vx.Bool("strict"), Value: vhValue("value"), RequestId: vx.String("requestId")}
	out, err := s.CancelPromise(vhCtx, r)
	if k.calls == 1 {
		vx.Assert(vhCompleteCopied(k.req.CompletePromise, r.Id, r.IdempotencyKey, r.Strict, r.Value), "C20:request-fields-copied")
		vx.Assert(int64(k.req.CompletePromise.State) == 8, "C15:cancel-requests-canceled")
	}
	if vhReply(k, out != nil, err) {
		vx.Assert(out.Noop == (k.res.CompletePromise.Status == t_api.StatusOK), "C15:noop-flag")
		vx.Assert(vhPromiseReply(out.Promise, k.res.CompletePromise.Promise), "C15:reply-carries-the-kernel-resource")
	}
}

func VH_G_SearchPromises() {
	s, k := vhServer()
	out, err := s.SearchPromises(vhCtx, &pb.SearchPromisesRequest{Id: vx.String("id"), State: pb.SearchState(vx.Int32("state")), Tags: vx.Tags("tags", 0),
		Limit: vx.Int32("limit"), Cursor: vx.String("cursor"), RequestId: vx.String("requestId")})
	if vhReply(k, out != nil, err) {
		// C14 (front-end half): the page and the presence of a cursor are the kernel's
		want := k.res.SearchPromises
		same := len(out.Promises) == len(want.Promises)
		if same {
			for i := range out.Promises {
				if out.Promises[i] == nil || out.Promises[i].Id != want.Promises[i].Id {
					same = false
				}
			}
		}
		vx.Assert(same, "C14:reply-carries-the-kernels-page")
		vx.Assert(vx.Implies(want.Cursor == nil, out.Cursor == ""), "C14:no-cursor-invented")
		if want.Cursor != nil {
			vx.Reach("cursor-in-reply")
			vx.Assert(out.Cursor != "", "C14:reply-carries-the-kernels-cursor")
		}
	}
}

// ---------------------------------------------------------------- callbacks / subscriptions

func VH_G_CreateCallback() {
	s, k := vhServer()
	r := &pb.CreateCallbackRequest{Id: vx.String("id"), PromiseId: vx.String("promiseId"), RootPromiseId: vx.String("rootPromiseId"),
		Timeout: vx.Int64("timeout"), Recv: vhRecv(), RequestId: vx.String("requestId")}
	out, err := s.CreateCallback(vhCtx, r)
	var got []byte
	if k.calls == 1 {
		got = k.req.CreateCallback.Recv
	}
	vhRecvStored(r.Recv, k.calls, got)
	if k.calls == 1 {
		q := k.req.CreateCallback
		vx.Assert(vx.And(q.PromiseId == r.PromiseId, q.RootPromiseId == r.RootPromiseId, q.Timeout == r.Timeout), "C20:request-fields-copied")
		_, isLogical := r.Recv.Recv.(*pb.Recv_Logical)
		_, isPhysical := r.Recv.Recv.(*pb.Recv_Physical)
		vx.Accepts(isLogical, "C15:accepts-logical-receiver")
		vx.Accepts(isPhysical, "C15:accepts-physical-receiver")
		vx.Accepts(r.Timeout == 0, "C15:accepts-callback-timeout-zero")
	}
	if vhReply(k, out != nil, err) {
		vx.Assert(out.Noop == (k.res.CreateCallback.Status == t_api.StatusOK), "C15:noop-flag")
		vx.Assert(vx.And(vhPromiseReply(out.Promise, k.res.CreateCallback.Promise), vhCallbackReply(out.Callback, k.res.CreateCallback.Callback)), "C15:reply-carries-the-kernel-resource")
	}
}

func VH_G_CreateSubscription() {
	s, k := vhServer()
	r := &pb.CreateSubscriptionRequest{Id: vx.String("id"), PromiseId: vx.String("promiseId"),
		Timeout: vx.Int64("timeout"), Recv: vhRecv(), RequestId: vx.String("requestId")}
	out, err := s.CreateSubscription(vhCtx, r)
	var got []byte
	if k.calls == 1 {
		got = k.req.CreateSubscription.Recv
	}
	vhRecvStored(r.Recv, k.calls, got)
	if k.calls == 1 {
		q := k.req.CreateSubscription
		vx.Assert(vx.And(q.Id == r.Id, q.PromiseId == r.PromiseId, q.Timeout == r.Timeout), "C20:request-fields-copied")
	}
	if vhReply(k, out != nil, err) {
		vx.Assert(out.Noop == (k.res.CreateSubscription.Status == t_api.StatusOK), "C15:noop-flag")
		vx.Assert(vx.And(vhPromiseReply(out.Promise, k.res.CreateSubscription.Promise), vhCallbackReply(out.Callback, k.res.CreateSubscription.Callback)), "C15:reply-carries-the-kernel-resource")
	}
}

// ---------------------------------------------------------------- tasks

func VH_G_ClaimTask() {
	s, k := vhServer()
	r := &pb.ClaimTaskRequest{Id: vx.String("id"), Counter: vx.Int32("counter"), ProcessId: vx.String("processId"), Ttl: vx.Int32("ttl"), RequestId: vx.String("requestId")}
	out, err := s.ClaimTask(vhCtx, r)
	if k.calls == 1 {
		q := k.req.ClaimTask
		vx.Assert(vx.And(q.Id == r.Id, int64(q.Counter) == int64(r.Counter), q.ProcessId == r.ProcessId, int64(q.Ttl) == int64(r.Ttl)), "C20:request-fields-copied")
		vx.Accepts(r.Ttl == 0, "C15:accepts-claim-ttl-zero")
		vx.Accepts(r.Ttl == 1<<30 && r.Counter == 1, "C15:accepts-claim-first-counter")
	}
	if vhReply(k, out != nil, err) {
		vx.Assert(out.Claimed == (k.res.ClaimTask.Status == t_api.StatusCreated), "C15:claimed-flag")
		if k.res.ClaimTask.Status == t_api.StatusCreated {
			// the claim payload lists exactly the promises the kernel returned: the root always, the leaf for a resume
			ms := k.res.ClaimTask.Task.Mesg
			_, hasRoot := out.Mesg.Promises["root"]
			_, hasLeaf := out.Mesg.Promises["leaf"]
			vx.Assert(out.Mesg != nil && out.Mesg.Type == string(ms.Type) && hasRoot && hasLeaf == (string(ms.Type) == "resume") && len(out.Mesg.Promises) == vhB(hasLeaf)+1, "C15:claim-payload-lists-the-kernels-promises")
			vx.Assert(out.Mesg.Promises["root"].Id == ms.Root && out.Mesg.Promises["root"].Href == k.res.ClaimTask.RootPromiseHref, "C15:claim-payload-root")
		}
	}
}

func VH_G_CompleteTask() {
	s, k := vhServer()
	r := &pb.CompleteTaskRequest{Id: vx.String("id"), Counter: vx.Int32("counter"), RequestId: vx.String("requestId")}
	out, err := s.CompleteTask(vhCtx, r)
	if k.calls == 1 {
		vx.Assert(vx.And(k.req.CompleteTask.Id == r.Id, int64(k.req.CompleteTask.Counter) == int64(r.Counter)), "C20:request-fields-copied")
	}
	if vhReply(k, out != nil, err) {
		vx.Assert(out.Completed == (k.res.CompleteTask.Status == t_api.StatusCreated), "C15:completed-flag")
	}
}

func VH_G_HeartbeatTasks() {
	s, k := vhServer()
	r := &pb.HeartbeatTasksRequest{ProcessId: vx.String("processId"), RequestId: vx.String("requestId")}
	out, err := s.HeartbeatTasks(vhCtx, r)
	if k.calls == 1 {
		vx.Assert(k.req.HeartbeatTasks.ProcessId == r.ProcessId, "C20:request-fields-copied")
	}
	if vhReply(k, out != nil, err) {
		vx.Assert(out.TasksAffected == k.res.HeartbeatTasks.TasksAffected, "C15:count-copied")
	}
}

// ---------------------------------------------------------------- locks

func VH_G_AcquireLock() {
	s, k := vhServer()
	r := &pb.AcquireLockRequest{ResourceId: vx.String("resourceId"), ExecutionId: vx.String("executionId"), ProcessId: vx.String("processId"),
		Ttl: vx.Int64("ttl"), RequestId: vx.String("requestId")}
	out, err := s.AcquireLock(vhCtx, r)
	if k.calls == 1 {
		q := k.req.AcquireLock
		vx.Assert(vx.And(q.ResourceId == r.ResourceId, q.ExecutionId == r.ExecutionId, q.ProcessId == r.ProcessId, q.Ttl == r.Ttl), "C20:request-fields-copied")
		vx.Accepts(r.Ttl == 0, "C15:accepts-lock-ttl-zero")
		vx.Accepts(r.Ttl == 1<<40, "C15:accepts-lock-ttl-large")
	}
	if vhReply(k, out != nil, err) {
		vx.Assert(out.Acquired == (k.res.AcquireLock.Status == t_api.StatusCreated), "C15:acquired-flag")
	}
}

func VH_G_ReleaseLock() {
	s, k := vhServer()
	r := &pb.ReleaseLockRequest{ResourceId: vx.String("resourceId"), ExecutionId: vx.String("executionId"), RequestId: vx.String("requestId")}
	out, err := s.ReleaseLock(vhCtx, r)
	if k.calls == 1 {
		vx.Assert(vx.And(k.req.ReleaseLock.ResourceId == r.ResourceId, k.req.ReleaseLock.ExecutionId == r.ExecutionId), "C20:request-fields-copied")
	}
	if vhReply(k, out != nil, err) {
		vx.Assert(out.Released == (k.res.ReleaseLock.Status == t_api.StatusNoContent), "C15:released-flag")
	}
}

func VH_G_HeartbeatLocks() {
	s, k := vhServer()
	r := &pb.HeartbeatLocksRequest{ProcessId: vx.String("processId"), RequestId: vx.String("requestId")}
	out, err := s.HeartbeatLocks(vhCtx, r)
	if k.calls == 1 {
		vx.Assert(k.req.HeartbeatLocks.ProcessId == r.ProcessId, "C20:request-fields-copied")
	}
	if vhReply(k, out != nil, err) {
		vx.Assert(int64(out.LocksAffected) == k.res.HeartbeatLocks.LocksAffected, "C15:count-copied")
	}
}

// ---------------------------------------------------------------- schedules

func VH_G_ReadSchedule() {
	s, k := vhServer()
	r := &pb.ReadScheduleRequest{Id: vx.String("id"), RequestId: vx.String("requestId")}
	out, err := s.ReadSchedule(vhCtx, r)
	if k.calls == 1 {
		vx.Assert(k.req.ReadSchedule.Id == r.Id, "C20:request-fields-copied")
	}
	if vhReply(k, out != nil, err) {
		vx.Assert(vhScheduleReply(out.Schedule, k.res.ReadSchedule.Schedule), "C15:reply-carries-the-kernel-resource")
	}
}

func VH_G_SearchSchedules() {
	s, k := vhServer()
	out, err := s.SearchSchedules(vhCtx, &pb.SearchSchedulesRequest{Id: vx.String("id"), Tags: vx.Tags("tags", 0), Limit: vx.Int32("limit"), Cursor: vx.String("cursor"), RequestId: vx.String("requestId")})
	if vhReply(k, out != nil, err) {
		// C14 (front-end half): the page and the presence of a cursor are the kernel's
		want := k.res.SearchSchedules
		same := len(out.Schedules) == len(want.Schedules)
		if same {
			for i := range out.Schedules {
				if out.Schedules[i] == nil || out.Schedules[i].Id != want.Schedules[i].Id {
					same = false
				}
			}
		}
		vx.Assert(same, "C14:reply-carries-the-kernels-page")
		vx.Assert(vx.Implies(want.Cursor == nil, out.Cursor == ""), "C14:no-cursor-invented")
		if want.Cursor != nil {
			vx.Reach("cursor-in-reply")
			vx.Assert(out.Cursor != "", "C14:reply-carries-the-kernels-cursor")
		}
	}
}

func VH_G_CreateSchedule() {
	s, k := vhServer()
	r := &pb.CreateScheduleRequest{Id: vx.String("id"), Description: vx.String("desc"), Cron: vx.String("cron"), Tags: vx.Tags("tags", 1), PromiseId: vx.String("promiseId"),
		PromiseTimeout: vx.Int64("promiseTimeout"), PromiseParam: vhValue("promiseParam"), PromiseTags: vx.Tags("promiseTags", 1), IdempotencyKey: vx.String("ikey"), RequestId: vx.String("requestId")}
	out, err := s.CreateSchedule(vhCtx, r)
	if k.calls == 1 {
		q := k.req.CreateSchedule
		vx.Assert(q.Id == r.Id && q.Cron == r.Cron && q.PromiseId == r.PromiseId && q.PromiseTimeout == r.PromiseTimeout && vx.MapEq(q.Tags, r.Tags) && vx.MapEq(q.PromiseTags, r.PromiseTags) && q.Description == r.Description, "C15:request-fields-copied")
		vx.Assert(vx.And(vhKeyIs(q.IdempotencyKey, r.IdempotencyKey), vhValueIs(q.PromiseParam, r.PromiseParam)), "C20:request-fields-copied")
	}
	if vhReply(k, out != nil, err) {
		vx.Assert(vhScheduleReply(out.Schedule, k.res.CreateSchedule.Schedule), "C15:reply-carries-the-kernel-resource")
	}
}

func VH_G_DeleteSchedule() {
	s, k := vhServer()
	out, err := s.DeleteSchedule(vhCtx, &pb.DeleteScheduleRequest{Id: vx.String("id"), RequestId: vx.String("requestId")})
	vhReply(k, out != nil, err)
}

// VH_G_StatusTables: every status the kernel defines (read from the constant declarations of
// the current source) can be rendered by String(), IsSuccessful() and the gRPC code mapping,
// and maps to the code of its class.
func VH_G_StatusTables() {
	s := &server{}
	all := vx.NamedConsts("internal/kernel/t_api", "StatusCode")
	vx.Assert(len(all) >= 30, "C15:status-constants-found")
	for _, v := range all {
		st := t_api.StatusCode(v)
		_ = st.String()
		ok := st.IsSuccessful()
		code := s.code(st)
		vx.Assert(int(code) == vhWantCode(st), "C15:status-maps-to-the-code-of-its-class")
		vx.Assert(ok == (st >= 20000 && st < 30000), "C15:successful-iff-2xx")
		vx.Assert(int(st)/100 >= 200 && int(st)/100 <= 599, "C15:http-code-in-range")
	}
	vx.Reach("done")
}

func vhB(b bool) int {
	if b {
		return 1
	}
	return 0
}
