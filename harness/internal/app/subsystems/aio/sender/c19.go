package sender

// C19 / C13: resolution of a stored receiver at dispatch, for every stored value.

import (
	"github.com/prometheus/client_golang/prometheus"
	"github.com/resonatehq/resonate/internal/aio"
	"github.com/resonatehq/resonate/internal/kernel/bus"
	"github.com/resonatehq/resonate/internal/kernel/t_aio"
	"github.com/resonatehq/resonate/internal/metrics"
	"github.com/resonatehq/resonate/internal/vx"
	"github.com/resonatehq/resonate/pkg/message"
	"github.com/resonatehq/resonate/pkg/promise"
	"github.com/resonatehq/resonate/pkg/receiver"
	"github.com/resonatehq/resonate/pkg/task"
)

type vhAIO struct {
	aio.AIO
	cqes []*bus.CQE[t_aio.Submission, t_aio.Completion]
}

func (a *vhAIO) EnqueueCQE(cqe *bus.CQE[t_aio.Submission, t_aio.Completion]) { a.cqes = append(a.cqes, cqe) }

type vhPlugin struct {
	typ    string
	accept bool
	msgs   []*aio.Message
}

func (p *vhPlugin) String() string           { return p.typ }
func (p *vhPlugin) Type() string             { return p.typ }
func (p *vhPlugin) Start(chan<- error) error { return nil }
func (p *vhPlugin) Stop() error              { return nil }
func (p *vhPlugin) Enqueue(m *aio.Message) bool {
	if p.accept {
		p.msgs = append(p.msgs, m)
	}
	return p.accept
}

func VH_SN_Process() {
	a := &vhAIO{}
	httpP, pollP := &vhPlugin{typ: "http", accept: vx.Choose(2) == 1}, &vhPlugin{typ: "poll", accept: vx.Choose(2) == 1}
	targetData := vx.Bytes("target.data")
	w := &SenderWorker{plugins: map[string]aio.Plugin{"http": httpP, "poll": pollP},
		targets: map[string]*receiver.Recv{"default": {Type: "poll", Data: targetData}}, aio: a, metrics: metrics.New(prometheus.NewRegistry())}
	recv := vx.Bytes("task.recv") // whatever is stored in tasks.recv
	mtype := vx.String("mesg.type")
	vx.Assume(vx.Or(mtype == "invoke", mtype == "resume", mtype == "notify"))
	t := &task.Task{Id: vx.String("task.id"), Counter: vx.Int("task.counter"), Recv: recv, Mesg: &message.Mesg{Type: message.Type(mtype), Root: vx.String("root"), Leaf: vx.String("leaf")}}
	sub := &t_aio.SenderSubmission{Task: t, Promise: &promise.Promise{Id: vx.String("promise.id")}, ClaimHref: vx.String("claim"), CompleteHref: vx.String("complete"), HeartbeatHref: vx.String("heartbeat")}
	w.Process(&bus.SQE[t_aio.Submission, t_aio.Completion]{Id: "s", Submission: &t_aio.Submission{Kind: t_aio.Sender, Tags: map[string]string{}, Sender: sub}, Callback: func(*t_aio.Completion, error) {}})
	n := len(a.cqes) + len(httpP.msgs) + len(pollP.msgs)
	vx.Assert(n == 1, "C19:exactly-one-outcome-per-hand-off")
	if len(a.cqes) == 1 {
		vx.Reach("failed-hand-off")
		vx.Assert(a.cqes[0].Error != nil && a.cqes[0].Completion == nil, "C19:undeliverable-address-is-a-failed-hand-off")
		return
	}
	vx.Reach("delivered")
	var m *aio.Message
	if len(httpP.msgs) == 1 {
		m = httpP.msgs[0]
	} else {
		m = pollP.msgs[0]
	}
	vx.Assert(string(m.Type) == mtype, "C19:message-type-is-the-tasks")
	body, ok := vx.Unmarshalled(m.Body).(map[string]interface{})
	vx.Assert(ok, "C19:body-built")
	if mtype == "notify" {
		pp, _ := body["promise"].(*promise.Promise)
		vx.Assert(pp == sub.Promise, "C19:notification-carries-the-completed-promise")
	} else {
		tk, _ := body["task"].(*task.Task)
		href, _ := body["href"].(map[string]string)
		vx.Assert(tk == t && href["claim"] == sub.ClaimHref && href["complete"] == sub.CompleteHref && href["heartbeat"] == sub.HeartbeatHref, "C19:body-names-task-and-links")
	}
	// completing the message answers the kernel exactly once
	m.Done(true, nil)
	vx.Assert(len(a.cqes) == 1 && a.cqes[0].Completion != nil && a.cqes[0].Completion.Sender.Success, "C19:done-answers-the-kernel-once")
}
