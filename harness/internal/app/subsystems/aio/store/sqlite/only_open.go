package sqlite

// C06: the database is opened with the SQL engine's own durability settings. "Committed work survives a
// crash, work in flight takes effect completely or not at all" is the engine's contract under its default
// rollback journal and synchronous mode; the server must not open the database with those weakened.
// The real constructor runs over a database/sql.Open contract that records the data source name: every
// durability-weakening connection parameter in it (go-sqlite3: _journal_mode/_journal = MEMORY|OFF,
// _synchronous/_sync = OFF|0, mode=memory, an in-memory vfs) was put there by the operator's configured path.

import (
	"strings"

	"github.com/prometheus/client_golang/prometheus"
	"github.com/resonatehq/resonate/internal/metrics"
	"github.com/resonatehq/resonate/internal/vx"
)

var vhWeakening = []string{"_journal_mode=MEMORY", "_journal_mode=memory", "_journal_mode=OFF", "_journal_mode=off", "_journal=MEMORY", "_journal=memory", "_journal=OFF", "_journal=off",
	"_synchronous=OFF", "_synchronous=off", "_synchronous=0", "_sync=OFF", "_sync=off", "_sync=0", "mode=memory", "vfs=memdb", ":memory:",
	"_locking_mode=", "_locking=", "_query_only=", "_ignore_check_constraints=", "_writable_schema=", "_defer_foreign_keys=", "_defer_fk="}

func VH_C06_Open() {
	path := vx.String("config.path")
	s, err := New(nil, metrics.New(prometheus.NewRegistry()), &Config{Size: 1, BatchSize: 1, Path: path, TxTimeout: 1000000000})
	vx.Assert(err == nil && s != nil && s.db != nil && s.worker != nil && s.worker.db == s.db, "C06:store-constructs-over-the-opened-database")
	vx.Assert(vx.SqlOpens() == 1, "C06:one-database-is-opened")
	if vx.SqlOpens() != 1 {
		return
	}
	dsn := vx.SqlOpenDSN(0)
	vx.Assert(vx.SqlOpenDriver(0) == "sqlite3", "C06:opened-with-the-sqlite-driver")
	vx.Assert(strings.HasPrefix(dsn, path), "C06:the-configured-file-is-the-database")
	for _, w := range vhWeakening {
		vx.Assert(vx.Implies(strings.Contains(dsn, w), strings.Contains(path, w)), "C06:durability-settings-not-weakened")
	}
	vx.Reach("done")
}
