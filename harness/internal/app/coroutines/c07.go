package coroutines

import (
	"github.com/resonatehq/resonate/internal/kernel/t_api"
	"github.com/resonatehq/resonate/internal/vx"
)

// C07: a claim succeeds only for an unclaimed, unfinished task with the current counter.
func VH_C07_Claim() {
	c := vhSetup(vx.HavocMode | vx.Faults(1))
	id, pid := vx.String("id"), vx.String("processId")
	counter, ttl := vx.Int("counter"), vx.Int("ttl")
	vx.Assume(vx.And(pid != "", ttl >= 0, ttl < 1<<31))
	r := &t_api.Request{Kind: t_api.ClaimTask, Tags: map[string]string{}, ClaimTask: &t_api.ClaimTaskRequest{Id: id, Counter: counter, ProcessId: pid, Ttl: ttl}}
	res, err := ClaimTask(c, r)
	if err != nil {
		vx.Reach("error")
		return
	}
	st := res.ClaimTask.Status
	if st == t_api.StatusCreated {
		vx.Reach("claimed")
		// yields: 0 read task, 1 update task, 2 read promises
		pre, post := vx.Lookup(vx.YieldPre(1), "tasks", id), vx.Lookup(vx.YieldPost(1), "tasks", id)
		vx.Assert(vx.And(pre.Present(), vx.Or(pre.Int("state") == 1, pre.Int("state") == 2), pre.Int("counter") == int64(counter)), "claim-guard")
		vx.Assert(vx.And(post.Present(), post.Int("state") == 4, post.Int("counter") == pre.Int("counter"), post.Str("process_id") == pid, !post.Null("process_id"),
			post.Int("ttl") == int64(ttl), post.Int("expires_at") == vx.YieldTime(1)+int64(ttl)), "claim-effect")
		t := res.ClaimTask.Task
		vx.Assert(vx.And(t.Id == id, int64(t.State) == 4, t.Counter == counter, *t.ProcessId == pid, t.Ttl == ttl, t.ExpiresAt == vx.YieldTime(1)+int64(ttl),
			t.RootPromiseId == post.Str("root_promise_id"), t.Timeout == post.Int("timeout")), "claim-response")
		// C01: the promises carried in the claim payload are the stored rows (state, value, completion fields
		// included) as of the payload's read, and they are the promises the task's message names
		if vx.NYields() > 2 {
			read := vx.YieldPre(2)
			if rp := res.ClaimTask.RootPromise; rp != nil {
				vx.Assert(vx.And(rp.Id == t.Mesg.Root, vhBodyIsRow(rp, vx.Lookup(read, "promises", rp.Id))), "C01:claim-payload-root-is-row")
			} else {
				vx.Assert(!vx.Lookup(read, "promises", t.Mesg.Root).Present(), "C01:claim-payload-root-absent-only-if-no-row")
			}
			if lp := res.ClaimTask.LeafPromise; lp != nil {
				vx.Assert(vx.And(lp.Id == t.Mesg.Leaf, vhBodyIsRow(lp, vx.Lookup(read, "promises", lp.Id))), "C01:claim-payload-leaf-is-row")
			}
		}
		return
	}
	vx.Reach("refused")
	// a refused claim wrote nothing
	for i := 0; i < vx.NYields(); i++ {
		vx.Assert(vx.SameDB(vx.YieldPre(i), vx.YieldPost(i)), "refused-claim-has-no-effect")
	}
	// and the refusal is the right one for the state the read saw
	row := vx.Lookup(vx.YieldPre(0), "tasks", id)
	s := row.Int("state")
	want := vx.IteInt64(!row.Present(), int64(t_api.StatusTaskNotFound),
		vx.IteInt64(s == 4, int64(t_api.StatusTaskAlreadyClaimed),
			vx.IteInt64(vx.Or(s == 8, s == 16), int64(t_api.StatusTaskAlreadyCompleted), int64(t_api.StatusTaskInvalidCounter))))
	vx.Assert(int64(st) == want, "refusal-status")
	vx.Assert(vx.Implies(int64(st) == int64(t_api.StatusTaskInvalidCounter), row.Int("counter") != int64(counter)), "invalid-counter-means-mismatch")
}
