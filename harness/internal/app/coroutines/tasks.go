package coroutines

// C07: task exclusivity, leases, fencing (CompleteTask, HeartbeatTasks, TimeoutTasks).

import (
	"github.com/resonatehq/resonate/internal/kernel/system"
	"github.com/resonatehq/resonate/internal/kernel/t_api"
	"github.com/resonatehq/resonate/internal/vx"
)

func VH_T_Complete() {
	c := vhSetup(vx.HavocMode | vx.Faults(vx.Opt("faults", 1)))
	id, counter := vx.String("id"), vx.Int("counter")
	res, err := CompleteTask(c, &t_api.Request{Kind: t_api.CompleteTask, Tags: map[string]string{}, CompleteTask: &t_api.CompleteTaskRequest{Id: id, Counter: counter}})
	if err != nil {
		vx.Reach("error")
		return
	}
	st := res.CompleteTask.Status
	if st == t_api.StatusCreated {
		vx.Reach("completed")
		pre, post := vx.Lookup(vx.YieldPre(1), "tasks", id), vx.Lookup(vx.YieldPost(1), "tasks", id)
		vx.Assert(vx.And(pre.Present(), pre.Int("state") == 4, pre.Int("counter") == int64(counter)), "C07:complete-guard")
		vx.Assert(vx.And(post.Present(), post.Int("state") == 8, post.Int("counter") == int64(counter), post.Null("process_id"),
			post.Int("completed_on") == vx.YieldTime(1), !post.Null("completed_on")), "C07:complete-effect")
		t := res.CompleteTask.Task
		vx.Assert(vx.And(t.Id == id, int64(t.State) == 8, t.Counter == counter, t.ProcessId == nil), "C07:complete-response")
		return
	}
	vx.Reach("refused")
	for i := 0; i < vx.NYields(); i++ {
		vx.Assert(vx.SameDB(vx.YieldPre(i), vx.YieldPost(i)), "C07:refused-completion-has-no-effect")
	}
	row := vx.Lookup(vx.YieldPre(0), "tasks", id)
	s := row.Int("state")
	want := vx.IteInt64(!row.Present(), int64(t_api.StatusTaskNotFound),
		vx.IteInt64(vx.Or(s == 8, s == 16), int64(t_api.StatusOK),
			vx.IteInt64(vx.Or(s == 1, s == 2), int64(t_api.StatusTaskInvalidState), int64(t_api.StatusTaskInvalidCounter))))
	vx.Assert(int64(st) == want, "C07:completion-refusal-status")
	vx.Assert(vx.Implies(int64(st) == int64(t_api.StatusTaskInvalidCounter), row.Int("counter") != int64(counter)), "C07:stale-counter-rejected")
}

func VH_T_Heartbeat() {
	c := vhSetup(vx.HavocMode | vx.Faults(vx.Opt("faults", 1)))
	pid := vx.String("processId")
	res, err := HeartbeatTasks(c, &t_api.Request{Kind: t_api.HeartbeatTasks, Tags: map[string]string{}, HeartbeatTasks: &t_api.HeartbeatTasksRequest{ProcessId: pid}})
	if err != nil {
		vx.Reach("error")
		return
	}
	vx.Reach("ok")
	t := vx.YieldTime(0)
	var n int64
	for k := 0; k < vx.NSlots("tasks"); k++ {
		a, b := vx.Slot(vx.YieldPre(0), "tasks", k), vx.Slot(vx.YieldPost(0), "tasks", k)
		mine := vx.And(a.Present(), !a.Null("process_id"), a.Str("process_id") == pid, a.Int("state") == 4)
		n += vhB2I(mine)
		vx.Assert(vx.Implies(mine, vx.And(b.Present(), b.Int("expires_at") == t+a.Int("ttl"), b.Int("state") == 4, b.Int("counter") == a.Int("counter"), b.Str("process_id") == pid)), "C07:heartbeat-extends-lease")
		vx.Assert(vx.Implies(!mine, vx.SameRow(a, b)), "C07:heartbeat-touches-only-own-claims")
	}
	vx.Assert(vx.And(res.HeartbeatTasks.Status == t_api.StatusOK, res.HeartbeatTasks.TasksAffected == n), "C07:heartbeat-count")
}

// VH_T_TimeoutSweep: the lease sweep takes a task away only if the lease (or the task's own
// timeout) had run out when the sweep read it and the row has not changed since.
func VH_T_TimeoutSweep() {
	c := vhSetup(vx.HavocMode | vx.Faults(vx.Opt("faults", 1)))
	cfg, _ := c.Get("config").(*system.Config)
	_, err := TimeoutTasks(cfg, map[string]string{})(c)
	vx.Assert(err == nil, "C11:sweep-returns")
	if vx.NYields() < 2 || vx.YieldFault(1) == "before" || vx.YieldFault(0) != "" {
		vx.Reach("no-write")
		return
	}
	vx.Reach("write")
	t0, t1 := vx.YieldTime(0), vx.YieldTime(1)
	for k := 0; k < vx.NSlots("tasks"); k++ {
		r := vx.Slot(vx.YieldPost(0), "tasks", k) // as read by the sweep
		a, b := vx.Slot(vx.YieldPre(1), "tasks", k), vx.Slot(vx.YieldPost(1), "tasks", k)
		changed := vx.Not(vx.SameRow(a, b))
		vx.Assert(vx.Implies(changed, vx.And(r.Present(), a.Present(), vx.Or(r.Int("state") == 2, r.Int("state") == 4),
			vx.Or(r.Int("expires_at") <= t0, r.Int("timeout") <= t0))), "C07:taken-only-after-lease-or-timeout-ran-out")
		vx.Assert(vx.Implies(changed, vx.And(a.Int("state") == r.Int("state"), a.Int("counter") == r.Int("counter"))), "C07:taken-only-if-unchanged-since-read")
		requeue := vx.And(b.Int("state") == 1, b.Int("counter") == a.Int("counter")+1, b.Int("attempt") == 0, b.Null("process_id"), t1 < r.Int("timeout"))
		timedout := vx.And(b.Int("state") == 16, b.Int("counter") == a.Int("counter"), b.Int("completed_on") == r.Int("timeout"), !(t1 < r.Int("timeout")))
		vx.Assert(vx.Implies(changed, vx.And(b.Present(), b.Str("id") == a.Str("id"), vx.Or(requeue, timedout))), "C07:reclaim-bumps-counter-or-times-out")
	}
}
