package main

// database/sql intercepts: the real store handlers run against the symbolic database.

import (
	"strings"
	"go/types"

	"golang.org/x/tools/go/ssa"
)

type sqlTx struct {
	snap   *SymDB
	done   bool
	faulty bool
	id     int
}

type sqlStmtObj struct {
	tx   *sqlTx
	st   *SQLStmt
	text string
}

type sqlRows struct {
	rs  *ResultSet
	n   int
	pos int // next row index; current = pos-1
}

type sqlRowObj struct {
	rs    *ResultSet
	err   bool
}

type Commit struct {
	pre, post *SymDB
	time      *Term
	owner     int // coroutine id that submitted it (0 = direct)
}

func (ex *Exec) opaquePtr(kind string, data interface{}) *PtrV {
	ex.nobj++
	return &PtrV{obj: ex.newObj(&OpaqueV{kind: kind, data: data, id: ex.nobj}, nil)}
}

func (ex *Exec) opaqueOf(v Value, kind string) *OpaqueV {
	switch x := v.(type) {
	case *PtrV:
		if x.obj == nil {
			panic(ex.goPanic("nil %s handle", kind))
		}
		if o, ok := x.obj.v.(*OpaqueV); ok && o.kind == kind {
			return o
		}
	case *OpaqueV:
		if x.kind == kind {
			return x
		}
	case *IfaceV:
		if x.typ != nil {
			return ex.opaqueOf(x.v, kind)
		}
	}
	panic(ex.unsupported("expected %s handle, got %s", kind, describe(v)))
}

func (ex *Exec) parseSQL(text string) *SQLStmt {
	if st, ok := ex.P.sqlCache.Load(text); ok {
		return st.(*SQLStmt)
	}
	st, err := ParseSQL(text)
	if err != nil {
		panic(ex.unsupported("SQL outside the supported subset: %v", err))
	}
	ex.P.sqlCache.Store(text, st)
	return st
}

func (ex *Exec) sqlText(v Value) string {
	t, ok := v.(*Term)
	if !ok {
		panic(ex.unsupported("SQL text is %T", v))
	}
	s, ok := t.StrVal()
	if !ok {
		panic(ex.unsupported("SQL text is not a constant: %s", t))
	}
	ex.H.noteSQL(s)
	return s
}

// sqlArg converts a Go argument the way database/sql's default converter does.
func (ex *Exec) sqlArg(v Value) (SVal, *MapObj) {
	tt := ex.tt
	f := tt.Bool(false)
	switch x := v.(type) {
	case *IfaceV:
		if x.typ == nil {
			return SVal{v: tt.BV(0, 64), null: tt.Bool(true)}, nil
		}
		// driver.Valuer implementations of database/sql: NullString / NullInt64 / NullInt32 / NullBool (value, Valid)
		if nt, ok := x.typ.(*types.Named); ok && nt.Obj().Pkg() != nil && nt.Obj().Pkg().Path() == "database/sql" && strings.HasPrefix(nt.Obj().Name(), "Null") {
			if sv, ok := x.v.(*StructV); ok && len(sv.fs) == 2 {
				if valid, ok := sv.fs[1].(*Term); ok && valid.sort == SBool {
					in, m := ex.sqlArg(sv.fs[0])
					in.null = tt.Or(in.null, tt.Not(valid))
					return in, m
				}
			}
		}
		return ex.sqlArg(x.v)
	case *Term:
		switch {
		case x.sort == SString:
			return SVal{v: x, null: f}, ex.W.marshalled[x.id]
		case x.sort == SBool:
			return SVal{v: tt.Ite(x, tt.BV(1, 64), tt.BV(0, 64)), null: f}, nil
		case x.sort.Width() > 0:
			return SVal{v: tt.Resize(x, 64, true), null: f}, nil
		}
	case *BytesV:
		return SVal{v: x.s, null: x.isNil}, ex.W.marshalled[x.s.id]
	case *SliceV:
		if x.len == 0 {
			return SVal{v: tt.Str(""), null: tt.Bool(x.arr == nil)}, nil
		}
	case *PtrV:
		if x.obj == nil {
			// typed nil pointer -> NULL (sort fixed up by coerceToCol)
			return SVal{v: tt.BV(0, 64), null: tt.Bool(true)}, nil
		}
		in, m := ex.sqlArg(ex.load(&PtrV{obj: x.obj, path: x.path}))
		if x.isNil != nil {
			in.null = tt.Or(x.isNil, in.null)
		}
		return in, m
	}
	panic(ex.unsupported("SQL argument of kind %s", describe(v)))
}

func (ex *Exec) sqlArgs(v Value) ([]SVal, map[int]*MapObj) {
	sl, ok := v.(*SliceV)
	if !ok {
		panic(ex.unsupported("variadic SQL args are %T", v))
	}
	var out []SVal
	maps := map[int]*MapObj{}
	for i := 0; i < sl.len; i++ {
		a, m := ex.sqlArg(sl.arr.v.(*ArrayV).es[sl.off+i])
		out = append(out, a)
		if m != nil {
			maps[i] = m
		}
	}
	return out, maps
}

// guardSQL runs f, converting sqlError panics into (ok=false, message).
func (ex *Exec) guardSQL(f func()) (msg string, failed bool) {
	defer func() {
		if r := recover(); r != nil {
			if se, ok := r.(*sqlError); ok {
				msg, failed = se.msg, true
				return
			}
			panic(r)
		}
	}()
	f()
	return "", false
}

// sqlFault: nondeterministic failure of one database/sql call (when enabled).
func (ex *Exec) sqlFault(what string) bool {
	w := ex.W
	if w.sqlFaults <= 0 {
		return false
	}
	if ex.choose(2, nil, "sqlfault:"+what) == 1 {
		w.sqlFaults--
		w.faultsTaken = append(w.faultsTaken, what)
		return true
	}
	return false
}

func (ex *Exec) sqlErrValue(msg string) Value {
	if len(msg) >= 13 && msg[:13] == "type-mismatch" {
		ex.H.violation(ex, "sql-type-mismatch", msg)
	}
	return ex.opaqueErr("sql: " + msg)
}

func (ex *Exec) checkTx(tx *sqlTx, what string) {
	if tx.done {
		ex.H.violation(ex, "tx-used-after-end", what+" on a finished transaction")
	}
	if ex.W.curTx != tx {
		ex.H.violation(ex, "tx-provenance", what+" on a transaction that is not the one opened by this Execute")
	}
}

func init() {
	intercepts["context.Background"] = func(ex *Exec, fr *Frame, args []Value, site ssa.Instruction) Value {
		return &IfaceV{typ: ex.P.errorStringType(), v: &OpaqueV{kind: "context"}}
	}
	intercepts["context.TODO"] = intercepts["context.Background"]
	intercepts["context.WithTimeout"] = func(ex *Exec, fr *Frame, args []Value, site ssa.Instruction) Value {
		return &TupleV{vs: []Value{args[0], &FuncV{intr: "noop"}}}
	}
	intercepts["context.WithCancel"] = func(ex *Exec, fr *Frame, args []Value, site ssa.Instruction) Value {
		return &TupleV{vs: []Value{args[0], &FuncV{intr: "noop"}}}
	}
	intercepts["noop"] = func(ex *Exec, fr *Frame, args []Value, site ssa.Instruction) Value { return nil }

	intercepts["(*database/sql.DB).BeginTx"] = func(ex *Exec, fr *Frame, args []Value, site ssa.Instruction) Value {
		ex.opaqueOf(args[0], "sql.DB")
		if ex.sqlFault("BeginTx") {
			return &TupleV{vs: []Value{&PtrV{}, ex.opaqueErr("sql: begin failed")}}
		}
		w := ex.W
		if w.db == nil {
			panic(ex.unsupported("BeginTx without a symbolic database (call vx.DB first)"))
		}
		tx := &sqlTx{snap: w.db.Clone()}
		w.curTx = tx
		w.txOpened++
		return &TupleV{vs: []Value{ex.opaquePtr("sql.Tx", tx), nilErr()}}
	}
	intercepts["(*database/sql.DB).Exec"] = func(ex *Exec, fr *Frame, args []Value, site ssa.Instruction) Value {
		// shutdown/reset: dropping the tables on the DB handle is recorded, not executed
		if q, ok := args[1].(*Term); ok {
			if qs, ok := q.StrVal(); ok && strings.HasPrefix(strings.TrimSpace(strings.ToUpper(qs)), "DROP TABLE") {
				ex.W.tablesDropped++
				if ex.choose(2, nil, "drop-fails") == 1 {
					return &TupleV{vs: []Value{&IfaceV{}, ex.opaqueErr("sql: drop failed")}}
				}
				return &TupleV{vs: []Value{&IfaceV{typ: ex.P.errorStringType(), v: &OpaqueV{kind: "sql.Result"}}, nilErr()}}
			}
		}
		// start-up: a constant script of idempotent schema statements (CREATE TABLE / INDEX IF NOT EXISTS) on the
		// handle is the schema set-up; it is recorded, may fail, and leaves the stored rows alone. A CREATE
		// without IF NOT EXISTS fails on every restart on the same database; a DROP inside it destroys data.
		if q, ok := args[1].(*Term); ok {
			if qs, ok := q.StrVal(); ok {
				creates, others := 0, 0
				for _, st := range strings.Split(stripSQLComments(qs), ";") {
					u := strings.Join(strings.Fields(strings.ToUpper(st)), " ")
					switch {
					case u == "":
					case strings.HasPrefix(u, "CREATE TABLE IF NOT EXISTS "), strings.HasPrefix(u, "CREATE INDEX IF NOT EXISTS "), strings.HasPrefix(u, "CREATE UNIQUE INDEX IF NOT EXISTS "):
						creates++
					case strings.HasPrefix(u, "CREATE TABLE "), strings.HasPrefix(u, "CREATE INDEX "), strings.HasPrefix(u, "CREATE UNIQUE INDEX "):
						creates++
						ex.W.schemaNotIdempotent++
					case strings.HasPrefix(u, "DROP TABLE"), strings.HasPrefix(u, "DELETE FROM"), strings.HasPrefix(u, "TRUNCATE"), strings.HasPrefix(u, "UPDATE "):
						ex.W.tablesDropped++
					case strings.HasPrefix(u, "INSERT INTO "):
						// bookkeeping rows (schema version) are fine when idempotent; rows in the five data tables are not
						t := strings.ToLower(strings.Trim(strings.Fields(u[len("INSERT INTO "):] + " x")[0], "("))
						if i := strings.Index(t, "("); i >= 0 {
							t = t[:i]
						}
						if t == "promises" || t == "callbacks" || t == "schedules" || t == "locks" || t == "tasks" {
							ex.W.tablesDropped++
						} else if !strings.Contains(u, "DO NOTHING") {
							ex.W.schemaNotIdempotent++
						}
					default:
						others++
					}
				}
				if creates > 0 && others == 0 {
					ex.W.schemaExecs++
					if ex.choose(2, nil, "schema-exec-fails") == 1 {
						return &TupleV{vs: []Value{&IfaceV{}, ex.opaqueErr("sql: schema set-up failed")}}
					}
					return &TupleV{vs: []Value{&IfaceV{typ: ex.P.errorStringType(), v: &OpaqueV{kind: "sql.Result"}}, nilErr()}}
				}
				if others > 0 && creates > 0 {
					panic(ex.unsupported("start-up script on the DB handle contains statements other than CREATE/DROP: %.80s", qs))
				}
			}
		}
		ex.H.violation(ex, "tx-provenance", "statement executed directly on the DB handle instead of the transaction")
		return &TupleV{vs: []Value{&IfaceV{}, ex.opaqueErr("sql: DB.Exec not modelled")}}
	}
	vx("SchemaExecs", func(ex *Exec, fr *Frame, a []Value, s ssa.Instruction) Value {
		return ex.tt.BV(uint64(ex.W.schemaExecs), 64)
	})
	vx("SchemaNotIdempotent", func(ex *Exec, fr *Frame, a []Value, s ssa.Instruction) Value {
		return ex.tt.BV(uint64(ex.W.schemaNotIdempotent), 64)
	})
	intercepts["(*database/sql.DB).Close"] = func(ex *Exec, fr *Frame, args []Value, site ssa.Instruction) Value {
		ex.W.dbClosed++
		return nilErr()
	}
	intercepts["os.Stat"] = func(ex *Exec, fr *Frame, args []Value, site ssa.Instruction) Value {
		ex.H.noteStub("os.Stat / os.Remove: fail or succeed; removals are recorded")
		if ex.choose(2, nil, "stat-fails") == 1 {
			return &TupleV{vs: []Value{&IfaceV{}, ex.opaqueErr("stat: no such file")}}
		}
		return &TupleV{vs: []Value{&IfaceV{typ: ex.P.errorStringType(), v: &OpaqueV{kind: "os.FileInfo"}}, nilErr()}}
	}
	intercepts["os.Remove"] = func(ex *Exec, fr *Frame, args []Value, site ssa.Instruction) Value {
		ex.W.removed = append(ex.W.removed, args[0].(*Term))
		if ex.choose(2, nil, "remove-fails") == 1 {
			return ex.opaqueErr("remove: failed")
		}
		return nilErr()
	}
	intercepts["(*database/sql.DB).Prepare"] = intercepts["(*database/sql.DB).Exec"]
	intercepts["(*database/sql.DB).Query"] = intercepts["(*database/sql.DB).Exec"]
	intercepts["(*database/sql.DB).QueryRow"] = func(ex *Exec, fr *Frame, args []Value, site ssa.Instruction) Value {
		ex.H.violation(ex, "tx-provenance", "query executed directly on the DB handle instead of the transaction")
		return ex.opaquePtr("sql.Row", &sqlRowObj{err: true})
	}
	intercepts["(*database/sql.Tx).Commit"] = func(ex *Exec, fr *Frame, args []Value, site ssa.Instruction) Value {
		tx := ex.opaqueOf(args[0], "sql.Tx").data.(*sqlTx)
		w := ex.W
		if tx.done {
			return ex.P.errTxDone()
		}
		tx.done = true
		if ex.sqlFault("Commit") {
			w.db = tx.snap
			// a failed COMMIT is a driver error, or - when the transaction's context expired and database/sql
			// already rolled it back in the background - the sentinel sql.ErrTxDone
			if ex.choose(2, nil, "commit-error-kind") == 1 {
				return ex.P.errTxDone()
			}
			return ex.opaqueErr("sql: commit failed")
		}
		w.commits = append(w.commits, &Commit{pre: tx.snap, post: w.db.Clone(), time: w.now, owner: w.curCoro})
		w.txCommitted++
		return nilErr()
	}
	intercepts["(*database/sql.Tx).Rollback"] = func(ex *Exec, fr *Frame, args []Value, site ssa.Instruction) Value {
		tx := ex.opaqueOf(args[0], "sql.Tx").data.(*sqlTx)
		w := ex.W
		if tx.done {
			return ex.P.errTxDone()
		}
		tx.done = true
		w.db = tx.snap
		w.txRolledBack++
		return nilErr()
	}
	intercepts["(*database/sql.Tx).Prepare"] = func(ex *Exec, fr *Frame, args []Value, site ssa.Instruction) Value {
		tx := ex.opaqueOf(args[0], "sql.Tx").data.(*sqlTx)
		ex.checkTx(tx, "Prepare")
		text := ex.sqlText(args[1])
		if ex.sqlFault("Prepare") {
			return &TupleV{vs: []Value{&PtrV{}, ex.opaqueErr("sql: prepare failed")}}
		}
		st := ex.parseSQL(text)
		return &TupleV{vs: []Value{ex.opaquePtr("sql.Stmt", &sqlStmtObj{tx: tx, st: st, text: text}), nilErr()}}
	}
	intercepts["(*database/sql.Stmt).Close"] = func(ex *Exec, fr *Frame, args []Value, site ssa.Instruction) Value {
		return nilErr()
	}
	execWrite := func(ex *Exec, tx *sqlTx, st *SQLStmt, argv Value) Value {
		ex.checkTx(tx, "Exec")
		if ex.sqlFault("Exec") {
			return &TupleV{vs: []Value{&IfaceV{}, ex.opaqueErr("sql: exec failed")}}
		}
		sargs, maps := ex.sqlArgs(argv)
		var affected *Term
		msg, failed := ex.guardSQL(func() { affected = ex.ExecWrite(ex.W.db, st, sargs, maps) })
		if failed {
			return &TupleV{vs: []Value{&IfaceV{}, ex.sqlErrValue(msg)}}
		}
		ex.W.stmtsRun++
		res := &IfaceV{typ: ex.P.errorStringType(), v: &OpaqueV{kind: "sqlresult", data: affected}}
		return &TupleV{vs: []Value{res, nilErr()}}
	}
	intercepts["(*database/sql.Stmt).Exec"] = func(ex *Exec, fr *Frame, args []Value, site ssa.Instruction) Value {
		so := ex.opaqueOf(args[0], "sql.Stmt").data.(*sqlStmtObj)
		return execWrite(ex, so.tx, so.st, args[1])
	}
	intercepts["(*database/sql.Tx).Exec"] = func(ex *Exec, fr *Frame, args []Value, site ssa.Instruction) Value {
		tx := ex.opaqueOf(args[0], "sql.Tx").data.(*sqlTx)
		st := ex.parseSQL(ex.sqlText(args[1]))
		return execWrite(ex, tx, st, args[2])
	}
	intercepts["opaque:sqlresult.RowsAffected"] = func(ex *Exec, fr *Frame, args []Value, site ssa.Instruction) Value {
		if ex.sqlFault("RowsAffected") {
			return &TupleV{vs: []Value{ex.tt.BV(0, 64), ex.opaqueErr("sql: rows affected failed")}}
		}
		return &TupleV{vs: []Value{args[0].(*OpaqueV).data.(*Term), nilErr()}}
	}
	intercepts["opaque:sqlresult.LastInsertId"] = func(ex *Exec, fr *Frame, args []Value, site ssa.Instruction) Value {
		panic(ex.unsupported("LastInsertId"))
	}
	intercepts["(*database/sql.Tx).Query"] = func(ex *Exec, fr *Frame, args []Value, site ssa.Instruction) Value {
		tx := ex.opaqueOf(args[0], "sql.Tx").data.(*sqlTx)
		ex.checkTx(tx, "Query")
		st := ex.parseSQL(ex.sqlText(args[1]))
		if ex.sqlFault("Query") {
			return &TupleV{vs: []Value{&PtrV{}, ex.opaqueErr("sql: query failed")}}
		}
		sargs, maps := ex.sqlArgs(args[2])
		var rs *ResultSet
		msg, failed := ex.guardSQL(func() { rs = ex.ExecQuery(ex.W.db, st, sargs, maps) })
		if failed {
			return &TupleV{vs: []Value{&PtrV{}, ex.sqlErrValue(msg)}}
		}
		ex.W.stmtsRun++
		// fork on the number of rows returned
		tt := ex.tt
		max := len(rs.ret)
		conds := make([]*Term, max+1)
		for k := 0; k <= max; k++ {
			conds[k] = tt.Eq(rs.count, tt.BV(uint64(k), 64))
		}
		n := ex.choose(max+1, conds, "rows")
		return &TupleV{vs: []Value{ex.opaquePtr("sql.Rows", &sqlRows{rs: rs, n: n}), nilErr()}}
	}
	intercepts["(*database/sql.Rows).Next"] = func(ex *Exec, fr *Frame, args []Value, site ssa.Instruction) Value {
		r := ex.opaqueOf(args[0], "sql.Rows").data.(*sqlRows)
		if r.pos < r.n {
			r.pos++
			return ex.tt.Bool(true)
		}
		return ex.tt.Bool(false)
	}
	intercepts["(*database/sql.Rows).Close"] = func(ex *Exec, fr *Frame, args []Value, site ssa.Instruction) Value { return nilErr() }
	intercepts["(*database/sql.Rows).Err"] = func(ex *Exec, fr *Frame, args []Value, site ssa.Instruction) Value { return nilErr() }
	intercepts["(*database/sql.Rows).Scan"] = func(ex *Exec, fr *Frame, args []Value, site ssa.Instruction) Value {
		r := ex.opaqueOf(args[0], "sql.Rows").data.(*sqlRows)
		if r.pos == 0 || r.pos > r.n {
			return ex.opaqueErr("sql: Scan called without calling Next")
		}
		if ex.sqlFault("Scan") {
			return ex.opaqueErr("sql: scan failed")
		}
		return ex.scanRow(r.rs.RowAt(ex, r.pos-1), args[1])
	}
	intercepts["(*database/sql.Tx).QueryRow"] = func(ex *Exec, fr *Frame, args []Value, site ssa.Instruction) Value {
		tx := ex.opaqueOf(args[0], "sql.Tx").data.(*sqlTx)
		ex.checkTx(tx, "QueryRow")
		st := ex.parseSQL(ex.sqlText(args[1]))
		if ex.sqlFault("QueryRow") {
			return ex.opaquePtr("sql.Row", &sqlRowObj{err: true})
		}
		sargs, maps := ex.sqlArgs(args[2])
		var rs *ResultSet
		msg, failed := ex.guardSQL(func() { rs = ex.ExecQuery(ex.W.db, st, sargs, maps) })
		if failed {
			ex.sqlErrValue(msg)
			return ex.opaquePtr("sql.Row", &sqlRowObj{err: true})
		}
		ex.W.stmtsRun++
		return ex.opaquePtr("sql.Row", &sqlRowObj{rs: rs})
	}
	intercepts["(*database/sql.Row).Scan"] = func(ex *Exec, fr *Frame, args []Value, site ssa.Instruction) Value {
		r := ex.opaqueOf(args[0], "sql.Row").data.(*sqlRowObj)
		if r.err {
			return ex.opaqueErr("sql: query failed")
		}
		tt := ex.tt
		if ex.branch(tt.Eq(r.rs.count, tt.BV(0, 64)), "norows") {
			return ex.P.errNoRows(ex)
		}
		if ex.sqlFault("Scan") {
			return ex.opaqueErr("sql: scan failed")
		}
		return ex.scanRow(r.rs.RowAt(ex, 0), args[1])
	}
}

// scanRow assigns column values to Scan destinations (a []any of pointers).
func (ex *Exec) scanRow(vals []SVal, destv Value) Value {
	tt := ex.tt
	dsts, ok := destv.(*SliceV)
	if !ok {
		panic(ex.unsupported("Scan destinations are %T", destv))
	}
	if dsts.len != len(vals) {
		return ex.opaqueErr("sql: expected destination arguments in Scan mismatch")
	}
	for i := 0; i < dsts.len; i++ {
		iv, ok := dsts.arr.v.(*ArrayV).es[dsts.off+i].(*IfaceV)
		if !ok || iv.typ == nil {
			return ex.opaqueErr("sql: Scan destination not a pointer")
		}
		pt, ok := iv.typ.Underlying().(*types.Pointer)
		if !ok {
			return ex.opaqueErr("sql: Scan destination not a pointer")
		}
		p := ex.ptr(iv.v)
		v := vals[i]
		conv := func(t types.Type, nullable bool) (Value, bool) {
			switch u := t.Underlying().(type) {
			case *types.Basic:
				switch {
				case u.Info()&types.IsString != 0:
					if v.v.sort != SString {
						panic(ex.unsupported("Scan of integer column into string"))
					}
					return v.v, true
				case u.Info()&types.IsInteger != 0:
					if v.v.sort != SBV64 {
						panic(ex.unsupported("Scan of text column into integer"))
					}
					w, _ := intWidth(u)
					return tt.Resize(v.v, w, true), true
				case u.Info()&types.IsBoolean != 0:
					return tt.Not(tt.Eq(v.v, tt.BV(0, 64))), true
				}
			case *types.Slice:
				if isByteSlice(t) {
					if v.v.sort != SString {
						panic(ex.unsupported("Scan of integer column into bytes"))
					}
					return &BytesV{isNil: v.null, s: v.v}, true
				}
			}
			return nil, false
		}
		et := pt.Elem()
		if inner, isPtr := et.Underlying().(*types.Pointer); isPtr {
			cv, ok := conv(inner.Elem(), true)
			if !ok {
				panic(ex.unsupported("Scan into %s", et))
			}
			if v.null.IsTrue() {
				ex.store(p, &PtrV{typ: et})
			} else {
				np := &PtrV{obj: ex.newObj(cv, inner.Elem()), typ: et}
				if !v.null.IsFalse() {
					np.isNil = v.null
				}
				ex.store(p, np)
			}
			continue
		}
		cv, ok := conv(et, false)
		if !ok {
			panic(ex.unsupported("Scan into %s", et))
		}
		if !isByteSlice(et) {
			if ex.branch(v.null, "scan-null") {
				return ex.opaqueErr("sql: Scan error: converting NULL to non-pointer destination")
			}
		}
		ex.store(p, cv)
	}
	return nilErr()
}

func stripSQLComments(q string) string {
	var b strings.Builder
	for _, ln := range strings.Split(q, "\n") {
		if i := strings.Index(ln, "--"); i >= 0 {
			ln = ln[:i]
		}
		b.WriteString(ln)
		b.WriteString("\n")
	}
	return b.String()
}
