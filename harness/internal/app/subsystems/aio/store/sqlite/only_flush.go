package sqlite

// C12 / C11: a tick's flush reaches the store worker (see the Postgres twin for the multi-worker case).

import (
	"github.com/resonatehq/resonate/internal/vx"
)

func VH_ST_Flush() {
	w := &SqliteStoreWorker{config: &Config{}, flush: make(chan int64, 1)}
	if vx.Choose(2) == 1 {
		w.flush <- 0
	}
	s := &SqliteStore{config: w.config, worker: w}
	s.Flush(vx.Int64("t"))
	vx.Assert(len(w.flush) == 1, "C12:flush-reaches-every-store-worker")
	vx.Reach("done")
}
