package main

// Path-forking symbolic interpreter for go/ssa.

import (
	"fmt"
	"go/constant"
	"go/token"
	"go/types"
	"strings"

	"golang.org/x/tools/go/ssa"
)

type pathEnd struct {
	kind string // "gopanic" | "unsupported" | "pruned" | "unwind" | "unknown"
	msg  string
	pos  string
}

func (p *pathEnd) Error() string { return p.kind + ": " + p.msg + " @" + p.pos }

type deferred struct {
	fn   Value
	args []Value
	call *ssa.CallCommon
}

type Frame struct {
	fn     *ssa.Function
	locals map[ssa.Value]Value
	caps   []Value
	defers []deferred
	parent *Frame
	site   ssa.Instruction
}

type Exec struct {
	P    *Program
	H    *HarnessRun
	tt   *TermTable
	sol  *Solver
	pc   []*Term
	pre  []int // decision prefix to follow
	dpos int
	dec  []int // decisions taken on this path
	alts [][]int
	violated bool // a violation was recorded on this path (its negation was then assumed)
	nobj int
	cur  ssa.Instruction
	steps int
	depth int
	globals map[*ssa.Global]*Obj
	inited  map[*ssa.Package]bool
	trace   []string // human-readable decision trace
	W     *World // symbolic environment (db, coroutine mode, ...)
	pcAsserted int
	npinned    int
	inputs []namedInput // harness inputs in creation order (for replay files)
}

type namedInput struct {
	name string
	kind string
	t    *Term
}

func (ex *Exec) posStr() string {
	if ex.cur == nil {
		return "?"
	}
	p := ex.P.fset.Position(ex.cur.Pos())
	fn := ""
	if ex.cur.Parent() != nil {
		fn = ex.cur.Parent().String()
	}
	if !p.IsValid() {
		return fn
	}
	return fmt.Sprintf("%s:%d (%s)", p.Filename, p.Line, fn)
}

func (ex *Exec) unsupported(f string, a ...interface{}) *pathEnd {
	return &pathEnd{kind: "unsupported", msg: fmt.Sprintf(f, a...), pos: ex.posStr()}
}
func (ex *Exec) goPanic(f string, a ...interface{}) *pathEnd {
	return &pathEnd{kind: "gopanic", msg: fmt.Sprintf(f, a...), pos: ex.posStr()}
}

// ---------------------------------------------------------------- solver glue

func (ex *Exec) syncPC() {
	for ex.npinned < len(ex.tt.pinned) {
		ex.pc = append(ex.pc, ex.tt.pinned[ex.npinned])
		ex.npinned++
	}
	for ex.pcAsserted < len(ex.pc) {
		ex.sol.Assert(ex.pc[ex.pcAsserted])
		ex.pcAsserted++
	}
}

// sat reports whether PC ∧ extra is satisfiable ("sat","unsat","unknown").
func (ex *Exec) sat(extra *Term) string {
	if extra != nil && extra.IsFalse() {
		return "unsat"
	}
	ex.syncPC()
	r, _ := ex.sol.CheckWith(extra, nil)
	if r == "unknown" {
		r = ex.H.fallbackCheck(ex, extra)
	}
	return r
}

func (ex *Exec) addPC(t *Term) {
	if t.IsTrue() {
		return
	}
	ex.pc = append(ex.pc, t)
}

// branch decides a symbolic condition, forking when both outcomes are feasible.
func (ex *Exec) branch(c *Term, what string) bool {
	if c.IsTrue() {
		return true
	}
	if c.IsFalse() {
		return false
	}
	tt := ex.tt
	if ex.dpos < len(ex.pre) {
		d := ex.pre[ex.dpos]
		ex.dpos++
		ex.dec = append(ex.dec, d)
		if d == 1 {
			ex.addPC(c)
		} else {
			ex.addPC(tt.Not(c))
		}
		ex.trace = append(ex.trace, fmt.Sprintf("%s=%d", what, d))
		return d == 1
	}
	ex.sol.what = "branch " + what
	rt := ex.sat(c)
	rf := "sat" // the path condition is feasible, so if c is impossible its negation is possible
	if rt != "unsat" {
		rf = ex.sat(tt.Not(c))
	}
	if rt == "unknown" || rf == "unknown" {
		ex.H.noteUnknown(ex, "branch "+what)
		// keep both as possibly feasible
		if rt == "unknown" {
			rt = "sat"
		}
		if rf == "unknown" {
			rf = "sat"
		}
	}
	if rt == "unsat" && rf == "unsat" {
		panic(&pathEnd{kind: "pruned", msg: "infeasible path condition", pos: ex.posStr()})
	}
	d := 1
	if rt == "unsat" {
		d = 0
	} else if rf == "sat" {
		alt := append(append([]int{}, ex.dec...), 0)
		ex.alts = append(ex.alts, alt)
	}
	ex.dpos++
	ex.dec = append(ex.dec, d)
	if d == 1 {
		ex.addPC(c)
	} else {
		ex.addPC(tt.Not(c))
	}
	ex.trace = append(ex.trace, fmt.Sprintf("%s=%d", what, d))
	return d == 1
}

// choose picks among n alternatives guarded by conds[i] (nil = true).
func (ex *Exec) choose(n int, conds []*Term, what string) int {
	tt := ex.tt
	cond := func(i int) *Term {
		if conds == nil || conds[i] == nil {
			return tt.Bool(true)
		}
		return conds[i]
	}
	if ex.dpos < len(ex.pre) {
		d := ex.pre[ex.dpos]
		ex.dpos++
		ex.dec = append(ex.dec, d)
		ex.addPC(cond(d))
		ex.trace = append(ex.trace, fmt.Sprintf("%s=%d", what, d))
		return d
	}
	first := -1
	for i := 0; i < n; i++ {
		c := cond(i)
		if c.IsFalse() {
			continue
		}
		r := "sat" // an alternative without a condition is feasible because the path condition is
		if !c.IsTrue() {
			r = ex.sat(c)
		}
		if r == "unknown" {
			ex.H.noteUnknown(ex, "choose "+what)
			r = "sat"
		}
		if r != "sat" {
			continue
		}
		if first < 0 {
			first = i
		} else {
			alt := append(append([]int{}, ex.dec...), i)
			ex.alts = append(ex.alts, alt)
		}
	}
	if first < 0 {
		panic(&pathEnd{kind: "pruned", msg: "no feasible alternative for " + what, pos: ex.posStr()})
	}
	ex.dpos++
	ex.dec = append(ex.dec, first)
	ex.addPC(cond(first))
	ex.trace = append(ex.trace, fmt.Sprintf("%s=%d", what, first))
	return first
}

// ---------------------------------------------------------------- operands

func (ex *Exec) constVal(c *ssa.Const) Value {
	tt := ex.tt
	t := c.Type()
	if c.Value == nil {
		return ex.zero(t)
	}
	if tp, ok := t.(*types.TypeParam); ok {
		_ = tp
		panic(ex.unsupported("const of type param"))
	}
	b, ok := t.Underlying().(*types.Basic)
	if !ok {
		panic(ex.unsupported("const of type %s", t))
	}
	switch {
	case b.Info()&types.IsBoolean != 0:
		return tt.Bool(constant.BoolVal(c.Value))
	case b.Info()&types.IsString != 0:
		return tt.Str(constant.StringVal(c.Value))
	case b.Info()&types.IsInteger != 0:
		w, _ := intWidth(b)
		if v, ok := constant.Int64Val(constant.ToInt(c.Value)); ok {
			return tt.BV(uint64(v), w)
		}
		v, _ := constant.Uint64Val(constant.ToInt(c.Value))
		return tt.BV(v, w)
	case b.Info()&types.IsFloat != 0:
		f, _ := constant.Float64Val(c.Value)
		return &OpaqueV{kind: "float", data: f}
	}
	panic(ex.unsupported("const %s", c))
}

func (ex *Exec) get(fr *Frame, v ssa.Value) Value {
	switch x := v.(type) {
	case *ssa.Const:
		return ex.constVal(x)
	case *ssa.Function:
		return &FuncV{fn: x}
	case *ssa.Global:
		return &PtrV{obj: ex.global(x)}
	case *ssa.Builtin:
		return &FuncV{intr: "builtin:" + x.Name()}
	case *ssa.FreeVar:
		for i, fv := range fr.fn.FreeVars {
			if fv == x {
				return fr.caps[i]
			}
		}
		panic(ex.unsupported("freevar not found"))
	}
	r, ok := fr.locals[v]
	if !ok {
		panic(ex.unsupported("unbound ssa value %s (%T) in %s", v.Name(), v, fr.fn))
	}
	return r
}

func (ex *Exec) global(g *ssa.Global) *Obj {
	if o, ok := ex.globals[g]; ok {
		return o
	}
	et := g.Type().(*types.Pointer).Elem()
	o := ex.newObj(nil, et)
	ex.globals[g] = o
	if v, ok := ex.externGlobal(g, et); ok {
		o.v = v
		return o
	}
	o.v = ex.zero(et)
	// run the package initializer lazily for packages with bodies
	pkg := g.Pkg
	if pkg != nil && !ex.inited[pkg] {
		ex.inited[pkg] = true
		if init := pkg.Func("init"); init != nil && init.Blocks != nil && ex.P.isRepoPkg(pkg.Pkg.Path()) {
			saved := ex.cur
			ex.runFunc(init, nil, nil, nil)
			ex.cur = saved
		}
	}
	return o
}

// ---------------------------------------------------------------- calls

type InterceptFn func(ex *Exec, fr *Frame, args []Value, site ssa.Instruction) Value

func funcName(fn *ssa.Function) string {
	if o := fn.Origin(); o != nil {
		return o.String()
	}
	return fn.String()
}

func (ex *Exec) callValue(fr *Frame, fv Value, args []Value, site ssa.Instruction) Value {
	f, ok := fv.(*FuncV)
	if !ok {
		panic(ex.unsupported("call of non-function %T", fv))
	}
	if f.intr != "" {
		ic, ok := intercepts[f.intr]
		if !ok {
			panic(ex.unsupported("no rule for intrinsic %s", f.intr))
		}
		if f.recv != nil {
			args = append([]Value{f.recv}, args...)
		}
		return ic(ex, fr, args, site)
	}
	if f.fn == nil {
		panic(ex.goPanic("call of nil function"))
	}
	return ex.callFunc(fr, f.fn, args, f.caps, site)
}

func (ex *Exec) callFunc(fr *Frame, fn *ssa.Function, args []Value, caps []Value, site ssa.Instruction) Value {
	name := funcName(fn)
	if ic, ok := intercepts[name]; ok {
		return ic(ex, fr, args, site)
	}
	if fn.Name() == "init" && fn.Signature.Recv() == nil && len(args) == 0 {
		return nil // dependency initializers are run lazily
	}
	if strings.HasPrefix(fn.Name(), "file_") && strings.HasSuffix(fn.Name(), "_proto_init") && len(args) == 0 {
		ex.H.noteStub("protobuf descriptor registration (generated file_*_proto_init) skipped")
		return nil
	}
	if fn.Blocks == nil {
		// generic catch-alls by package
		if ic := packageIntercept(fn); ic != nil {
			return ic(ex, fr, args, site)
		}
		panic(ex.unsupported("external function without rule: %s", name))
	}
	return ex.runFunc(fn, args, caps, site)
}

const maxDepth = 60

func (ex *Exec) runFunc(fn *ssa.Function, args []Value, caps []Value, site ssa.Instruction) (ret Value) {
	ex.depth++
	if ex.depth > maxDepth {
		panic(&pathEnd{kind: "unwind", msg: "call depth limit in " + fn.String(), pos: ex.posStr()})
	}
	defer func() { ex.depth-- }()
	if isCoroFunc(fn) && fn.Parent() == nil {
		name := fn.String()
		if ex.W.entered[name] > 0 && ex.W.mode&modeHavoc != 0 && ex.W.entered[name] > ex.H.opts["retries"] {
			// tail-recursive retry from a state that is again arbitrary: subsumed by the harness entry state
			ex.W.cuts++
			// the cut is a progress argument: a retry caused by a lost race means somebody else got further. A retry
			// that follows a FAILED submission of this run is different: under a persistent failure (read succeeds,
			// write keeps failing) it never ends and the request is never answered (C12: subsystem failure is
			// answered with an explicit error).
			if ex.H.wants("C12:retry-only-after-a-lost-race") {
				for _, y := range ex.W.yields {
					if y.fault != "" || y.outcome == "error" {
						ex.H.violation(ex, "C12:retry-only-after-a-lost-race", "the request is retried after a "+y.kind+" submission failed: with a persistent failure it is never answered")
						break
					}
				}
			}
			panic(&pathEnd{kind: "cut", msg: "retry of " + fn.Name() + " subsumed by the entry state", pos: ex.posStr()})
		}
		ex.W.entered[name]++
		defer func() { ex.W.entered[name]-- }()
	}
	ex.W.funcs[fn.String()] = true
	fr := &Frame{fn: fn, locals: make(map[ssa.Value]Value, 64), caps: caps, site: site}
	if len(args) != len(fn.Params) {
		panic(ex.unsupported("arity mismatch calling %s: %d vs %d", fn, len(args), len(fn.Params)))
	}
	for i, p := range fn.Params {
		fr.locals[p] = args[i]
	}
	// Go panics propagate through deferred calls (no recover support needed for the encoded code)
	block := fn.Blocks[0]
	var prev *ssa.BasicBlock
	visits := map[*ssa.BasicBlock]int{}
	for {
		visits[block]++
		if visits[block] > ex.H.unwind {
			panic(&pathEnd{kind: "unwind", msg: fmt.Sprintf("loop unwinding limit %d in %s", ex.H.unwind, fn), pos: ex.posStr()})
		}
		// phis first (parallel assignment)
		var phiVals []Value
		nphi := 0
		for _, ins := range block.Instrs {
			phi, ok := ins.(*ssa.Phi)
			if !ok {
				break
			}
			nphi++
			idx := -1
			for i, p := range block.Preds {
				if p == prev {
					idx = i
					break
				}
			}
			if idx < 0 {
				panic(ex.unsupported("phi without pred"))
			}
			phiVals = append(phiVals, ex.get(fr, phi.Edges[idx]))
		}
		for i := 0; i < nphi; i++ {
			fr.locals[block.Instrs[i].(*ssa.Phi)] = phiVals[i]
		}
		var next *ssa.BasicBlock
		for _, ins := range block.Instrs[nphi:] {
			ex.cur = ins
			ex.steps++
			if ex.steps > ex.H.maxSteps {
				panic(&pathEnd{kind: "unwind", msg: "step limit", pos: ex.posStr()})
			}
			switch x := ins.(type) {
			case *ssa.If:
				c := ex.get(fr, x.Cond).(*Term)
				if ex.branch(c, "if@"+ex.shortPos()) {
					next = block.Succs[0]
				} else {
					next = block.Succs[1]
				}
			case *ssa.Jump:
				next = block.Succs[0]
			case *ssa.Return:
				var r Value
				switch len(x.Results) {
				case 0:
					r = nil
				case 1:
					r = ex.get(fr, x.Results[0])
				default:
					tv := &TupleV{}
					for _, rv := range x.Results {
						tv.vs = append(tv.vs, ex.get(fr, rv))
					}
					r = tv
				}
				return r
			case *ssa.Panic:
				v := ex.get(fr, x.X)
				panic(ex.goPanic("panic(%s)", ex.panicText(v)))
			default:
				ex.step(fr, ins)
			}
		}
		if next == nil {
			panic(ex.unsupported("block without terminator"))
		}
		prev, block = block, next
	}
}

func (ex *Exec) shortPos() string {
	if ex.cur == nil {
		return "?"
	}
	p := ex.P.fset.Position(ex.cur.Pos())
	if !p.IsValid() {
		if ex.cur.Parent() != nil {
			return ex.cur.Parent().Name()
		}
		return "?"
	}
	fn := p.Filename
	if i := strings.LastIndexByte(fn, '/'); i >= 0 {
		fn = fn[i+1:]
	}
	return fmt.Sprintf("%s:%d", fn, p.Line)
}

func (ex *Exec) panicText(v Value) string {
	if iv, ok := v.(*IfaceV); ok && iv.typ != nil {
		if t, ok := iv.v.(*Term); ok {
			if s, ok := t.StrVal(); ok {
				return s
			}
		}
		return describe(iv.v)
	}
	return describe(v)
}

func (ex *Exec) runDefers(fr *Frame) {
	for len(fr.defers) > 0 {
		d := fr.defers[len(fr.defers)-1]
		fr.defers = fr.defers[:len(fr.defers)-1]
		ex.invoke(fr, d.call, d.fn, d.args, nil)
	}
}

// invoke performs a call described by cc with pre-evaluated fn value and args.
func (ex *Exec) invoke(fr *Frame, cc *ssa.CallCommon, fv Value, args []Value, site ssa.Instruction) Value {
	if cc.IsInvoke() {
		recv := fv
		return ex.invokeMethod(fr, recv, cc.Method, args, site)
	}
	return ex.callValue(fr, fv, args, site)
}

func (ex *Exec) invokeMethod(fr *Frame, recv Value, m *types.Func, args []Value, site ssa.Instruction) Value {
	iv, ok := recv.(*IfaceV)
	if !ok {
		panic(ex.unsupported("invoke on %T", recv))
	}
	if iv.typ == nil {
		panic(ex.goPanic("nil interface method call %s", m.Name()))
	}
	if op, ok := iv.v.(*OpaqueV); ok {
		if op.kind == "dummy" || op.kind == "context" {
			return ex.dummySig(m.Type().(*types.Signature))
		}
		name := "opaque:" + op.kind + "." + m.Name()
		if ic, ok := intercepts[name]; ok {
			return ic(ex, fr, append([]Value{op}, args...), site)
		}
		panic(ex.unsupported("no rule for %s", name))
	}
	ms := ex.P.prog.MethodSets.MethodSet(iv.typ)
	sel := ms.Lookup(m.Pkg(), m.Name())
	if sel == nil {
		panic(ex.unsupported("method %s not found on %s", m.Name(), iv.typ))
	}
	fn := ex.P.prog.MethodValue(sel)
	if fn == nil {
		panic(ex.unsupported("no method value %s on %s", m.Name(), iv.typ))
	}
	return ex.callFunc(fr, fn, append([]Value{iv.v}, args...), nil, site)
}

func (ex *Exec) evalCall(fr *Frame, cc *ssa.CallCommon) (Value, []Value) {
	fv := ex.get(fr, cc.Value)
	args := make([]Value, len(cc.Args))
	for i, a := range cc.Args {
		args[i] = ex.get(fr, a)
	}
	return fv, args
}

// ---------------------------------------------------------------- instructions

func (ex *Exec) step(fr *Frame, ins ssa.Instruction) {
	tt := ex.tt
	switch x := ins.(type) {
	case *ssa.DebugRef:
	case *ssa.Alloc:
		et := x.Type().(*types.Pointer).Elem()
		fr.locals[x] = &PtrV{obj: ex.newObj(ex.zero(et), et), typ: x.Type()}
	case *ssa.Store:
		p := ex.ptr(ex.get(fr, x.Addr))
		ex.store(p, ex.get(fr, x.Val))
	case *ssa.UnOp:
		fr.locals[x] = ex.unop(fr, x)
	case *ssa.BinOp:
		fr.locals[x] = ex.binop(x.Op, ex.get(fr, x.X), ex.get(fr, x.Y), x.X.Type(), x.Y.Type())
	case *ssa.Call:
		fv, args := ex.evalCall(fr, &x.Call)
		r := ex.invoke(fr, &x.Call, fv, args, x)
		ex.cur = ins
		fr.locals[x] = r
	case *ssa.Defer:
		fv, args := ex.evalCall(fr, &x.Call)
		fr.defers = append(fr.defers, deferred{fn: fv, args: args, call: &x.Call})
	case *ssa.RunDefers:
		ex.runDefers(fr)
	case *ssa.Go:
		// goroutines are not modelled; a harness may declare that the goroutines started by the code
		// under test are irrelevant to the obligation (metrics/await helpers) with vx.IgnoreGo()
		if !ex.W.ignoreGo {
			panic(ex.unsupported("go statement"))
		}
		ex.W.goSkipped++
		// the launch itself is recorded (which function, on which receiver / first argument), so that a wiring
		// harness can state "every constructed worker is started exactly once"
		ge := goLaunch{}
		if x.Call.IsInvoke() {
			ge.name = x.Call.Method.Name()
			ge.recv = ex.get(fr, x.Call.Value)
		} else {
			if callee := x.Call.StaticCallee(); callee != nil {
				ge.name = callee.Name()
			} else {
				ge.name = "closure"
				if mc, ok := x.Call.Value.(*ssa.MakeClosure); ok {
					ge.name = mc.Fn.Name()
				}
			}
			if len(x.Call.Args) > 0 {
				ge.recv = ex.get(fr, x.Call.Args[0])
			}
		}
		ex.W.goLog = append(ex.W.goLog, ge)
	case *ssa.ChangeInterface:
		fr.locals[x] = ex.get(fr, x.X)
	case *ssa.ChangeType:
		fr.locals[x] = ex.get(fr, x.X)
	case *ssa.Convert:
		fr.locals[x] = ex.convert(ex.get(fr, x.X), x.X.Type(), x.Type())
	case *ssa.Extract:
		fr.locals[x] = ex.get(fr, x.Tuple).(*TupleV).vs[x.Index]
	case *ssa.Field:
		fr.locals[x] = copyVal(ex.get(fr, x.X).(*StructV).fs[x.Field])
	case *ssa.FieldAddr:
		p := ex.ptr(ex.get(fr, x.X))
		fr.locals[x] = &PtrV{obj: p.obj, path: extendPath(p.path, x.Field), typ: x.Type()}
	case *ssa.Index:
		fr.locals[x] = ex.index(fr, x)
	case *ssa.IndexAddr:
		fr.locals[x] = ex.indexAddr(fr, x)
	case *ssa.Lookup:
		fr.locals[x] = ex.lookup(fr, x)
	case *ssa.MakeClosure:
		caps := make([]Value, len(x.Bindings))
		for i, b := range x.Bindings {
			caps[i] = ex.get(fr, b)
		}
		fr.locals[x] = &FuncV{fn: x.Fn.(*ssa.Function), caps: caps}
	case *ssa.MakeInterface:
		fr.locals[x] = &IfaceV{typ: x.X.Type(), v: ex.get(fr, x.X)}
	case *ssa.MakeMap:
		fr.locals[x] = ex.makeMap(x.Type())
	case *ssa.MakeSlice:
		fr.locals[x] = ex.makeSlice(fr, x)
	case *ssa.MakeChan:
		sz := ex.get(fr, x.Size).(*Term)
		n, ok := sz.BVVal()
		if !ok {
			panic(ex.unsupported("symbolic chan size"))
		}
		fr.locals[x] = &OpaqueV{kind: "chan", data: &ChanObj{cap: int(n)}}
	case *ssa.MapUpdate:
		ex.mapUpdate(ex.get(fr, x.Map), ex.get(fr, x.Key), ex.get(fr, x.Value))
	case *ssa.Range:
		fr.locals[x] = ex.rangeInit(ex.get(fr, x.X))
	case *ssa.Next:
		fr.locals[x] = ex.rangeNext(ex.get(fr, x.Iter), x)
	case *ssa.Slice:
		fr.locals[x] = ex.sliceOp(fr, x)
	case *ssa.TypeAssert:
		fr.locals[x] = ex.typeAssert(ex.get(fr, x.X), x)
	case *ssa.Select:
		fr.locals[x] = ex.selectOp(fr, x)
	case *ssa.Send:
		ex.chanSend(ex.get(fr, x.Chan), ex.get(fr, x.X), true)
	default:
		panic(ex.unsupported("instruction %T", ins))
	}
	_ = tt
}

// ptr normalises a pointer operand, handling nil and symbolic-nil pointers.
func (ex *Exec) ptr(v Value) *PtrV {
	p, ok := v.(*PtrV)
	if !ok {
		panic(ex.unsupported("pointer operand is %T", v))
	}
	if p.obj == nil {
		panic(ex.goPanic("nil pointer dereference"))
	}
	if p.isNil != nil {
		if ex.branch(p.isNil, "nilptr@"+ex.shortPos()) {
			panic(ex.goPanic("nil pointer dereference (nullable value)"))
		}
		return &PtrV{obj: p.obj, path: p.path, typ: p.typ}
	}
	return p
}

func (ex *Exec) unop(fr *Frame, x *ssa.UnOp) Value {
	tt := ex.tt
	v := ex.get(fr, x.X)
	switch x.Op {
	case token.MUL:
		return ex.load(ex.ptr(v))
	case token.NOT:
		return tt.Not(v.(*Term))
	case token.SUB:
		return tt.BVNeg(v.(*Term))
	case token.XOR:
		return tt.BVNot(v.(*Term))
	case token.ARROW:
		r, ok := ex.chanRecv(v, true)
		if x.CommaOk {
			return &TupleV{vs: []Value{r, tt.Bool(ok)}}
		}
		return r
	}
	panic(ex.unsupported("unop %s", x.Op))
}

func isSigned(t types.Type) bool {
	if b, ok := t.Underlying().(*types.Basic); ok {
		_, s := intWidth(b)
		return s
	}
	return true
}

func (ex *Exec) binop(op token.Token, a, b Value, at, bt types.Type) Value {
	tt := ex.tt
	switch op {
	case token.EQL:
		return ex.eqValues(a, b)
	case token.NEQ:
		return tt.Not(ex.eqValues(a, b))
	}
	x, ok1 := a.(*Term)
	y, ok2 := b.(*Term)
	if !ok1 || !ok2 {
		panic(ex.unsupported("binop %s on %T,%T", op, a, b))
	}
	if x.sort == SString {
		switch op {
		case token.ADD:
			return tt.Concat(x, y)
		case token.LSS:
			return tt.StrLt(x, y)
		case token.GTR:
			return tt.StrLt(y, x)
		case token.LEQ:
			return tt.Not(tt.StrLt(y, x))
		case token.GEQ:
			return tt.Not(tt.StrLt(x, y))
		}
		panic(ex.unsupported("string binop %s", op))
	}
	if x.sort == SBool {
		switch op {
		case token.AND, token.LAND:
			return tt.And(x, y)
		case token.OR, token.LOR:
			return tt.Or(x, y)
		}
		panic(ex.unsupported("bool binop %s", op))
	}
	signed := isSigned(at)
	if op == token.SHL || op == token.SHR {
		y = tt.Resize(y, x.sort.Width(), false)
		if op == token.SHL {
			return tt.bin("bvshl", x, y)
		}
		if signed {
			return tt.bin("bvashr", x, y)
		}
		return tt.bin("bvlshr", x, y)
	}
	if x.sort != y.sort {
		panic(ex.unsupported("binop %s width mismatch %s %s", op, x.sort, y.sort))
	}
	switch op {
	case token.ADD:
		return tt.bin("bvadd", x, y)
	case token.SUB:
		return tt.bin("bvsub", x, y)
	case token.MUL:
		return tt.bin("bvmul", x, y)
	case token.QUO, token.REM:
		z := tt.Eq(y, tt.BV(0, y.sort.Width()))
		if ex.branch(z, "divzero@"+ex.shortPos()) {
			panic(ex.goPanic("integer divide by zero"))
		}
		n := map[bool]map[token.Token]string{true: {token.QUO: "bvsdiv", token.REM: "bvsrem"}, false: {token.QUO: "bvudiv", token.REM: "bvurem"}}[signed][op]
		return tt.bin(n, x, y)
	case token.AND:
		return tt.bin("bvand", x, y)
	case token.OR:
		return tt.bin("bvor", x, y)
	case token.XOR:
		return tt.bin("bvxor", x, y)
	case token.AND_NOT:
		return tt.bin("bvand", x, tt.BVNot(y))
	case token.LSS:
		if signed {
			return tt.Cmp("bvslt", x, y)
		}
		return tt.Cmp("bvult", x, y)
	case token.LEQ:
		if signed {
			return tt.Cmp("bvsle", x, y)
		}
		return tt.Cmp("bvule", x, y)
	case token.GTR:
		if signed {
			return tt.Cmp("bvslt", y, x)
		}
		return tt.Cmp("bvult", y, x)
	case token.GEQ:
		if signed {
			return tt.Cmp("bvsle", y, x)
		}
		return tt.Cmp("bvule", y, x)
	}
	panic(ex.unsupported("binop %s", op))
}

// eqValues builds the Bool term for Go's == on two values.
func (ex *Exec) eqValues(a, b Value) *Term {
	tt := ex.tt
	switch x := a.(type) {
	case nil:
		return ex.isNilValue(b)
	case *Term:
		if y, ok := b.(*Term); ok {
			return tt.Eq(x, y)
		}
	case *PtrV:
		y, ok := b.(*PtrV)
		if !ok {
			break
		}
		xn, yn := ex.isNilValue(x), ex.isNilValue(y)
		same := tt.Bool(x.obj != nil && y.obj != nil && x.obj == y.obj && pathEq(x.path, y.path))
		return tt.Or(tt.And(xn, yn), tt.And(tt.Not(xn), tt.Not(yn), same))
	case *IfaceV:
		y, ok := b.(*IfaceV)
		if !ok {
			break
		}
		if x.typ == nil || y.typ == nil {
			return tt.Bool(x.typ == nil && y.typ == nil)
		}
		if !types.Identical(x.typ, y.typ) {
			return tt.Bool(false)
		}
		return ex.eqValues(x.v, y.v)
	case *OpaqueV:
		if y, ok := b.(*OpaqueV); ok {
			return tt.Bool(x == y || (x.kind == y.kind && x.id != 0 && x.id == y.id))
		}
	case *SliceV:
		if y, ok := b.(*SliceV); ok && (x.arr == nil || y.arr == nil) {
			return tt.Bool(x.arr == nil && y.arr == nil)
		}
	case *BytesV:
		if y, ok := b.(*BytesV); ok {
			if y.isNil.IsTrue() {
				return x.isNil
			}
			if x.isNil.IsTrue() {
				return y.isNil
			}
		}
	case *MapV:
		if y, ok := b.(*MapV); ok && (x.m == nil || y.m == nil) {
			return tt.Bool(x.m == nil && y.m == nil)
		}
	case *FuncV:
		if y, ok := b.(*FuncV); ok {
			xn := x.fn == nil && x.intr == ""
			yn := y.fn == nil && y.intr == ""
			if xn || yn {
				return tt.Bool(xn && yn)
			}
		}
	case *StructV:
		if y, ok := b.(*StructV); ok {
			var cs []*Term
			for i := range x.fs {
				cs = append(cs, ex.eqValues(x.fs[i], y.fs[i]))
			}
			return tt.And(cs...)
		}
	case *ArrayV:
		if y, ok := b.(*ArrayV); ok {
			var cs []*Term
			for i := range x.es {
				cs = append(cs, ex.eqValues(x.es[i], y.es[i]))
			}
			return tt.And(cs...)
		}
	}
	panic(ex.unsupported("== on %T and %T", a, b))
}

func pathEq(a, b []int) bool {
	if len(a) != len(b) {
		return false
	}
	for i := range a {
		if a[i] != b[i] {
			return false
		}
	}
	return true
}

func (ex *Exec) isNilValue(v Value) *Term {
	tt := ex.tt
	switch x := v.(type) {
	case nil:
		return tt.Bool(true)
	case *PtrV:
		if x.obj == nil {
			return tt.Bool(true)
		}
		if x.isNil != nil {
			return x.isNil
		}
		return tt.Bool(false)
	case *IfaceV:
		return tt.Bool(x.typ == nil)
	case *SliceV:
		return tt.Bool(x.arr == nil)
	case *BytesV:
		return x.isNil
	case *MapV:
		return tt.Bool(x.m == nil)
	case *FuncV:
		return tt.Bool(x.fn == nil && x.intr == "")
	case *OpaqueV:
		return tt.Bool(x.kind == "chan-nil")
	}
	panic(ex.unsupported("nil test on %T", v))
}

func (ex *Exec) convert(v Value, from, to types.Type) Value {
	tt := ex.tt
	fb, fok := from.Underlying().(*types.Basic)
	tb, tok := to.Underlying().(*types.Basic)
	switch {
	case fok && tok && fb.Info()&types.IsInteger != 0 && tb.Info()&types.IsInteger != 0:
		w, _ := intWidth(tb)
		_, s := intWidth(fb)
		return tt.Resize(v.(*Term), w, s)
	case fok && tok && fb.Info()&types.IsString != 0 && tb.Info()&types.IsString != 0:
		return v
	case fok && fb.Info()&types.IsString != 0 && isByteSlice(to):
		return &BytesV{isNil: tt.Bool(false), s: v.(*Term)}
	case tok && tb.Info()&types.IsString != 0 && isByteSlice(from):
		switch b := v.(type) {
		case *BytesV:
			return b.s
		case *SliceV:
			if b.len == 0 {
				return tt.Str("")
			}
		}
	case fok && tok && fb.Info()&types.IsInteger != 0 && tb.Info()&types.IsFloat != 0:
		return &OpaqueV{kind: "float", data: v}
	case fok && tok && fb.Info()&types.IsFloat != 0 && tb.Info()&types.IsFloat != 0:
		return v
	case fok && tok && fb.Info()&types.IsFloat != 0 && tb.Info()&types.IsInteger != 0:
		// float -> integer: an uninterpreted function of the float's bits (floats are opaque 64-bit patterns)
		w, _ := intWidth(tb)
		var bits *Term
		switch f := v.(type) {
		case *OpaqueV:
			if t, ok := f.data.(*Term); ok {
				bits = t
			}
		case *Term:
			bits = f
		}
		if bits == nil {
			panic(ex.unsupported("convert float (%T) -> integer", v))
		}
		ex.H.noteStub("float -> integer conversion (uninterpreted: floats are opaque bit patterns)")
		return tt.Resize(tt.UF("f2i", SBV64, tt.Resize(bits, 64, false)), w, true)
	case fok && tok && fb.Kind() == types.UnsafePointer || tok && tb.Kind() == types.UnsafePointer:
		return v
	case fok && tok && fb.Info()&types.IsInteger != 0 && tb.Info()&types.IsString != 0:
		if n, ok := v.(*Term).BVVal(); ok {
			return tt.Str(string(rune(n)))
		}
	}
	if _, ok := from.Underlying().(*types.Pointer); ok {
		return v
	}
	panic(ex.unsupported("convert %s -> %s (%T)", from, to, v))
}

func (ex *Exec) concreteInt(v Value, what string) int {
	t, ok := v.(*Term)
	if !ok {
		panic(ex.unsupported("%s is %T", what, v))
	}
	n, ok := t.BVVal()
	if !ok {
		panic(ex.unsupported("symbolic %s: %s", what, t))
	}
	return int(int64(n))
}

func (ex *Exec) index(fr *Frame, x *ssa.Index) Value {
	v := ex.get(fr, x.X)
	i := ex.concreteInt(ex.get(fr, x.Index), "index")
	switch a := v.(type) {
	case *ArrayV:
		if i < 0 || i >= len(a.es) {
			panic(ex.goPanic("index out of range [%d] with length %d", i, len(a.es)))
		}
		return copyVal(a.es[i])
	case *Term:
		if s, ok := a.StrVal(); ok {
			if i < 0 || i >= len(s) {
				panic(ex.goPanic("string index out of range"))
			}
			return ex.tt.BV(uint64(s[i]), 8)
		}
		if cp, _ := constPrefix(a); i >= 0 && i < len(cp) {
			return ex.tt.BV(uint64(cp[i]), 8)
		}
	}
	panic(ex.unsupported("index on %T", v))
}

func (ex *Exec) indexAddr(fr *Frame, x *ssa.IndexAddr) Value {
	v := ex.get(fr, x.X)
	i := ex.concreteInt(ex.get(fr, x.Index), "index")
	switch a := v.(type) {
	case *SliceV:
		if i < 0 || i >= a.len {
			panic(ex.goPanic("index out of range [%d] with length %d", i, a.len))
		}
		return &PtrV{obj: a.arr, path: []int{a.off + i}, typ: x.Type()}
	case *PtrV:
		p := ex.ptr(a)
		arr, ok := ex.peek(p).(*ArrayV)
		if !ok {
			panic(ex.unsupported("indexaddr on pointer to %T", ex.peek(p)))
		}
		if i < 0 || i >= len(arr.es) {
			panic(ex.goPanic("index out of range [%d] with length %d", i, len(arr.es)))
		}
		return &PtrV{obj: p.obj, path: extendPath(p.path, i), typ: x.Type()}
	case *BytesV:
		// constant content: a read-only view (writes through the element pointer are not propagated back)
		if cs, ok := a.s.StrVal(); ok && a.isNil.IsFalse() {
			if i < 0 || i >= len(cs) {
				panic(ex.goPanic("index out of range [%d] with length %d", i, len(cs)))
			}
			es := make([]Value, len(cs))
			for k := range es {
				es[k] = ex.tt.BV(uint64(cs[k]), 8)
			}
			return &PtrV{obj: ex.newObj(&ArrayV{es: es}, nil), path: []int{i}, typ: x.Type()}
		}
		panic(ex.unsupported("indexing symbolic bytes"))
	}
	panic(ex.unsupported("indexaddr on %T", v))
}

// peek returns the value at p without copying.
func (ex *Exec) peek(p *PtrV) Value {
	v := p.obj.v
	for _, i := range p.path {
		switch x := v.(type) {
		case *StructV:
			v = x.fs[i]
		case *ArrayV:
			v = x.es[i]
		}
	}
	return v
}

func (ex *Exec) makeSlice(fr *Frame, x *ssa.MakeSlice) Value {
	n := ex.concreteInt(ex.get(fr, x.Len), "make len")
	if isByteSlice(x.Type()) && n == 0 {
		// an empty byte slice: its capacity (possibly symbolic) is not observable through BytesV
		if ct, ok := ex.get(fr, x.Cap).(*Term); ok {
			if _, conc := ct.BVVal(); !conc {
				ex.branchAssume(ex.tt.SLe(ex.tt.BV(0, 64), ex.tt.Resize(ct, 64, true)), "makeslice: cap out of range")
			}
		}
		return &BytesV{isNil: ex.tt.Bool(false), s: ex.tt.Str("")}
	}
	c := ex.concreteInt(ex.get(fr, x.Cap), "make cap")
	if isByteSlice(x.Type()) {
		if n != 0 {
			panic(ex.unsupported("make([]byte, %d)", n))
		}
		return &BytesV{isNil: ex.tt.Bool(false), s: ex.tt.Str("")}
	}
	if n < 0 || c < n {
		panic(ex.goPanic("makeslice: len out of range"))
	}
	et := x.Type().Underlying().(*types.Slice).Elem()
	arr := &ArrayV{es: make([]Value, c)}
	for i := range arr.es {
		arr.es[i] = ex.zero(et)
	}
	return &SliceV{arr: ex.newObj(arr, nil), len: n, cap: c}
}

// branchAssume: cond must hold or the Go runtime panics with msg.
func (ex *Exec) branchAssume(cond *Term, msg string) {
	if !ex.branch(cond, "rt:"+msg) {
		panic(ex.goPanic("%s", msg))
	}
}

func (ex *Exec) sliceOp(fr *Frame, x *ssa.Slice) Value {
	v := ex.get(fr, x.X)
	lo, hi, max := -1, -1, -1
	if x.Low != nil {
		lo = ex.concreteInt(ex.get(fr, x.Low), "slice low")
	}
	if x.High != nil {
		hi = ex.concreteInt(ex.get(fr, x.High), "slice high")
	}
	if x.Max != nil {
		max = ex.concreteInt(ex.get(fr, x.Max), "slice max")
	}
	switch a := v.(type) {
	case *PtrV: // pointer to array
		p := ex.ptr(a)
		arr, ok := ex.peek(p).(*ArrayV)
		if !ok {
			panic(ex.unsupported("slice of pointer to %T", ex.peek(p)))
		}
		if lo < 0 {
			lo = 0
		}
		if hi < 0 {
			hi = len(arr.es)
		}
		if max < 0 {
			max = len(arr.es)
		}
		if lo > hi || hi > max || max > len(arr.es) {
			panic(ex.goPanic("slice bounds out of range"))
		}
		if isByteSlice(x.Type()) {
			if hi-lo == 0 {
				return &BytesV{isNil: ex.tt.Bool(false), s: ex.tt.Str("")}
			}
			// concrete byte array -> string constant if all constant
			bs := make([]byte, 0, hi-lo)
			for _, e := range arr.es[lo:hi] {
				n, ok := e.(*Term).BVVal()
				if !ok {
					panic(ex.unsupported("slice of symbolic byte array"))
				}
				bs = append(bs, byte(n))
			}
			return &BytesV{isNil: ex.tt.Bool(false), s: ex.tt.Str(string(bs))}
		}
		if len(p.path) != 0 {
			// array embedded in an object: share through a fresh object aliasing is not supported
			panic(ex.unsupported("slice of embedded array"))
		}
		return &SliceV{arr: p.obj, off: lo, len: hi - lo, cap: max - lo}
	case *SliceV:
		if lo < 0 {
			lo = 0
		}
		if hi < 0 {
			hi = a.len
		}
		if max < 0 {
			max = a.cap
		}
		if lo > hi || hi > max || max > a.cap {
			panic(ex.goPanic("slice bounds out of range"))
		}
		if a.arr == nil {
			return &SliceV{}
		}
		return &SliceV{arr: a.arr, off: a.off + lo, len: hi - lo, cap: max - lo}
	case *BytesV:
		if lo <= 0 && hi < 0 {
			return a
		}
		panic(ex.unsupported("sub-slice of symbolic bytes"))
	case *Term:
		if s, ok := a.StrVal(); ok {
			if lo < 0 {
				lo = 0
			}
			if hi < 0 {
				hi = len(s)
			}
			if lo > hi || hi > len(s) {
				panic(ex.goPanic("slice bounds out of range"))
			}
			return ex.tt.Str(s[lo:hi])
		}
		if cp, _ := constPrefix(a); hi < 0 && lo >= 0 && lo <= len(cp) {
			if r, ok := stripPrefix(ex.tt, a, cp[:lo]); ok {
				return r
			}
		}
		panic(ex.unsupported("slice of symbolic string"))
	}
	panic(ex.unsupported("slice of %T", v))
}

func (ex *Exec) typeAssert(v Value, x *ssa.TypeAssert) Value {
	iv, ok := v.(*IfaceV)
	if !ok {
		panic(ex.unsupported("typeassert on %T", v))
	}
	okb := false
	var res Value
	if _, isIface := x.AssertedType.Underlying().(*types.Interface); isIface {
		if iv.typ != nil {
			if _, isOp := iv.v.(*OpaqueV); isOp {
				okb = true // engine objects implement what the code asks of them
			} else {
				okb = types.Implements(iv.typ, x.AssertedType.Underlying().(*types.Interface))
			}
		}
		if okb {
			res = iv
		} else {
			res = &IfaceV{}
		}
	} else {
		okb = iv.typ != nil && types.Identical(iv.typ, x.AssertedType)
		if okb {
			res = iv.v
		} else {
			res = ex.zero(x.AssertedType)
		}
	}
	if x.CommaOk {
		return &TupleV{vs: []Value{res, ex.tt.Bool(okb)}}
	}
	if !okb {
		dyn := "nil"
		if iv.typ != nil {
			dyn = iv.typ.String()
		}
		panic(ex.goPanic("interface conversion: %s is not %s", dyn, x.AssertedType))
	}
	return res
}
