package http

// C11 / C19 (http transport): every hand-off attempt ends. The workers the real constructor builds post with a
// client whose overall timeout is the configured one (a receiver that accepts the connection and never answers
// is a transient failure that costs one timeout, after which the dispatch cycle - which awaits every hand-off of
// its batch before it writes anything - goes on); the configured timeout is positive by default.

import (
	"github.com/prometheus/client_golang/prometheus"
	"github.com/resonatehq/resonate/internal/metrics"
	"github.com/resonatehq/resonate/internal/vx"
)

func VH_PL_HttpNew() {
	n := 1 + vx.Choose(2)
	cfg := &Config{Size: 1, Workers: n, Timeout: vx.DurationMs("config.timeout", 1, 1<<32)}
	h, err := New(nil, metrics.New(prometheus.NewRegistry()), cfg)
	vx.Assert(err == nil && h != nil && len(h.workers) == n, "C11:http-plugin-constructs-its-workers")
	if h == nil {
		return
	}
	for _, w := range h.workers {
		vx.Assert(w != nil && w.client != nil && w.sq != nil, "C11:http-worker-complete")
		if w == nil || w.client == nil {
			continue
		}
		vx.Assert(w.client.Timeout > 0, "C11:http-hand-off-bounded-in-time")
	}
	d := vx.FieldTag((*Config)(nil), "Timeout", "default")
	vx.Assert(d != "" && d != "0" && d != "0s" && d != "0ms", "C11:http-timeout-positive-by-default")
	vx.Reach("done")
}
