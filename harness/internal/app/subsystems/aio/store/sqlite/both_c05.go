package sqlite

// C05/C08: the completion transaction [UpdatePromise, CompleteTasks, CreateTasks,
// DeleteCallbacks] turns every registration into exactly one task, atomically.

import (
	"github.com/resonatehq/resonate/internal/kernel/t_aio"
	"github.com/resonatehq/resonate/internal/vx"
	"github.com/resonatehq/resonate/pkg/promise"
)

func VH_C05_CompletionTxn() {
	w := vhWorker()
	vx.Havoc()
	s0 := vx.Snap()
	id := vx.String("id")
	state := vx.Int64("state")
	vx.Assume(vx.Or(state == 2, state == 4, state == 8, state == 16))
	t := vx.Int64("time")
	cmds := []*t_aio.Command{
		{Kind: t_aio.UpdatePromise, UpdatePromise: &t_aio.UpdatePromiseCommand{Id: id, State: promise.State(state), Value: promise.Value{Headers: map[string]string{}, Data: []byte{}}, CompletedOn: vx.Int64("completedOn")}},
		{Kind: t_aio.CompleteTasks, CompleteTasks: &t_aio.CompleteTasksCommand{RootPromiseId: id, CompletedOn: t}},
		{Kind: t_aio.CreateTasks, CreateTasks: &t_aio.CreateTasksCommand{PromiseId: id, CreatedOn: t}},
		{Kind: t_aio.DeleteCallbacks, DeleteCallbacks: &t_aio.DeleteCallbacksCommand{PromiseId: id}},
	}
	res, err := w.Execute([]*t_aio.Transaction{{Commands: cmds}})
	s1 := vx.Snap()
	if err != nil {
		// only a task-id collision (D12: ambiguous derived ids) can fail this transaction
		vx.Reach("error")
		vx.Assert(vx.SameDB(s0, s1), "C16:error-no-effect")
		return
	}
	p := vx.Lookup(s0, "promises", id)
	wasPending := vx.And(p.Present(), p.Int("state") == 1)
	vx.Assert(res[0][0].UpdatePromise.RowsAffected == vhB2I(wasPending), "C05:update-rows")
	var ncb int64
	for i := 0; i < vx.NSlots("callbacks"); i++ {
		a, b := vx.Slot(s0, "callbacks", i), vx.Slot(s1, "callbacks", i)
		mine := vx.And(a.Present(), a.Str("promise_id") == id)
		ncb += vhB2I(mine)
		vx.Assert(vx.Implies(mine, !b.Present()), "C05:registration-removed")
		vx.Assert(vx.Implies(!mine, vx.SameRow(a, b)), "C05:other-registrations-untouched")
		tk := vx.Lookup(s1, "tasks", a.Str("id"))
		vx.Assert(vx.Implies(mine, vx.And(tk.Present(), tk.Int("state") == 1, tk.Int("counter") == 1, tk.Str("recv") == a.Str("recv"), tk.Str("mesg") == a.Str("mesg"),
			tk.Int("timeout") == a.Int("timeout"), tk.Str("root_promise_id") == a.Str("root_promise_id"), tk.Int("created_on") == t)), "C05:exactly-one-task-per-registration")
	}
	vx.Assert(vx.And(res[0][2].CreateTasks.RowsAffected == ncb, res[0][3].DeleteCallbacks.RowsAffected == ncb), "C05:created-equals-deleted")
	// by the invariant a non-pending promise has no registrations
	vx.Assert(vx.Implies(!wasPending, ncb == 0), "C05:no-registration-outlives-its-promise")
	var created int64
	for i := 0; i < vx.NSlots("tasks"); i++ {
		a, b := vx.Slot(s0, "tasks", i), vx.Slot(s1, "tasks", i)
		created += vhB2I(vx.And(!a.Present(), b.Present()))
		st := a.Int("state")
		outstanding := vx.And(a.Present(), a.Str("root_promise_id") == id, vx.Or(st == 1, st == 2, st == 4))
		// C08: when the promise completes, its outstanding tasks are completed in the same step
		vx.Assert(vx.Implies(vx.And(wasPending, outstanding), vx.And(b.Present(), b.Int("state") == 8, b.Int("completed_on") == t)), "C08:outstanding-tasks-completed")
		vx.Assert(vx.Implies(vx.And(a.Present(), !outstanding), vx.SameRow(a, b)), "C05:other-tasks-untouched")
		// C05: a completion attempt that did not complete the promise must not finish tasks
		// (in particular the notification tasks the winning completion has just created)
		vx.Assert(vx.Implies(vx.And(a.Present(), !wasPending), vx.SameRow(a, b)), "C05:losing-completion-finishes-no-task")
		vx.Assert(vx.Implies(wasPending, vx.Not(vx.And(b.Present(), b.Str("root_promise_id") == id, !vx.SameRow(a, b), a.Present(), vx.Or(b.Int("state") == 1, b.Int("state") == 2, b.Int("state") == 4)))), "C08:no-outstanding-task-left")
	}
	vx.Assert(created == ncb, "C05:no-spurious-task")
	for _, tb := range []string{"locks", "schedules"} {
		vx.Assert(vx.SameTable(s0, s1, tb), "C05:other-tables-untouched")
	}
	for i := 0; i < vx.NSlots("promises"); i++ {
		a, b := vx.Slot(s0, "promises", i), vx.Slot(s1, "promises", i)
		vx.Assert(vx.Implies(vx.Not(vx.And(a.Present(), a.Str("id") == id, a.Int("state") == 1)), vx.SameRow(a, b)), "C01:other-promises-untouched")
	}
	vx.Reach("done")
}
