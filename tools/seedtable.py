#!/usr/bin/env python3
"""Regenerate the seed table of DESIGN.md section 0.7 from seeded/*/meta.json (written by tools/seed_matrix.sh)."""
import json, glob, os, re
rows = []
missed = []
for d in sorted(glob.glob('/verif/seeded/C*-*')):
    m = json.load(open(d + '/meta.json'))
    cr = m.get('check_result', {})
    sid = os.path.basename(d)
    what = ''
    notes = d + '/NOTES.md'
    if os.path.exists(notes):
        for l in open(notes):
            l = l.strip().lstrip('#').strip()
            if l and not l.lower().startswith(('what', 'change', 'seed')) or (l and len(l) > 30):
                what = l
                break
    viol = ', '.join(sorted(set(cr.get('violations', []))))
    det = 'yes' if cr.get('detected') else '**no**'
    # variants G: the stored result is the FIRST pass against the frozen snapshot of round six; the ones missed there
    # were answered in that round (see the round-six paragraph) and have not been re-run since
    if sid.endswith('-G') and not cr.get('detected'):
        det = 'no at first pass; answered in round six (not re-run since)'
    elif not cr.get('detected'):
        missed.append(sid)
    rows.append('| %s | %s | %s | %s |' % (sid, det, viol[:110] or '-', what[:110].replace('|', '/')))
table = '| seed | detected by its property\'s quick check | violated obligations (harness/label) | what the change is |\n|---|---|---|---|\n' + '\n'.join(rows) + '\n'
p = '/verif/DESIGN.md'
s = open(p).read()
a = s.index('| seed | detected by')
b = s.index('\n\n', a)
s = s[:a] + table.rstrip('\n') + s[b:]
open(p, 'w').write(s)
print('rows', len(rows), 'missed', missed)
