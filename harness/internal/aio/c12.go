package aio

// C12 (b): the kernel AIO answers a submission that its subsystem refuses exactly once, immediately,
// with a queue-full error, without blocking the kernel goroutine (nothing drains the completion queue
// while the kernel is inside a tick), and hands an accepted submission to the subsystem unanswered.

import (
	"github.com/prometheus/client_golang/prometheus"
	"github.com/resonatehq/resonate/internal/kernel/bus"
	"github.com/resonatehq/resonate/internal/kernel/t_aio"
	"github.com/resonatehq/resonate/internal/kernel/t_api"
	"github.com/resonatehq/resonate/internal/metrics"
	"github.com/resonatehq/resonate/internal/vx"
)

type vhSub struct {
	accept bool
	got    []*bus.SQE[t_aio.Submission, t_aio.Completion]
}

func (s *vhSub) String() string           { return "vh" }
func (s *vhSub) Kind() t_aio.Kind         { return t_aio.Echo }
func (s *vhSub) Start(chan<- error) error { return nil }
func (s *vhSub) Stop() error              { return nil }
func (s *vhSub) Flush(int64)              {}
func (s *vhSub) Enqueue(sqe *bus.SQE[t_aio.Submission, t_aio.Completion]) bool {
	if !s.accept {
		return false
	}
	s.got = append(s.got, sqe)
	return true
}

func VH_C12_AioRefused() {
	size := vx.Choose(2) + 1
	a := New(size, metrics.New(prometheus.NewRegistry()))
	sub := &vhSub{accept: vx.Choose(2) == 1}
	a.AddSubsystem(sub)

	// arbitrary occupancy of the completion queue (completions of other submissions)
	var other int
	fill := vx.Choose(size + 1)
	for i := 0; i < fill; i++ {
		a.cq <- &bus.CQE[t_aio.Submission, t_aio.Completion]{Id: "pre",
			Completion: &t_aio.Completion{Kind: t_aio.Echo, Tags: map[string]string{"id": "pre"}, Echo: &t_aio.EchoCompletion{Data: "pre"}},
			Callback:   func(*t_aio.Completion, error) { other++ }}
	}

	id, data := vx.String("id"), vx.String("data")
	vx.Assume(id != "")
	var calls int
	var last error
	var lastC *t_aio.Completion
	a.Dispatch(&t_aio.Submission{Kind: t_aio.Echo, Tags: map[string]string{"id": id}, Echo: &t_aio.EchoSubmission{Data: data}},
		func(c *t_aio.Completion, err error) {
			calls++
			last = err
			lastC = c
		})

	if !sub.accept {
		vx.Reach("refused")
		// the remainder of the tick: the kernel drains what is immediately available
		for _, cqe := range a.DequeueCQE(2 * (size + 1)) {
			cqe.Callback(cqe.Completion, cqe.Error)
		}
		for _, cqe := range a.DequeueCQE(2 * (size + 1)) {
			cqe.Callback(cqe.Completion, cqe.Error)
		}
		te, ok := last.(*t_api.Error)
		vx.Assert(calls == 1, "C12:aio-refusal-answered-exactly-once")
		vx.Assert(ok && lastC == nil && te.Code() == t_api.StatusAIOSubmissionQueueFull, "C12:aio-refusal-is-queue-full")
		vx.Assert(len(sub.got) == 0, "C12:aio-refused-not-handed-over")
		vx.Assert(other == fill, "C12:aio-other-completions-delivered-once")
	} else {
		vx.Reach("accepted")
		vx.Assert(calls == 0, "C12:aio-accepted-not-answered-early")
		vx.Assert(len(sub.got) == 1 && sub.got[0].Id == id && sub.got[0].Submission.Echo.Data == data, "C12:aio-accepted-handed-over-once")
		// the subsystem's completion reaches the coroutine exactly once through the completion queue
		if fill < size {
			a.EnqueueCQE(&bus.CQE[t_aio.Submission, t_aio.Completion]{Id: id, Callback: sub.got[0].Callback,
				Completion: &t_aio.Completion{Kind: t_aio.Echo, Tags: map[string]string{"id": id}, Echo: &t_aio.EchoCompletion{Data: data}}})
			for k := 0; k < 3; k++ {
				for _, cqe := range a.DequeueCQE(2 * (size + 1)) {
					cqe.Callback(cqe.Completion, cqe.Error)
				}
			}
			vx.Assert(calls == 1 && last == nil && lastC != nil && lastC.Echo.Data == data, "C12:aio-completion-delivered-once")
			vx.Assert(other == fill, "C12:aio-other-completions-delivered-once")
		}
	}
}

// The completion side of the kernel loop: completions queued by subsystem workers reach their callbacks
// exactly once, in order, whatever the batch size and whatever the signal goroutine buffered in between,
// and every tick that finds something queued delivers at least one completion.
func VH_C12_AioDrain() {
	size := 3
	a := New(size, metrics.New(prometheus.NewRegistry()))
	n := vx.Choose(size + 1)
	batch := vx.Choose(3) + 1
	calls := make([]int, size)
	order := []int{}
	for i := 0; i < n; i++ {
		i := i
		a.EnqueueCQE(&bus.CQE[t_aio.Submission, t_aio.Completion]{Id: "c",
			Completion: &t_aio.Completion{Kind: t_aio.Echo, Tags: map[string]string{"id": "c"}, Echo: &t_aio.EchoCompletion{Data: "c"}},
			Callback: func(*t_aio.Completion, error) {
				calls[i]++
				order = append(order, i)
			}})
	}
	delivered := 0
	for round := 0; round < size+1; round++ {
		cancel := make(chan interface{})
		<-a.Signal(cancel)
		got := a.DequeueCQE(batch)
		vx.Assert(len(got) <= batch, "C12:aio-tick-respects-batch-size")
		vx.Assert(delivered == n || len(got) > 0, "C12:aio-tick-delivers-when-something-is-queued")
		for _, cqe := range got {
			cqe.Callback(cqe.Completion, cqe.Error)
		}
		delivered += len(got)
	}
	vx.Assert(delivered == n && len(order) == n, "C12:aio-every-completion-delivered")
	for i := 0; i < n; i++ {
		vx.Assert(calls[i] == 1, "C12:aio-completion-delivered-exactly-once")
		vx.Assert(i < len(order) && order[i] == i, "C12:aio-completions-delivered-in-order")
	}
	vx.Assert(a.buffer == nil && len(a.cq) == 0, "C12:aio-nothing-left-queued")
}
