package main

import (
	"fmt"
	"go/types"

	"golang.org/x/tools/go/ssa"
)

// Value is one of: *Term, *StructV, *ArrayV, *PtrV, *SliceV, *BytesV, *MapV,
// *IfaceV, *FuncV, *TupleV, *OpaqueV, nil (invalid).
type Value interface{}

type StructV struct{ fs []Value }
type ArrayV struct{ es []Value }

// Obj is a heap cell.
type Obj struct {
	id  int
	v   Value
	typ types.Type
}

// PtrV: obj==nil is the nil pointer. isNil (optional) makes the pointer
// nullable-symbolic: it is nil iff isNil holds, otherwise it points to obj/path.
type PtrV struct {
	obj   *Obj
	path  []int
	isNil *Term
	typ   types.Type // pointer type (for nil pointers / diagnostics)
}

// SliceV: concrete length slices. arr==nil is the nil slice.
type SliceV struct {
	arr      *Obj // holds *ArrayV
	off, len int
	cap      int
}

// BytesV: []byte-like values with symbolic content.
type BytesV struct {
	isNil *Term // Bool
	s     *Term // String
	buf   *bufCell // non-nil: the slice shares the storage of this bytes.Buffer (see bytesbuf.go)
}

// MapV is a reference to a map object; nil *MapObj pointer means nil map.
type MapV struct{ m *MapObj }

type MapObj struct {
	id int
	// map[string]string (symbolic): arrays + optional shape
	sym  bool
	has  *Term   // (Array String Bool)
	val  *Term   // (Array String String)
	keys []*Term // iteration shape (pairwise distinct keys that are present), nil = opaque
	opaq bool    // true: key set not enumerable
	src  *Term   // canonical JSON encoding this map was decoded from (nil after mutation)
	// generic concrete-keyed maps
	ks []Value
	vs []Value
	kt types.Type
	vt types.Type
}

type IfaceV struct {
	typ types.Type // dynamic type; nil => nil interface
	v   Value
}

type FuncV struct {
	fn    *ssa.Function
	caps  []Value
	recv  Value  // bound method receiver (for $bound closures built by engine)
	intr  string // intrinsic name (engine-provided function value)
	data  interface{}
}

type TupleV struct{ vs []Value }

// OpaqueV: engine-level objects (sql handles, errors, coroutines, ...).
type OpaqueV struct {
	kind string
	data interface{}
	id   int
	aux  Value
}

func (ex *Exec) newObj(v Value, typ types.Type) *Obj {
	ex.nobj++
	return &Obj{id: ex.nobj, v: v, typ: typ}
}

func isByteSlice(t types.Type) bool {
	if s, ok := t.Underlying().(*types.Slice); ok {
		if b, ok := s.Elem().Underlying().(*types.Basic); ok && b.Kind() == types.Uint8 {
			return true
		}
	}
	return false
}

func isStringMap(t types.Type) bool {
	if m, ok := t.Underlying().(*types.Map); ok {
		k, ok1 := m.Key().Underlying().(*types.Basic)
		v, ok2 := m.Elem().Underlying().(*types.Basic)
		return ok1 && ok2 && k.Kind() == types.String && v.Kind() == types.String
	}
	return false
}

func intWidth(b *types.Basic) (int, bool) { // width, signed
	switch b.Kind() {
	case types.Int, types.Int64, types.UntypedInt, types.UntypedRune:
		return 64, true
	case types.Uint, types.Uint64, types.Uintptr:
		return 64, false
	case types.Int32:
		return 32, true
	case types.Uint32:
		return 32, false
	case types.Int16:
		return 16, true
	case types.Uint16:
		return 16, false
	case types.Int8:
		return 8, true
	case types.Uint8:
		return 8, false
	}
	return 0, false
}

func (ex *Exec) zero(t types.Type) Value {
	tt := ex.tt
	switch u := t.Underlying().(type) {
	case *types.Basic:
		if u.Info()&types.IsBoolean != 0 {
			return tt.Bool(false)
		}
		if u.Info()&types.IsString != 0 {
			return tt.Str("")
		}
		if w, _ := intWidth(u); w > 0 {
			return tt.BV(0, w)
		}
		if u.Info()&types.IsFloat != 0 {
			return &OpaqueV{kind: "float", data: 0.0}
		}
		if u.Kind() == types.UnsafePointer {
			return &PtrV{typ: t}
		}
		if u.Kind() == types.UntypedNil {
			return nil
		}
		panic(ex.unsupported("zero of basic %s", u))
	case *types.Pointer:
		return &PtrV{typ: t}
	case *types.Struct:
		s := &StructV{fs: make([]Value, u.NumFields())}
		for i := range s.fs {
			s.fs[i] = ex.zero(u.Field(i).Type())
		}
		return s
	case *types.Array:
		a := &ArrayV{es: make([]Value, int(u.Len()))}
		for i := range a.es {
			a.es[i] = ex.zero(u.Elem())
		}
		return a
	case *types.Slice:
		if isByteSlice(t) {
			return &BytesV{isNil: tt.Bool(true), s: tt.Str("")}
		}
		return &SliceV{}
	case *types.Map:
		return &MapV{}
	case *types.Interface:
		return &IfaceV{}
	case *types.Signature:
		return &FuncV{}
	case *types.Chan:
		return &OpaqueV{kind: "chan-nil"}
	case *types.Tuple:
		tv := &TupleV{vs: make([]Value, u.Len())}
		for i := range tv.vs {
			tv.vs[i] = ex.zero(u.At(i).Type())
		}
		return tv
	}
	panic(ex.unsupported("zero of %s", t))
}

// copyVal implements Go value semantics for aggregate values.
func copyVal(v Value) Value {
	switch x := v.(type) {
	case *StructV:
		n := &StructV{fs: make([]Value, len(x.fs))}
		for i, f := range x.fs {
			n.fs[i] = copyVal(f)
		}
		return n
	case *ArrayV:
		n := &ArrayV{es: make([]Value, len(x.es))}
		for i, f := range x.es {
			n.es[i] = copyVal(f)
		}
		return n
	}
	return v
}

func (ex *Exec) load(p *PtrV) Value {
	if p.obj == nil {
		panic(ex.goPanic("nil pointer dereference"))
	}
	v := p.obj.v
	for _, i := range p.path {
		switch x := v.(type) {
		case *StructV:
			v = x.fs[i]
		case *ArrayV:
			v = x.es[i]
		default:
			panic(ex.unsupported("load path through %T", v))
		}
	}
	return copyVal(v)
}

func (ex *Exec) store(p *PtrV, nv Value) {
	if p.obj == nil {
		panic(ex.goPanic("nil pointer dereference (store)"))
	}
	nv = copyVal(nv)
	if len(ex.W.watches) > 0 {
		ex.noteWrite(p.obj, p.path)
	}
	if len(p.path) == 0 {
		p.obj.v = nv
		return
	}
	v := p.obj.v
	for k, i := range p.path {
		last := k == len(p.path)-1
		switch x := v.(type) {
		case *StructV:
			if last {
				x.fs[i] = nv
				return
			}
			v = x.fs[i]
		case *ArrayV:
			if last {
				x.es[i] = nv
				return
			}
			v = x.es[i]
		default:
			panic(ex.unsupported("store path through %T", v))
		}
	}
}

func extendPath(p []int, i int) []int {
	n := make([]int, len(p)+1)
	copy(n, p)
	n[len(p)] = i
	return n
}

func describe(v Value) string {
	switch x := v.(type) {
	case nil:
		return "<nil>"
	case *Term:
		s := x.String()
		if len(s) > 200 {
			s = s[:200] + "..."
		}
		return s
	case *StructV:
		return fmt.Sprintf("struct{%d}", len(x.fs))
	case *PtrV:
		if x.obj == nil {
			return "nilptr"
		}
		return fmt.Sprintf("&obj%d%v", x.obj.id, x.path)
	case *SliceV:
		return fmt.Sprintf("slice[%d]", x.len)
	case *BytesV:
		return "bytes(" + describe(x.s) + ")"
	case *IfaceV:
		if x.typ == nil {
			return "nil-iface"
		}
		return "iface<" + x.typ.String() + ">"
	case *OpaqueV:
		return "opaque:" + x.kind
	}
	return fmt.Sprintf("%T", v)
}
