package main

import (
	"sync/atomic"
	"fmt"
	"os"
	"sort"
	"strings"
	"sync"
	"time"

	"golang.org/x/tools/go/ssa"
)

var intercepts = map[string]InterceptFn{}

var primarySolver = "cvc5"

type HarnessSpec struct {
	Name     string         `json:"name"`     // entry function VH_...
	Pkg      string         `json:"pkg"`      // package path relative to the module
	Tier     string         `json:"tier"`     // "" = both, "thorough" = thorough only
	Unwind   int            `json:"unwind"`
	Opts     map[string]int `json:"opts"`     // harness-readable options (vx.Opt)
	OptsT    map[string]int `json:"opts_thorough"`
	PanicOK  bool           `json:"panic_ok"` // Go panics end the path without being violations
	Reach    []string       `json:"reach"`    // labels that must be reached (vacuity guard)
	Note     string         `json:"note"`
	Labels   []string       `json:"labels"`   // only obligations whose label has one of these prefixes are posed ("" = all)
}

type Violation struct {
	Harness string            `json:"harness"`
	Label   string            `json:"label"`
	Msg     string            `json:"msg"`
	Pos     string            `json:"pos"`
	Trace   []string          `json:"trace"`
	Model   map[string]string `json:"model"`
	Inputs  []ModelInput      `json:"inputs"`
	Known   string            `json:"known,omitempty"`
	Decisions []int           `json:"decisions"`
	Pkg     string            `json:"pkg"`
	Extra   map[string]interface{} `json:"extra,omitempty"`
}

type ModelInput struct {
	Name  string `json:"name"`
	Kind  string `json:"kind"`
	Value string `json:"value"`
}

type HarnessRun struct {
	spec     *HarnessSpec
	P        *Program
	tier     string
	unwind   int
	maxSteps int
	opts     map[string]int
	solverMs int

	mu          sync.Mutex
	paths       int
	pruned      int
	obligations int
	discharged  int
	unknowns    []string
	unsupported []string
	reach       map[string]int
	violations  []*Violation
	stubs       map[string]bool
	sqls        map[string]bool
	funcs       map[string]bool
	bounds      map[string]bool
	samples     []map[string]interface{}
	cuts        int
	commits     int
	decisions   int
	known       []knownFinding
	property    string
	pins        map[string]string // replay: variable name -> SMT value
	replayPath  []int
	oblLabels   map[string]int
	maxPaths    int
	seenViol    map[string]bool
	accPosed    map[string]string // acceptance obligations (vx.Accepts): label -> position where posed
	accWitness  map[string]bool
	accUnknown  map[string]bool
	t0          time.Time
}

func (h *HarnessRun) noteUnknown(ex *Exec, what string) {
	h.mu.Lock()
	defer h.mu.Unlock()
	if len(h.unknowns) < 50 {
		h.unknowns = append(h.unknowns, what+" @"+ex.posStr()+" "+ex.sol.lastErr)
	}
}
// wants reports whether an obligation label belongs to the property being checked.
func (h *HarnessRun) wants(label string) bool {
	if len(h.spec.Labels) == 0 {
		return true
	}
	for _, p := range h.spec.Labels {
		if strings.HasPrefix(label, p) {
			return true
		}
	}
	return false
}

func (h *HarnessRun) noteStub(s string) {
	h.mu.Lock()
	h.stubs[s] = true
	h.mu.Unlock()
}
func (h *HarnessRun) noteBound(s string) {
	h.mu.Lock()
	h.bounds[s] = true
	h.mu.Unlock()
}
func (h *HarnessRun) noteSQL(s string) {
	h.mu.Lock()
	h.sqls[strings.Join(strings.Fields(s), " ")] = true
	h.mu.Unlock()
}

// fallbackCheck retries an undecided query on the other solvers.
func (h *HarnessRun) fallbackCheck(ex *Exec, extra *Term) string {
	for _, kind := range []string{"z3", "z3-new"} {
		s, err := NewSolver(kind, h.solverMs*2)
		if err != nil {
			continue
		}
		s.Begin(ex.tt)
		for _, c := range ex.pc {
			s.Assert(c)
		}
		r, _ := s.CheckWith(extra, nil)
		s.Close()
		if r == "sat" || r == "unsat" {
			return r
		}
	}
	return "unknown"
}

// Cross-solver re-check of discharged obligations: every crossEvery-th "unsat" verdict of the primary
// solver is posed again, from scratch (fresh process, full path condition), to a solver of a different
// code base. Agreement and undecided re-checks are counted in the evidence; a disagreement makes the
// run INCONCLUSIVE (an encoding or solver bug, not a verdict).
var crossEvery = 0
var gCross struct{ Seen, Checked, Agree, Undecided, Disagree int64 }
var crossSolver = "z3-new"

func (h *HarnessRun) crossCheck(ex *Exec, extra *Term, what string) {
	if crossEvery <= 0 {
		return
	}
	if atomic.AddInt64(&gCross.Seen, 1)%int64(crossEvery) != 0 {
		return
	}
	s, err := NewSolver(crossSolver, 15000)
	if err != nil {
		return
	}
	defer s.Close()
	atomic.AddInt64(&gCross.Checked, 1)
	s.Begin(ex.tt)
	for _, c := range ex.pc {
		s.Assert(c)
	}
	q0, t0 := gStats.Queries, gStats.TimeNanos
	r, _ := s.CheckWith(extra, nil)
	_ = q0
	_ = t0
	switch r {
	case "unsat":
		atomic.AddInt64(&gCross.Agree, 1)
	case "sat":
		atomic.AddInt64(&gCross.Disagree, 1)
		h.noteUnknown(ex, "SOLVER DISAGREEMENT ("+primarySolver+" unsat, "+crossSolver+" sat) on "+what)
	default:
		atomic.AddInt64(&gCross.Undecided, 1)
	}
}

// violation records a failed obligation on the current path (PC is feasible).
func (h *HarnessRun) violation(ex *Exec, label, msg string) {
	h.recordViolation(ex, label, msg, nil)
}

func (h *HarnessRun) recordViolation(ex *Exec, label, msg string, extra *Term) {
	ex.violated = true
	v := &Violation{Harness: h.spec.Name, Pkg: h.spec.Pkg, Label: label, Msg: msg, Pos: ex.posStr(), Trace: append([]string{}, ex.trace...), Decisions: append([]int{}, ex.dec...)}
	key := label + "|" + msg + "|" + v.Pos
	// violations are de-duplicated per known-finding class, so that a violation of the same
	// assertion that is NOT covered by a recorded finding is still reported
	for i := range h.known {
		if h.known[i].matches(h.property, v) {
			key += fmt.Sprintf("|known%d", i)
			break
		}
	}
	h.mu.Lock()
	dup := h.seenViol[key]
	h.seenViol[key] = true
	h.mu.Unlock()
	if dup {
		return
	}
	// model
	ex.syncPC()
	ex.sol.Push()
	if extra != nil {
		ex.sol.Assert(extra)
	}
	if r := ex.sol.Check(); r == "sat" {
		var want []*Term
		for _, t := range ex.tt.vars {
			if t.sort == SArrSB || t.sort == SArrSS {
				continue
			}
			want = append(want, t)
		}
		vals := ex.sol.Values(want)
		v.Model = map[string]string{}
		for _, t := range want {
			if s, ok := vals[t.id]; ok {
				v.Model[t.s] = s
			}
		}
		for _, in := range ex.inputs {
			if s, ok := vals[in.t.id]; ok {
				v.Inputs = append(v.Inputs, ModelInput{Name: in.name, Kind: in.kind, Value: s})
			}
		}
	}
	ex.sol.Pop()
	h.mu.Lock()
	h.violations = append(h.violations, v)
	h.mu.Unlock()
}

type workItem struct{ prefix []int }

func (h *HarnessRun) Run(workers int) error {
	h.t0 = time.Now()
	fn := h.P.findFunc(h.spec.Pkg, h.spec.Name)
	if fn == nil {
		return fmt.Errorf("harness function %s not found in %s", h.spec.Name, h.spec.Pkg)
	}
	var qmu sync.Mutex
	cond := sync.NewCond(&qmu)
	queue := []workItem{{}}
	if h.replayPath != nil {
		queue = []workItem{{prefix: h.replayPath}}
	}
	active := 0
	var firstErr error
	var wg sync.WaitGroup
	for w := 0; w < workers; w++ {
		wg.Add(1)
		go func() {
			defer wg.Done()
			sol, err := NewSolver(primarySolver, h.solverMs)
			if err != nil {
				qmu.Lock()
				firstErr = err
				qmu.Unlock()
				return
			}
			defer sol.Close()
			if os.Getenv("VX_SMTLOG") != "" {
				f, _ := os.Create(os.Getenv("VX_SMTLOG"))
				sol.log = f
			}
			for {
				qmu.Lock()
				for len(queue) == 0 && active > 0 && firstErr == nil {
					cond.Wait()
				}
				if len(queue) == 0 || firstErr != nil {
					qmu.Unlock()
					cond.Broadcast()
					return
				}
				it := queue[len(queue)-1]
				queue = queue[:len(queue)-1]
				active++
				qmu.Unlock()

				alts, err := h.runPath(fn, it.prefix, sol)
				if sol.dead {
					sol.Close()
					sol, _ = NewSolver(primarySolver, h.solverMs)
				}

				qmu.Lock()
				active--
				if err != nil && firstErr == nil {
					firstErr = err
				}
				for _, a := range alts {
					if h.replayPath == nil {
						queue = append(queue, workItem{prefix: a})
					}
				}
				h.mu.Lock()
				np := h.paths
				h.mu.Unlock()
				if h.maxPaths > 0 && np > h.maxPaths && firstErr == nil {
					firstErr = fmt.Errorf("path budget %d exceeded", h.maxPaths)
				}
				qmu.Unlock()
				cond.Broadcast()
			}
		}()
	}
	wg.Wait()
	return firstErr
}

func (h *HarnessRun) runPath(fn *ssa.Function, prefix []int, sol *Solver) (alts [][]int, err error) {
	tt := NewTermTable()
	ex := &Exec{P: h.P, H: h, tt: tt, sol: sol, pre: prefix, globals: map[*ssa.Global]*Obj{}, inited: map[*ssa.Package]bool{}}
	ex.W = newWorld(ex)
	tt.pins = h.pins
	sol.Begin(tt)
	status := "ok"
	var pe *pathEnd
	func() {
		defer func() {
			if r := recover(); r != nil {
				if p, ok := r.(*pathEnd); ok {
					pe = p
					status = p.kind
					return
				}
				if se, ok := r.(*sqlError); ok {
					pe = &pathEnd{kind: "unsupported", msg: "SQL error outside a statement call: " + se.msg, pos: ex.posStr()}
					status = "unsupported"
					return
				}
				panic(r)
			}
		}()
		ex.runFunc(fn, nil, nil, nil)
		ex.W.finish(ex)
	}()
	// vacuity guard: assumptions added along the path (havoc under Inv, environment steps, capacity of the slot
	// tables, vx.Assume) must leave it satisfiable, otherwise every obligation on it was discharged for nothing
	if (status == "ok" || status == "gopanic" || status == "blocked") && !ex.violated {
		func() {
			defer func() {
				if r := recover(); r != nil {
					if _, ok := r.(*pathEnd); !ok {
						panic(r)
					}
				}
			}()
			sol.what = "path-feasible"
			if ex.sat(tt.Bool(true)) == "unsat" {
				pe = &pathEnd{kind: "unsupported", msg: "vacuous path: the assumptions made along it are contradictory (" + strings.Join(ex.trace, ",") + ")", pos: ex.posStr()}
				status = "unsupported"
			}
		}()
	}
	h.mu.Lock()
	h.paths++
	for f := range ex.W.funcs {
		h.funcs[f] = true
	}
	h.commits += len(ex.W.commits)
	h.decisions += len(ex.dec)
	h.cuts += ex.W.cuts
	if len(h.samples) < 6 && status == "ok" {
		h.samples = append(h.samples, map[string]interface{}{"harness": h.spec.Name, "path": strings.Join(ex.trace, ","), "result": "all obligations on this path unsat", "obligations": ex.W.oblOnPath})
	}
	h.mu.Unlock()
	switch status {
	case "ok", "pruned", "cut":
		if status != "ok" {
			h.mu.Lock()
			h.pruned++
			h.mu.Unlock()
		}
	case "gopanic":
		if !h.spec.PanicOK && !ex.W.panicOK {
			h.violation(ex, "panic", pe.msg)
		}
	case "blocked":
		if !ex.W.blockOK {
			h.violation(ex, "blocked", pe.msg)
		}
	case "unsupported", "unwind":
		h.mu.Lock()
		if len(h.unsupported) < 20 {
			h.unsupported = append(h.unsupported, pe.Error())
		}
		h.mu.Unlock()
	}
	return ex.alts, nil
}

type HarnessResult struct {
	Name        string
	Pkg         string
	Paths       int
	Pruned      int
	Obligations int
	Discharged  int
	Unknowns    []string
	Unsupported []string
	Reach       map[string]int
	MissingReach []string
	Violations  []*Violation
	Stubs       []string
	SQL         []string
	Funcs       []string
	Bounds      []string
	Samples     []map[string]interface{}
	Cuts        int
	Commits     int
	Decisions   int
	WallS       float64
	Err         string
}

func setKeysS(m map[string]string) []string {
	var out []string
	for k := range m {
		out = append(out, k)
	}
	sort.Strings(out)
	return out
}

func setKeys(m map[string]bool) []string {
	var out []string
	for k := range m {
		out = append(out, k)
	}
	sort.Strings(out)
	return out
}

func (h *HarnessRun) Result(err error) *HarnessResult {
	r := &HarnessResult{Name: h.spec.Name, Pkg: h.spec.Pkg, Paths: h.paths, Pruned: h.pruned, Obligations: h.obligations, Discharged: h.discharged,
		Unknowns: h.unknowns, Unsupported: h.unsupported, Reach: h.reach, Violations: h.violations,
		Stubs: setKeys(h.stubs), SQL: setKeys(h.sqls), Funcs: setKeys(h.funcs), Bounds: setKeys(h.bounds), Samples: h.samples,
		Cuts: h.cuts, Commits: h.commits, Decisions: h.decisions, WallS: time.Since(h.t0).Seconds()}
	if err != nil {
		r.Err = err.Error()
	}
	// acceptance obligations: some execution reaching the point must admit the condition (decided by a sat query
	// per path); none doing so means the code refuses every such request
	for _, l := range setKeysS(h.accPosed) {
		if h.accWitness[l] {
			continue
		}
		if h.accUnknown[l] {
			r.Unknowns = append(r.Unknowns, "accepts "+l)
			continue
		}
		r.Violations = append(r.Violations, &Violation{Harness: h.spec.Name, Pkg: h.spec.Pkg, Label: l, Msg: "no execution reaching this point admits the condition: every such request is refused", Pos: h.accPosed[l]})
	}
	for _, l := range h.spec.Reach {
		if h.reach[l] == 0 {
			r.MissingReach = append(r.MissingReach, l)
		}
	}
	return r
}

func NewHarnessRun(P *Program, spec *HarnessSpec, tier string) *HarnessRun {
	h := &HarnessRun{spec: spec, P: P, tier: tier, unwind: 64, maxSteps: 2000000, solverMs: 20000,
		reach: map[string]int{}, stubs: map[string]bool{}, sqls: map[string]bool{}, funcs: map[string]bool{}, bounds: map[string]bool{},
		oblLabels: map[string]int{}, seenViol: map[string]bool{}, accPosed: map[string]string{}, accWitness: map[string]bool{}, accUnknown: map[string]bool{}, opts: map[string]int{}, maxPaths: 200000}
	if tier == "thorough" {
		h.unwind = 128
		h.solverMs = 120000
	}
	if spec.Unwind > 0 {
		h.unwind = spec.Unwind
	}
	for k, v := range spec.Opts {
		h.opts[k] = v
	}
	if tier == "thorough" {
		for k, v := range spec.OptsT {
			h.opts[k] = v
		}
	}
	return h
}
