package sqlite

import (
	"github.com/resonatehq/resonate/internal/kernel/t_aio"
	"github.com/resonatehq/resonate/internal/vx"
	"github.com/resonatehq/resonate/pkg/idempotency"
	"github.com/resonatehq/resonate/pkg/promise"
)

func vhWorker() *SqliteStoreWorker {
	return &SqliteStoreWorker{config: &Config{}, db: vx.DB("sqlite")}
}

func VH_T0_Trivial() {
	x := vx.Int64("x")
	y := vx.Int64("y")
	vx.Assume(x > 0 && y > 0 && x < 100 && y < 100)
	if x > y {
		vx.Reach("gt")
		vx.Assert(x+y > 2*y, "sum")
	} else {
		vx.Reach("le")
		vx.Assert(x+y <= 2*y, "sum2")
		vx.Assert(x < y, "wrong")
	}
}

func VH_C16_UpdatePromise() {
	w := vhWorker()
	vx.Havoc()
	s0 := vx.Snap()
	id := vx.String("id")
	state := vx.Int64("state")
	vx.Assume(vx.Or(state == 2, state == 4, state == 8, state == 16))
	data := vx.Bytes("vdata")
	vx.Assume(!vx.BytesNil(data))
	hdrs := vx.Tags("vhdr", 1)
	ikc := vx.StringPtr("ikc")
	co := vx.Int64("completedOn")
	cmd := &t_aio.UpdatePromiseCommand{Id: id, State: promise.State(state), Value: promise.Value{Headers: hdrs, Data: data},
		IdempotencyKey: (*idempotency.Key)(ikc), CompletedOn: co}
	res, err := w.Execute([]*t_aio.Transaction{{Commands: []*t_aio.Command{{Kind: t_aio.UpdatePromise, UpdatePromise: cmd}}}})
	s1 := vx.Snap()
	if err != nil {
		vx.Assert(false, "no-error")
		return
	}
	pre := vx.Lookup(s0, "promises", id)
	post := vx.Lookup(s1, "promises", id)
	hit := vx.And(pre.Present(), pre.Int("state") == 1)
	vx.Assert(res[0][0].UpdatePromise.RowsAffected == vx.IteInt64(hit, 1, 0), "rows-affected")
	vx.Assert(vx.Implies(hit, vx.And(post.Present(), post.Int("state") == state, post.Int("completed_on") == co, !post.Null("completed_on"),
		vx.BytesEq(post.Bytes("value_data"), data), vx.MapEq(post.Map("value_headers"), hdrs),
		post.Null("idempotency_key_for_complete") == (ikc == nil),
		vx.Implies(ikc != nil, post.Str("idempotency_key_for_complete") == *ikc))), "written-values")
	for i := 0; i < vx.NSlots("promises"); i++ {
		a, b := vx.Slot(s0, "promises", i), vx.Slot(s1, "promises", i)
		target := vx.And(a.Present(), a.Str("id") == id, a.Int("state") == 1)
		vx.Assert(vx.Implies(!target, vx.SameRow(a, b)), "others-unchanged")
	}
	vx.Assert(vx.And(vx.SameTable(s0, s1, "tasks"), vx.SameTable(s0, s1, "callbacks"), vx.SameTable(s0, s1, "locks"), vx.SameTable(s0, s1, "schedules")), "other-tables-unchanged")
	vx.Reach("done")
}
