#!/bin/bash
# seed_matrix.sh [seed...]: run the quick check of each seed's property against the seeded change
# (in a scratch worktree of /repo, never in /repo itself) and record what was detected.
export GOFLAGS=-mod=mod GOPROXY=off GOSUMDB=off GOTOOLCHAIN=local
WT=${WT:-/tmp/mx_repo}
VERIF=${VERIF:-/verif}
git -C /repo worktree remove --force $WT 2>/dev/null; git -C /repo worktree prune
git -C /repo worktree add -q --detach $WT HEAD || exit 2
seeds=("$@"); [ ${#seeds[@]} -eq 0 ] && seeds=($(ls /verif/seeded | grep -E '^C[0-9]+-[A-Z]$'))
mkdir -p /verif/out/matrix
for s in "${seeds[@]}"; do
  p=${s%%-*}
  (cd $WT && git checkout -q -- . && git apply /verif/seeded/$s/patch.diff) || { echo "$s apply-failed"; continue; }
  t0=$(date +%s)
  $VERIF/bin/gosmt check $p --tier quick -repo $WT -verif $VERIF -evidence /verif/out/matrix/$s.evidence.json > /verif/out/matrix/$s.log 2>&1; rc=$?
  t1=$(date +%s)
  labels=$(grep -o '# [A-Za-z0-9_]*/[^:]*:' /verif/out/matrix/$s.log | sort -u | tr '\n' ' ')
  echo "$s property=$p exit=$rc secs=$((t1-t0)) $labels"
  python3 - "$s" "$rc" "$labels" <<'PY'
import json,sys
s,rc,labels=sys.argv[1],int(sys.argv[2]),sys.argv[3]
p=f'/verif/seeded/{s}/meta.json'
m=json.load(open(p))
m['check_result']={"quick_exit":rc,"detected":rc==1,"violations":sorted(set(l.strip('# :') for l in labels.split() if '/' in l))}
json.dump(m,open(p,'w'),indent=1)
PY
done
git -C /repo worktree remove --force $WT
