package main

// encoding/json contract stubs: uninterpreted encoders with round-trip axioms.

import (
	"encoding/json"
	"fmt"
	"sort"
	"go/types"
	"strings"

	"golang.org/x/tools/go/ssa"
)

// liftIte applies f to the leaves of an if-then-else tree.
func liftIte(tt *TermTable, s *Term, f func(*Term) *Term) *Term {
	if s.op == "ite" {
		return tt.Ite(s.args[0], liftIte(tt, s.args[1], f), liftIte(tt, s.args[2], f))
	}
	return f(s)
}

// concreteMap parses a constant JSON text into (has, val) arrays.
func concreteMap(tt *TermTable, text string) (*Term, *Term, bool) {
	var m map[string]string
	if err := json.Unmarshal([]byte(text), &m); err != nil {
		return nil, nil, false
	}
	h, v := tt.ConstArr(SArrSB, tt.Bool(false)), tt.ConstArr(SArrSS, tt.Str(""))
	keys := make([]string, 0, len(m))
	for k := range m {
		keys = append(keys, k)
	}
	sort.Strings(keys)
	for _, k := range keys {
		h = tt.Store(h, tt.Str(k), tt.Bool(true))
		v = tt.Store(v, tt.Str(k), tt.Str(m[k]))
	}
	return h, v, true
}

func decMapHas(tt *TermTable, s *Term) *Term {
	return liftIte(tt, s, func(s *Term) *Term {
		if s.op == "uf:jenc_map" {
			return s.args[0]
		}
		if c, ok := s.StrVal(); ok {
			if h, _, ok := concreteMap(tt, c); ok {
				return h
			}
		}
		return tt.UF("jdec_map_has", SArrSB, s)
	})
}
func decMapVal(tt *TermTable, s *Term) *Term {
	return liftIte(tt, s, func(s *Term) *Term {
		if s.op == "uf:jenc_map" {
			return s.args[1]
		}
		if c, ok := s.StrVal(); ok {
			if _, v, ok := concreteMap(tt, c); ok {
				return v
			}
		}
		return tt.UF("jdec_map_val", SArrSS, s)
	})
}

// validMap: s is the JSON encoding of a string map. Strings registered as
// valid by construction (structured havoc) simplify to true.
func validMap(tt *TermTable, s *Term) *Term {
	return liftIte(tt, s, func(s *Term) *Term {
		if s.op == "uf:jenc_map" || tt.validStr[s.id] == "map" {
			return tt.Bool(true)
		}
		if c, ok := s.StrVal(); ok {
			_, _, ok := concreteMap(tt, c)
			return tt.Bool(ok)
		}
		return tt.UF("jvalid_map", SBool, s)
	})
}

func (ex *Exec) encMap(m *MapObj) *Term {
	tt := ex.tt
	var h, v *Term
	if m != nil && m.src != nil {
		return m.src
	}
	if m == nil || (!m.opaq && allConstEntries(tt, m)) {
		// a fully concrete map is marshalled to its real JSON text (sorted keys, as encoding/json does)
		cm := map[string]string{}
		if m != nil {
			for _, k := range m.keys {
				ks, _ := k.StrVal()
				vs, _ := tt.Select(m.val, k).StrVal()
				cm[ks] = vs
			}
		}
		if m == nil {
			return tt.Str("null")
		}
		b, _ := json.Marshal(cm)
		return tt.Str(string(b))
	}
	if m == nil {
		h, v = tt.ConstArr(SArrSB, tt.Bool(false)), tt.ConstArr(SArrSS, tt.Str(""))
	} else {
		h, v = m.has, m.val
	}
	e := tt.UF("jenc_map", SString, h, v)
	if !ex.W.encSeen[e.id] {
		ex.W.encSeen[e.id] = true
		tt.axioms = append(tt.axioms,
			tt.Eq(tt.UF("jdec_map_has", SArrSB, e), h),
			tt.Eq(tt.UF("jdec_map_val", SArrSS, e), v),
			tt.UF("jvalid_map", SBool, e))
		if m != nil {
			snap := &MapObj{sym: true, has: h, val: v, keys: append([]*Term{}, m.keys...), opaq: m.opaq}
			ex.W.marshalled[e.id] = snap
		} else {
			ex.W.marshalled[e.id] = &MapObj{sym: true, has: h, val: v, keys: []*Term{}}
		}
	}
	return e
}

func allConstEntries(tt *TermTable, m *MapObj) bool {
	for _, k := range m.keys {
		if _, ok := k.StrVal(); !ok {
			return false
		}
		if _, ok := tt.Select(m.val, k).StrVal(); !ok {
			return false
		}
	}
	return true
}

// ---- struct codecs

type jleaf struct {
	path []int
	sort Sort
	kind string // str int bool bytesnil bytes
	w    int
	sign bool
	raw  bool // json.RawMessage: encoded verbatim, and only if it is a JSON text
}

func jsonLeaves(t types.Type, path []int, out *[]jleaf) bool {
	switch u := t.Underlying().(type) {
	case *types.Basic:
		switch {
		case u.Info()&types.IsString != 0:
			*out = append(*out, jleaf{path: path, sort: SString, kind: "str"})
		case u.Info()&types.IsBoolean != 0:
			*out = append(*out, jleaf{path: path, sort: SBool, kind: "bool"})
		case u.Info()&types.IsInteger != 0:
			w, s := intWidth(u)
			*out = append(*out, jleaf{path: path, sort: BVSort(w), kind: "int", w: w, sign: s})
		default:
			return false
		}
		return true
	case *types.Slice:
		if isByteSlice(t) {
			raw := false
			if n, ok := types.Unalias(t).(*types.Named); ok && n.Obj().Pkg() != nil && n.Obj().Pkg().Path() == "encoding/json" && n.Obj().Name() == "RawMessage" {
				raw = true
			}
			*out = append(*out, jleaf{path: path, sort: SBool, kind: "bytesnil"}, jleaf{path: path, sort: SString, kind: "bytes", raw: raw})
			return true
		}
		return false
	case *types.Map:
		if isStringMap(t) {
			*out = append(*out, jleaf{path: path, sort: SString, kind: "smap"})
			return true
		}
		return false
	case *types.Struct:
		for i := 0; i < u.NumFields(); i++ {
			if !u.Field(i).Exported() {
				continue
			}
			if tag := u.Tag(i); strings.Contains(tag, `json:"-"`) {
				continue
			}
			if !jsonLeaves(u.Field(i).Type(), extendPath(path, i), out) {
				return false
			}
		}
		return true
	}
	return false
}

func typeKey(t types.Type) string {
	s := t.String()
	if i := strings.LastIndex(s, "/"); i >= 0 {
		s = s[i+1:]
	}
	return sanitize(s)
}

func structAt(v Value, path []int) Value {
	for _, i := range path {
		v = v.(*StructV).fs[i]
	}
	return v
}

func setStructAt(root *StructV, path []int, nv Value) {
	cur := root
	for k, i := range path {
		if k == len(path)-1 {
			cur.fs[i] = nv
			return
		}
		cur = cur.fs[i].(*StructV)
	}
}

// rawInvalid: some json.RawMessage member of sv is non-nil and not a JSON text (nil is encoded as null).
func (ex *Exec) rawInvalid(t types.Type, sv *StructV) *Term {
	tt := ex.tt
	var leaves []jleaf
	if !jsonLeaves(t, nil, &leaves) {
		return nil
	}
	var bad []*Term
	for _, l := range leaves {
		if l.raw {
			b := structAt(sv, l.path).(*BytesV)
			bad = append(bad, tt.And(tt.Not(b.isNil), tt.Or(tt.Eq(b.s, tt.Str("")), tt.Not(tt.UF("jvalid_any", SBool, b.s)))))
		}
	}
	if len(bad) == 0 {
		return nil
	}
	return tt.Or(bad...)
}

// encStruct marshals a struct value of type t.
func (ex *Exec) encStruct(t types.Type, sv *StructV) (*Term, bool) {
	tt := ex.tt
	var leaves []jleaf
	if !jsonLeaves(t, nil, &leaves) {
		return nil, false
	}
	key := typeKey(t)
	var args []*Term
	for _, l := range leaves {
		v := structAt(sv, l.path)
		switch l.kind {
		case "bytesnil":
			args = append(args, v.(*BytesV).isNil)
		case "bytes":
			args = append(args, v.(*BytesV).s)
		case "smap":
			args = append(args, ex.encMap(v.(*MapV).m))
		default:
			args = append(args, v.(*Term))
		}
	}
	e := tt.UF("jenc_"+key, SString, args...)
	if !ex.W.encSeen[e.id] {
		ex.W.encSeen[e.id] = true
		tt.axioms = append(tt.axioms, tt.UF("jvalid_"+key, SBool, e), tt.Not(tt.UF("jnull_"+key, SBool, e)),
			tt.Not(tt.UF("jvalid_string", SBool, e)), tt.PrefixOf(tt.Str("{"), e)) // an object is not a JSON string
		for i, l := range leaves {
			tt.axioms = append(tt.axioms, tt.Eq(tt.UF(fmt.Sprintf("jdec_%s_%d", key, i), l.sort, e), args[i]))
		}
	}
	return e, true
}

// decStruct builds a struct of type t decoded from content s.
func (ex *Exec) decStruct(t types.Type, s *Term) (*StructV, bool) {
	tt := ex.tt
	var leaves []jleaf
	if !jsonLeaves(t, nil, &leaves) {
		return nil, false
	}
	key := typeKey(t)
	sv := ex.zero(t).(*StructV)
	for i, l := range leaves {
		i, l := i, l
		d := liftIte(tt, s, func(s *Term) *Term {
			if s.op == "uf:jenc_"+key {
				return s.args[i]
			}
			return tt.UF(fmt.Sprintf("jdec_%s_%d", key, i), l.sort, s)
		})
		switch l.kind {
		case "bytesnil":
			b := structAt(sv, l.path).(*BytesV)
			setStructAt(sv, l.path, &BytesV{isNil: d, s: b.s})
		case "bytes":
			b := structAt(sv, l.path).(*BytesV)
			setStructAt(sv, l.path, &BytesV{isNil: b.isNil, s: d})
		case "smap":
			// a map-valued member: absent/null (nil map) or a map with one entry (stated bound: decoded
			// member maps of structs have at most one entry; the entry itself is arbitrary)
			ex.H.noteBound("string maps decoded as struct members have <= 1 entry")
			if ex.choose(2, nil, "json-member-map") == 0 {
				setStructAt(sv, l.path, &MapV{})
			} else {
				m := ex.newSymMap()
				k := tt.UF(fmt.Sprintf("jdec_%s_%d_key", key, i), SString, d)
				v := tt.UF(fmt.Sprintf("jdec_%s_%d_val", key, i), SString, d)
				m.has = tt.Store(m.has, k, tt.Bool(true))
				m.val = tt.Store(m.val, k, v)
				m.keys = append(m.keys, k)
				setStructAt(sv, l.path, &MapV{m: m})
			}
		default:
			setStructAt(sv, l.path, d)
		}
	}
	return sv, true
}

func (ex *Exec) bytesOf(v Value) *BytesV {
	switch b := v.(type) {
	case *BytesV:
		return b
	case *SliceV:
		if b.len == 0 {
			return &BytesV{isNil: ex.tt.Bool(b.arr == nil), s: ex.tt.Str("")}
		}
	}
	panic(ex.unsupported("expected byte slice, got %T", v))
}

func (ex *Exec) opaqueErr(tag string) Value {
	ex.nobj++
	return &IfaceV{typ: ex.P.errorStringType(), v: &OpaqueV{kind: "error", data: tag, id: ex.nobj}}
}

func nilErr() Value { return &IfaceV{} }

func init() {
	intercepts["encoding/json.Marshal"] = func(ex *Exec, fr *Frame, args []Value, site ssa.Instruction) Value {
		tt := ex.tt
		iv := args[0].(*IfaceV)
		ok := func(s *Term) Value {
			return &TupleV{vs: []Value{&BytesV{isNil: tt.Bool(false), s: s}, nilErr()}}
		}
		if iv.typ == nil {
			return ok(tt.Str("null"))
		}
		ex.H.noteStub("encoding/json.Marshal(round-trip contract)")
		t := iv.typ
		v := iv.v
		if p, isPtr := t.Underlying().(*types.Pointer); isPtr {
			pv := v.(*PtrV)
			if pv.obj == nil {
				return ok(tt.Str("null"))
			}
			if pv.isNil != nil {
				if ex.branch(pv.isNil, "marshal-nilptr") {
					return ok(tt.Str("null"))
				}
			}
			t = p.Elem()
			v = ex.load(&PtrV{obj: pv.obj, path: pv.path})
		}
		switch x := v.(type) {
		case *MapV:
			if isStringMap(t) {
				return ok(ex.encMap(x.m))
			}
		case *StructV:
			// a json.RawMessage member that is not a JSON text makes the encoder fail
			if bad := ex.rawInvalid(t, x); bad != nil && ex.branch(bad, "marshal-invalid-raw") {
				return &TupleV{vs: []Value{&BytesV{isNil: tt.Bool(true), s: tt.Str("")}, ex.opaqueErr("json: error calling MarshalJSON for type json.RawMessage")}}
			}
			if e, k := ex.encStruct(t, x); k {
				return ok(e)
			}
		case *Term:
			if x.sort == SString {
				e := tt.UF("jenc_string", SString, x)
				if !ex.W.encSeen[e.id] {
					ex.W.encSeen[e.id] = true
					tt.axioms = append(tt.axioms, tt.Eq(tt.UF("jdec_string", SString, e), x), tt.UF("jvalid_string", SBool, e),
						tt.Not(tt.UF("jvalid_Recv", SBool, e)), tt.PrefixOf(tt.Str("\""), e))
				}
				return ok(e)
			}
		}
		// anything else: an opaque, unconstrained encoding (never decoded by the encoded code);
		// the marshalled value is remembered so a harness can inspect what was encoded
		ex.H.noteStub("encoding/json.Marshal(opaque:" + typeKey(t) + ")")
		ov := tt.Var("json.opaque."+typeKey(t), SString)
		ex.W.marshalledAny[ov.id] = iv
		return ok(ov)
	}

	intercepts["encoding/json.Unmarshal"] = func(ex *Exec, fr *Frame, args []Value, site ssa.Instruction) Value {
		data := ex.bytesOf(args[0])
		dst := args[1].(*IfaceV)
		return ex.jsonUnmarshal(data, dst)
	}
	intercepts["encoding/json.Valid"] = func(ex *Exec, fr *Frame, args []Value, site ssa.Instruction) Value {
		data := ex.bytesOf(args[0])
		return ex.tt.UF("jvalid_any", SBool, data.s)
	}
}

// jsonUnmarshal implements json.Unmarshal(data, dst) for the destination kinds
// the encoded code uses.
func (ex *Exec) jsonUnmarshal(data *BytesV, dst *IfaceV) Value {
	return ex.jsonUnmarshalOpt(data, dst, false)
}

// jsonExtra: "the JSON object s has members that struct type key does not declare" (what
// Decoder.DisallowUnknownFields rejects); false for the encoding of a value of that type.
func jsonExtra(tt *TermTable, key string, s *Term) *Term {
	return liftIte(tt, s, func(s *Term) *Term {
		if s.op == "uf:jenc_"+key {
			return tt.Bool(false)
		}
		return tt.UF("jextra_"+key, SBool, s)
	})
}

// jsonStringValid / jsonStringDec: decoding a JSON text as a string; the encoding of a string decodes to it.
func jsonStringValid(tt *TermTable, s *Term) *Term {
	return liftIte(tt, s, func(s *Term) *Term {
		if s.op == "uf:jenc_string" {
			return tt.Bool(true)
		}
		return tt.UF("jvalid_string", SBool, s)
	})
}

func jsonStringDec(tt *TermTable, s *Term) *Term {
	return liftIte(tt, s, func(s *Term) *Term {
		if s.op == "uf:jenc_string" {
			return s.args[0]
		}
		return tt.UF("jdec_string", SString, s)
	})
}

func (ex *Exec) jsonUnmarshalOpt(data *BytesV, dst *IfaceV, strict bool) Value {
	tt := ex.tt
	ex.H.noteStub("encoding/json.Unmarshal(contract)")
	if dst.typ == nil {
		return ex.opaqueErr("json: Unmarshal(nil)")
	}
	pt, ok := dst.typ.Underlying().(*types.Pointer)
	if !ok {
		return ex.opaqueErr("json: Unmarshal(non-pointer)")
	}
	p := ex.ptr(dst.v)
	et := pt.Elem()
	s := data.s
	// nil / empty input is a syntax error (a string known to be a valid encoding is not empty)
	emptyIn := tt.Or(data.isNil, tt.Eq(s, tt.Str("")))
	if isStringMap(et) && validMap(tt, s).IsTrue() {
		emptyIn = data.isNil
	}
	if pp, ok := et.Underlying().(*types.Pointer); ok {
		key := typeKey(pp.Elem())
		known := liftIte(tt, s, func(s *Term) *Term { return tt.Bool(s.op == "uf:jenc_"+key) })
		if known.IsTrue() {
			emptyIn = data.isNil
		}
	}
	if ex.branch(emptyIn, "json-empty-input") {
		return ex.opaqueErr("unexpected end of JSON input")
	}
	switch u := et.Underlying().(type) {
	case *types.Map:
		if isStringMap(et) {
			if !ex.branch(validMap(tt, s), "json-valid-map") {
				return ex.opaqueErr("json: cannot unmarshal")
			}
			var m *MapObj
			if snap, ok := ex.W.marshalled[s.id]; ok {
				m = &MapObj{sym: true, has: snap.has, val: snap.val, keys: append([]*Term{}, snap.keys...), opaq: snap.opaq}
				ex.nobj++
				m.id = ex.nobj
			} else {
				m = ex.opaqueSymMap(decMapHas(tt, s), decMapVal(tt, s))
			}
			m.src = s
			ex.store(p, &MapV{m: m})
			return nilErr()
		}
	case *types.Pointer: // **T
		st := u.Elem()
		if _, isStruct := st.Underlying().(*types.Struct); isStruct {
			key := typeKey(st)
			valid := liftIte(tt, s, func(s *Term) *Term {
				if s.op == "uf:jenc_"+key {
					return tt.Bool(true)
				}
				return tt.UF("jvalid_"+key, SBool, s)
			})
			isNull := liftIte(tt, s, func(s *Term) *Term {
				if s.op == "uf:jenc_"+key {
					return tt.Bool(false)
				}
				return tt.UF("jnull_"+key, SBool, s)
			})
			if !ex.branch(valid, "json-valid-"+key) {
				ex.store(p, &PtrV{typ: et})
				return ex.opaqueErr("json: cannot unmarshal into " + key)
			}
			ex.addPC(tt.UF("jvalid_any", SBool, s))
			// the JSON text null decodes to a nil pointer for every pointer destination
			ex.addPC(tt.Eq(isNull, tt.Eq(s, tt.Str("null"))))
			if ex.branch(isNull, "json-null-"+key) {
				ex.store(p, &PtrV{typ: et})
				return nilErr()
			}
			if strict && ex.branch(jsonExtra(tt, key, s), "json-unknown-field-"+key) {
				// (the real decoder may have filled some fields already; callers under test discard the value on error)
				ex.store(p, &PtrV{typ: et})
				return ex.opaqueErr("json: unknown field")
			}
			sv, ok := ex.decStruct(st, s)
			if ok {
				// encoding/json decodes into the struct an existing non-nil pointer points at (and only allocates
				// for a nil pointer): aliases of that pointer observe the new content
				if cur, isPtr := ex.peek(p).(*PtrV); isPtr && cur.obj != nil && (cur.isNil == nil || cur.isNil.IsFalse()) {
					ex.store(cur, sv)
					return nilErr()
				}
				ex.store(p, &PtrV{obj: ex.newObj(sv, st), typ: et})
				return nilErr()
			}
		}
		if b, isBasic := st.Underlying().(*types.Basic); isBasic && b.Info()&types.IsString != 0 {
			// *string destination (**string): null -> nil
			if !ex.branch(jsonStringValid(tt, s), "json-valid-string") {
				return ex.opaqueErr("json: cannot unmarshal into string")
			}
			if ex.branch(tt.Eq(s, tt.Str("null")), "json-null-string") {
				ex.store(p, &PtrV{typ: et})
				return nilErr()
			}
			ex.store(p, &PtrV{obj: ex.newObj(jsonStringDec(tt, s), st), typ: et})
			return nilErr()
		}
	case *types.Struct:
		key := typeKey(et)
		if !ex.branch(tt.UF("jvalid_"+key, SBool, s), "json-valid-"+key) {
			return ex.opaqueErr("json: cannot unmarshal into " + key)
		}
		if strict && ex.branch(jsonExtra(tt, key, s), "json-unknown-field-"+key) {
			return ex.opaqueErr("json: unknown field")
		}
		sv, ok := ex.decStruct(et, s)
		if ok {
			ex.store(p, sv)
			return nilErr()
		}
	case *types.Basic:
		if u.Info()&types.IsString != 0 {
			if cs, ok := s.StrVal(); ok {
				// concrete text: decode it for real
				var out string
				if err := json.Unmarshal([]byte(cs), &out); err != nil {
					return ex.opaqueErr("json: cannot unmarshal into string")
				}
				ex.store(p, tt.Str(out))
				return nilErr()
			}
			if !ex.branch(jsonStringValid(tt, s), "json-valid-string") {
				return ex.opaqueErr("json: cannot unmarshal into string")
			}
			ex.store(p, jsonStringDec(tt, s))
			return nilErr()
		}
	}
	panic(ex.unsupported("json.Unmarshal into %s", et))
}
