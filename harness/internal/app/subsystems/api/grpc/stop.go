package grpc

// C12: stopping the gRPC front end waits for the calls it has accepted (their completions have been handed to
// the handler goroutines by the time the kernel loop returns, but the replies are written by those goroutines).

import (
	"github.com/resonatehq/resonate/internal/vx"
	"google.golang.org/grpc"
)

func VH_G_Stop() {
	g := &Grpc{config: &Config{}, server: grpc.NewServer()}
	err := g.Stop()
	vx.Assert(err == nil, "C12:grpc-stop-returns")
	vx.Assert(vx.Lifecycle() == "grpc.GracefulStop", "C12:grpc-stop-waits-for-in-flight-calls")
	vx.Reach("done")
}
