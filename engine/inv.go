package main

// The state invariant Inv and the two-state guarantee G (DESIGN section 3),
// built directly as terms over the symbolic database.

type namedTerm struct {
	name string
	t    *Term
}

func (ex *Exec) Inv(db *SymDB, now *Term) *Term {
	var cs []*Term
	for _, p := range ex.InvParts(db, now) {
		cs = append(cs, p.t)
	}
	return ex.tt.And(cs...)
}

func (ex *Exec) InvSchema(db *SymDB) *Term {
	var cs []*Term
	for _, p := range ex.invSchemaParts(db) {
		cs = append(cs, p.t)
	}
	return ex.tt.And(cs...)
}

func (ex *Exec) invSchemaParts(db *SymDB) []namedTerm {
	tt := ex.tt
	var out []namedTerm
	for _, name := range db.names {
		t := db.tabs[name]
		var cs []*Term
		flush := func(n string) {
			out = append(out, namedTerm{"I1:" + name + ":" + n, tt.And(cs...)})
			cs = nil
		}
		for ci := range t.def.cols {
			c := &t.def.cols[ci]
			if !c.unique {
				continue
			}
			for i := range t.rows {
				for j := i + 1; j < len(t.rows); j++ {
					a, b := t.rows[i], t.rows[j]
					cs = append(cs, tt.Implies(tt.And(a.present, b.present, tt.Not(a.cols[ci].null), tt.Not(b.cols[ci].null)),
						tt.Not(tt.Eq(a.cols[ci].v, b.cols[ci].v))))
				}
			}
		}
		flush("unique")
		if t.def.keyCol >= 0 {
			for _, r := range t.rows {
				cs = append(cs, tt.Implies(r.present, tt.Not(r.cols[t.def.keyCol].null)))
			}
		}
		flush("key-notnull")
		if t.def.autoCol >= 0 {
			ac := t.def.autoCol
			cs = append(cs, tt.SLe(tt.BV(1, 64), t.nextSort))
			out = append(out, namedTerm{"B:" + name + ":nextsort", tt.SLt(t.nextSort, tt.BV(1<<40, 64))})
			for i, r := range t.rows {
				cs = append(cs, tt.Implies(r.present, tt.And(tt.Not(r.cols[ac].null), tt.SLe(tt.BV(1, 64), r.cols[ac].v), tt.SLt(r.cols[ac].v, t.nextSort))))
				for j := i + 1; j < len(t.rows); j++ {
					cs = append(cs, tt.Implies(tt.And(r.present, t.rows[j].present), tt.Not(tt.Eq(r.cols[ac].v, t.rows[j].cols[ac].v))))
				}
			}
		}
		flush("sortid")
		// Postgres 32-bit columns hold 32-bit values
		if db.dialect == "postgres" {
			lo, hi := tt.BV(uint64(0xffffffff80000000), 64), tt.BV(0x7fffffff, 64)
			for ci := range t.def.cols {
				c := &t.def.cols[ci]
				if c.typ == "INTEGER" && c.width == 32 && !c.autoinc {
					for _, r := range t.rows {
						cs = append(cs, tt.Implies(tt.And(r.present, tt.Not(r.cols[ci].null)), tt.And(tt.SLe(lo, r.cols[ci].v), tt.SLe(r.cols[ci].v, hi))))
					}
				}
			}
		}
		flush("pg-width")
	}
	return out
}

func (t *Table) c(r *Row, name string) SVal { return r.cols[t.colIndex(name)] }

func (ex *Exec) inStates(v *Term, states ...uint64) *Term {
	tt := ex.tt
	var cs []*Term
	for _, s := range states {
		cs = append(cs, tt.Eq(v, tt.BV(s, 64)))
	}
	return tt.Or(cs...)
}

func (ex *Exec) notNull(t *Table, r *Row, cols ...string) *Term {
	tt := ex.tt
	var cs []*Term
	for _, c := range cols {
		cs = append(cs, tt.Not(t.c(r, c).null))
	}
	return tt.And(cs...)
}

func (ex *Exec) validMesg(s *Term) *Term {
	tt := ex.tt
	return liftIte(tt, s, func(s *Term) *Term {
		if s.op == "uf:jenc_message.Mesg" {
			return tt.Bool(true)
		}
		return tt.And(tt.UF("jvalid_message.Mesg", SBool, s), tt.Not(tt.UF("jnull_message.Mesg", SBool, s)))
	})
}

func (ex *Exec) InvParts(db *SymDB, now *Term) []namedTerm {
	tt := ex.tt
	out := ex.invSchemaParts(db)
	big := tt.BV(1<<62, 64)
	zero := tt.BV(0, 64)
	inRange := func(v *Term) *Term { return tt.And(tt.SLe(zero, v), tt.SLt(v, big)) }
	// I2 promises
	if p := db.tabs["promises"]; p != nil {
		var cs []*Term
		for _, r := range p.rows {
			st := p.c(r, "state")
			pending := tt.Eq(st.v, tt.BV(1, 64))
			co := p.c(r, "completed_on")
			tmo := p.c(r, "timeout")
			row := tt.And(
				ex.notNull(p, r, "id", "state", "param_headers", "param_data", "timeout", "tags", "created_on"),
				ex.inStates(st.v, 1, 2, 4, 8, 16),
				validMap(tt, p.c(r, "param_headers").v), validMap(tt, p.c(r, "tags").v),
				tt.Eq(pending, co.null),
				tt.Implies(pending, tt.And(p.c(r, "value_headers").null, p.c(r, "value_data").null, p.c(r, "idempotency_key_for_complete").null)),
				tt.Implies(tt.Not(pending), tt.And(tt.Not(p.c(r, "value_headers").null), validMap(tt, p.c(r, "value_headers").v), tt.Not(p.c(r, "value_data").null),
					tt.SLe(co.v, tmo.v), tt.SLe(co.v, now))),
				tt.Implies(tt.Eq(st.v, tt.BV(16, 64)), tt.And(tt.Eq(co.v, tmo.v), p.c(r, "idempotency_key_for_complete").null,
					tt.Eq(p.c(r, "value_data").v, tt.Str("")), ex.emptyMapEnc(p.c(r, "value_headers").v))),
				tt.SLe(p.c(r, "created_on").v, now), tt.SLe(zero, p.c(r, "created_on").v),
			)
			cs = append(cs, tt.Implies(r.present, row))
		}
		out = append(out, namedTerm{"I2:promises", tt.And(cs...)})
	}
	// I3 callbacks
	if cb := db.tabs["callbacks"]; cb != nil {
		p := db.tabs["promises"]
		var cs []*Term
		for _, r := range cb.rows {
			var ex1 []*Term
			for _, pr := range p.rows {
				ex1 = append(ex1, tt.And(pr.present, tt.Eq(p.c(pr, "id").v, cb.c(r, "promise_id").v), tt.Eq(p.c(pr, "state").v, tt.BV(1, 64))))
			}
			id := cb.c(r, "id").v
			row := tt.And(
				ex.notNull(cb, r, "id", "promise_id", "root_promise_id", "recv", "mesg", "timeout", "created_on"),
				tt.Or(ex1...),
				// the id is derived from the row's own promise ids (callbackId / subscriptionId)
				tt.Or(tt.Eq(id, tt.Concat(tt.Str("__resume:"), cb.c(r, "root_promise_id").v, tt.Str(":"), cb.c(r, "promise_id").v)),
					tt.PrefixOf(tt.Concat(tt.Str("__notify:"), cb.c(r, "promise_id").v, tt.Str(":")), id)),
				ex.validMesg(cb.c(r, "mesg").v),
				tt.Eq(ex.mesgField(cb.c(r, "mesg").v, 1), cb.c(r, "root_promise_id").v),
				// a resume callback never awaits its own root (CreateCallback refuses it): the completion transaction
				// finishes the tasks rooted at the completed promise before it turns that promise's callbacks into tasks
				tt.Implies(tt.PrefixOf(tt.Str("__resume:"), id), tt.Not(tt.Eq(cb.c(r, "promise_id").v, cb.c(r, "root_promise_id").v))),
			)
			cs = append(cs, tt.Implies(r.present, row))
		}
		out = append(out, namedTerm{"I3:callbacks", tt.And(cs...)})
	}
	// I4 tasks
	if tk := db.tabs["tasks"]; tk != nil {
		p := db.tabs["promises"]
		subs := map[string][]*Term{}
		for _, r := range tk.rows {
			id := tk.c(r, "id").v
			st := tk.c(r, "state").v
			isInvoke := tt.PrefixOf(tt.Str("__invoke:"), id)
			var hasPromise []*Term
			for _, pr := range p.rows {
				hasPromise = append(hasPromise, tt.And(pr.present, tt.Eq(id, tt.Concat(tt.Str("__invoke:"), p.c(pr, "id").v))))
			}
			sub := []namedTerm{
				{"notnull", ex.notNull(tk, r, "id", "state", "root_promise_id", "recv", "mesg", "timeout", "counter", "attempt", "ttl", "expires_at", "created_on")},
				{"states", ex.inStates(st, 1, 2, 4, 8, 16)},
				{"counter", tt.SLe(tt.BV(1, 64), tk.c(r, "counter").v)},
				{"attempt", tt.SLe(zero, tk.c(r, "attempt").v)},
				{"ttl", tt.SLe(zero, tk.c(r, "ttl").v)},
				{"B:ranges", tt.And(tt.SLt(tk.c(r, "counter").v, tt.BV(1<<30, 64)), tt.SLt(tk.c(r, "attempt").v, tt.BV(1<<30, 64)), tt.SLt(tk.c(r, "ttl").v, tt.BV(1<<31, 64)))},
				{"claimed-has-process", tt.Implies(tt.Eq(st, tt.BV(4, 64)), tt.Not(tk.c(r, "process_id").null))},
				{"idprefix", tt.Or(isInvoke, tt.PrefixOf(tt.Str("__resume:"), id), tt.PrefixOf(tt.Str("__notify:"), id))},
				{"invoke-has-promise", tt.Implies(isInvoke, tt.Or(hasPromise...))},
				{"mesg", tt.And(ex.validMesg(tk.c(r, "mesg").v), tt.Eq(ex.mesgField(tk.c(r, "mesg").v, 1), tk.c(r, "root_promise_id").v))},
			}
			for _, sp := range sub {
				subs[sp.name] = append(subs[sp.name], tt.Implies(r.present, sp.t))
			}
		}
		for _, n := range []string{"notnull", "states", "counter", "attempt", "ttl", "claimed-has-process", "idprefix", "invoke-has-promise", "mesg"} {
			out = append(out, namedTerm{"I4:tasks:" + n, tt.And(subs[n]...)})
		}
		out = append(out, namedTerm{"B:tasks:ranges", tt.And(subs["B:ranges"]...)})
	}
	// I5 locks
	if lk := db.tabs["locks"]; lk != nil {
		var cs, bs []*Term
		for _, r := range lk.rows {
			cs = append(cs, tt.Implies(r.present, tt.And(ex.notNull(lk, r, "resource_id", "execution_id", "process_id", "ttl", "expires_at"),
				tt.SLe(zero, lk.c(r, "ttl").v))))
			bs = append(bs, tt.Implies(r.present, tt.SLt(lk.c(r, "ttl").v, big)))
		}
		out = append(out, namedTerm{"I5:locks", tt.And(cs...)}, namedTerm{"B:locks:ttl", tt.And(bs...)})
	}
	// I6 schedules
	if sc := db.tabs["schedules"]; sc != nil {
		var cs []*Term
		for _, r := range sc.rows {
			cs = append(cs, tt.Implies(r.present, tt.And(
				ex.notNull(sc, r, "id", "description", "cron", "tags", "promise_id", "promise_timeout", "promise_param_headers", "promise_param_data", "promise_tags", "next_run_time", "created_on"),
				validMap(tt, sc.c(r, "tags").v), validMap(tt, sc.c(r, "promise_param_headers").v), validMap(tt, sc.c(r, "promise_tags").v),

				tt.Implies(tt.Not(sc.c(r, "last_run_time").null), tt.SLt(sc.c(r, "last_run_time").v, sc.c(r, "next_run_time").v)),
				tt.SLt(sc.c(r, "created_on").v, sc.c(r, "next_run_time").v), tt.SLe(sc.c(r, "created_on").v, now),
			)))
		}
		var bs []*Term
		for _, r := range sc.rows {
			bs = append(bs, tt.Implies(r.present, inRange(sc.c(r, "next_run_time").v)))
		}
		out = append(out, namedTerm{"I6:schedules", tt.And(cs...)}, namedTerm{"B:schedules:next", tt.And(bs...)})
	}
	out = append(out, namedTerm{"B:clock", inRange(now)})
	return out
}

// emptyMapEnc: the column holds the encoding of the empty map.
func (ex *Exec) emptyMapEnc(s *Term) *Term {
	tt := ex.tt
	return liftIte(tt, s, func(s *Term) *Term {
		if s.op == "uf:jenc_map" {
			return tt.Eq(s.args[0], tt.ConstArr(SArrSB, tt.Bool(false)))
		}
		// the canonical encoding of the (non-nil) empty map
		return tt.Eq(s, tt.Str("{}"))
	})
}

func sameCols(tt *TermTable, t *Table, a, b *Row, cols ...string) *Term {
	var cs []*Term
	for _, c := range cols {
		x, y := t.c(a, c), t.c(b, c)
		cs = append(cs, tt.Eq(x.null, y.null), tt.Implies(tt.Not(x.null), tt.Eq(x.v, y.v)))
	}
	return tt.And(cs...)
}

func allCols(t *Table) []string {
	var out []string
	for _, c := range t.def.cols {
		out = append(out, c.name)
	}
	return out
}

// GParts: the guarantee relating a state to any later state.
func (ex *Exec) GParts(pre, post *SymDB) []namedTerm { return ex.GPartsSince(pre, post, nil) }

// GPartsSince: since (optional) is the tick at which pre was observed; rows that
// appear later were created by transactions built at or after that tick.
func (ex *Exec) GPartsSince(pre, post *SymDB, since *Term) []namedTerm {
	tt := ex.tt
	var out []namedTerm
	if since != nil {
		var cs []*Term
		for _, name := range []string{"promises", "tasks", "schedules"} {
			p, q := pre.tabs[name], post.tabs[name]
			if p == nil || q == nil {
				continue
			}
			for i := range p.rows {
				a, b := p.rows[i], q.rows[i]
				isNew := tt.And(b.present, tt.Or(tt.Not(a.present), tt.Not(tt.Eq(p.c(a, "sort_id").v, q.c(b, "sort_id").v))))
				cs = append(cs, tt.Implies(isNew, tt.SLe(since, q.c(b, "created_on").v)))
			}
		}
		out = append(out, namedTerm{"G5:new-rows-created-later", tt.And(cs...)})
	}
	if p := pre.tabs["promises"]; p != nil {
		q := post.tabs["promises"]
		var cs []*Term
		for i := range p.rows {
			a, b := p.rows[i], q.rows[i]
			frozen := tt.Not(tt.Eq(p.c(a, "state").v, tt.BV(1, 64)))
			cs = append(cs, tt.Implies(a.present, tt.And(b.present,
				sameCols(tt, p, a, b, "id", "sort_id", "param_headers", "param_data", "timeout", "idempotency_key_for_create", "tags", "created_on"),
				tt.Implies(frozen, sameCols(tt, p, a, b, allCols(p)...)))))
			cs = append(cs, tt.Implies(tt.And(tt.Not(a.present), b.present), tt.SLe(p.nextSort, q.c(b, "sort_id").v)))
		}
		cs = append(cs, tt.SLe(p.nextSort, q.nextSort))
		out = append(out, namedTerm{"G1:promises", tt.And(cs...)})
	}
	if p := pre.tabs["tasks"]; p != nil {
		q := post.tabs["tasks"]
		var cs []*Term
		rank := func(s *Term) *Term {
			// Init<Enqueued<Claimed<{Completed,Timedout}
			return tt.Ite(tt.Eq(s, tt.BV(1, 64)), tt.BV(0, 64), tt.Ite(tt.Eq(s, tt.BV(2, 64)), tt.BV(1, 64), tt.Ite(tt.Eq(s, tt.BV(4, 64)), tt.BV(2, 64), tt.BV(3, 64))))
		}
		for i := range p.rows {
			a, b := p.rows[i], q.rows[i]
			sa, sb := p.c(a, "state").v, q.c(b, "state").v
			ca, cb := p.c(a, "counter").v, q.c(b, "counter").v
			finished := ex.inStates(sa, 8, 16)
			mono := tt.Or(tt.SLt(ca, cb), tt.And(tt.Eq(ca, cb), tt.SLe(rank(sa), rank(sb))))
			cs = append(cs, tt.Implies(a.present, tt.And(b.present,
				sameCols(tt, p, a, b, "id", "sort_id", "root_promise_id", "recv", "mesg", "timeout", "created_on"),
				mono,
				tt.Implies(finished, sameCols(tt, p, a, b, allCols(p)...)))))
			cs = append(cs, tt.Implies(tt.And(tt.Not(a.present), b.present), tt.SLe(p.nextSort, q.c(b, "sort_id").v)))
		}
		cs = append(cs, tt.SLe(p.nextSort, q.nextSort))
		out = append(out, namedTerm{"G2:tasks", tt.And(cs...)})
	}
	if p, pp := pre.tabs["tasks"], pre.tabs["promises"]; p != nil && pp != nil {
		// G6 (C08): a promise's outstanding tasks are finished in the step that completes it: if a promise row leaves
		// the pending state between pre and post, every task that was there before with that root is finished after.
		// (Transitive: once finished a task is frozen by G2; tasks that appear later are not constrained.)
		q, qp := post.tabs["tasks"], post.tabs["promises"]
		var cs []*Term
		for i := range pp.rows {
			a, b := pp.rows[i], qp.rows[i]
			completed := tt.And(a.present, b.present, tt.Eq(pp.c(a, "state").v, tt.BV(1, 64)), tt.Not(tt.Eq(qp.c(b, "state").v, tt.BV(1, 64))))
			var ts []*Term
			for j := range p.rows {
				ta, tb := p.rows[j], q.rows[j]
				mine := tt.And(ta.present, tt.Eq(p.c(ta, "root_promise_id").v, pp.c(a, "id").v))
				ts = append(ts, tt.Implies(mine, ex.inStates(q.c(tb, "state").v, 8, 16)))
			}
			cs = append(cs, tt.Implies(completed, tt.And(ts...)))
		}
		out = append(out, namedTerm{"G6:tasks-finished-with-their-promise", tt.And(cs...)})
	}
	if p := pre.tabs["callbacks"]; p != nil {
		// G3: a registration is only removed by the completion of its promise
		q := post.tabs["callbacks"]
		pr := post.tabs["promises"]
		var cs []*Term
		for i := range p.rows {
			a, b := p.rows[i], q.rows[i]
			var stillPending []*Term
			for _, r := range pr.rows {
				stillPending = append(stillPending, tt.And(r.present, tt.Eq(pr.c(r, "id").v, p.c(a, "promise_id").v), tt.Eq(pr.c(r, "state").v, tt.BV(1, 64))))
			}
			cs = append(cs, tt.Implies(tt.And(a.present, tt.Or(stillPending...)), tt.And(b.present, sameCols(tt, p, a, b, allCols(p)...))))
		}
		out = append(out, namedTerm{"G3:callbacks", tt.And(cs...)})
	}
	if p := pre.tabs["schedules"]; p != nil {
		q := post.tabs["schedules"]
		var cs []*Term
		for i := range p.rows {
			b := q.rows[i]
			a := p.rows[i]
			cs = append(cs, tt.Implies(tt.And(tt.Not(a.present), b.present), tt.SLe(p.nextSort, q.c(b, "sort_id").v)))
			// a schedule row that survives in its slot keeps its identity and configuration
			cs = append(cs, tt.Implies(tt.And(a.present, b.present, tt.Eq(p.c(a, "sort_id").v, q.c(b, "sort_id").v)),
				sameCols(tt, p, a, b, "id", "cron", "tags", "promise_id", "promise_timeout", "promise_param_headers", "promise_param_data", "promise_tags", "idempotency_key", "created_on", "description")))
			cs = append(cs, tt.Implies(tt.And(a.present, b.present, tt.Not(tt.Eq(p.c(a, "sort_id").v, q.c(b, "sort_id").v))), tt.SLe(p.nextSort, q.c(b, "sort_id").v)))
		}
		cs = append(cs, tt.SLe(p.nextSort, q.nextSort))
		out = append(out, namedTerm{"G4:schedules", tt.And(cs...)})
	}
	return out
}
