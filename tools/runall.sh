#!/bin/bash
# runall.sh [tier]: every registered check on the current tree; prints one summary line each.
cd /verif
tier=${1:-quick}
for i in $(seq -w 1 20); do
  p=C$i
  out=$(./check $p --tier $tier 2>&1); rc=$?
  echo "$p exit=$rc $(echo "$out" | tail -1 | cut -c1-200)"
  echo "$out" | grep -E "^(VIOLATION|INCONCLUSIVE)" | cut -c1-260 | head -5
done
