SMALL = {"slots.callbacks": 1, "slots.locks": 0, "slots.schedules": 0, "slots.promises": 2, "slots.tasks": 2}
THOR = {"slots.callbacks": 2, "slots.locks": 0, "slots.schedules": 0, "slots.promises": 3, "slots.tasks": 3, "faults": 2}

def co(names, labels, opts=None, optsT=None, reach=None, pgquick=True, **kw):
    out = []
    for n in names:
        d = {"name": n, "pkg": CO, "labels": labels, "opts": dict(opts or SMALL), "opts_thorough": dict(optsT or THOR)}
        if reach and n in reach:
            d["reach"] = reach[n]
        d.update(kw)
        out.append(d)
        # the same harness over the Postgres store handlers (quick tier too unless pgquick=False)
        e = dict(d); e["opts"] = dict(d["opts"]); e["opts"]["backend"] = 1; e["opts_thorough"] = dict(d["opts_thorough"]); e["opts_thorough"]["backend"] = 1
        if not pgquick:
            e["tier"] = "thorough"
        out.append(e)
    return out

def store(names, labels):
    out = []
    for n in names:
        for pkg in (SQ, PG):
            out.append({"name": n, "pkg": pkg, "labels": labels, "reach": ["done"], "opts_thorough": dict(STORE_T)})
    return out

PROMISE_H = ["VH_P_Read", "VH_P_Create", "VH_P_Complete", "VH_P_TimeoutSweep"]
REACH_P = {"VH_P_Read": ["read-plain", "read-notfound", "read-lazy-timeout", "error"], "VH_P_Create": ["created", "exists", "exists-lazy-timeout", "error"],
           "VH_P_Complete": ["completed", "already-completed", "complete-lazy-timeout", "notfound", "error"], "VH_P_TimeoutSweep": ["sweep-write"],
           "VH_CB_CreateCallback": ["registered", "not-inserted", "already-completed", "notfound", "invalid"],
           "VH_CB_CreateSubscription": ["registered", "not-inserted", "already-completed", "notfound"],
           "VH_C07_Claim": ["claimed", "refused", "error"]}
CB_H = ["VH_CB_CreateCallback", "VH_CB_CreateSubscription"]
CBOPT = {"slots.callbacks": 2, "slots.locks": 0, "slots.schedules": 0, "slots.promises": 2, "slots.tasks": 1}

ASSUME_CO = COMMON_ASSUME + [
    "coroutines run under havoc semantics: before every store submission the database is replaced by an arbitrary state satisfying Inv and G-related to the previous one (rely/guarantee, DESIGN 3); Inv and G are re-proved for every transaction the coroutine commits (labels O2:*)",
    "gocoro Spawn/Await children run to completion at the spawn point; tail-recursive retries are cut as subsumed by the entry state",
    "store faults: a submission may fail before processing or after commit (budget 1 quick / 2 thorough); Router/Sender completions are arbitrary",
]
EXPL = "bounded symbolic execution (Go SSA -> SMT) of the real coroutine(s) and the real store handlers + SQL on a symbolic database, every interleaving with other requests abstracted by an invariant-constrained environment step before each store submission; responses and committed transactions are compared with the reference of DESIGN Appendix B"

reg["C01"] = {"level": "model_checking", "explanation": EXPL, "assumptions": ASSUME_CO,
    "outside": ["JSON/protobuf rendering of bodies", "process crash/restart (SQL engine durability is assumed)", "claim payloads and notifications are checked under C07/C08/C19"],
    "harnesses": co(PROMISE_H, ["C01:", "O2:G1", "O2:I2", "O2:I1:promises"], reach=REACH_P) + co(CB_H, ["C01:", "O2:G1", "O2:I2"], opts=CBOPT, reach=REACH_P)
                 + store(["VH_C16_UpdatePromise", "VH_C16_CreatePromise"], []) + store(["VH_C05_CompletionTxn"], ["C01:"])
                 + co(["VH_P_Search"], ["C01:", "C14:overdue"], opts={"slots.callbacks": 1, "slots.locks": 0, "slots.schedules": 0, "slots.promises": 2, "slots.tasks": 1, "faults": 0}, reach={"VH_P_Search": ["page"]})
                 + co(["VH_C07_Claim"], ["C01:"], opts={"slots.callbacks": 0, "slots.locks": 0, "slots.schedules": 0, "slots.promises": 2, "slots.tasks": 2}, reach=REACH_P)}
ROUTEOPT_EARLY = {"slots.callbacks": 0, "slots.locks": 0, "slots.schedules": 0, "slots.promises": 2, "slots.tasks": 2}
reg["C03"] = {"level": "model_checking", "explanation": EXPL, "assumptions": ASSUME_CO,
    "outside": ["HTTP/gRPC header parsing of the idempotency key and strict flag"],
    "harnesses": co(["VH_P_Create", "VH_P_Complete"], ["C03:", "C01:", "O2:G1"], reach=REACH_P) + co(["VH_D_CreateWithTask"], ["C03:"], opts=ROUTEOPT_EARLY, reach={"VH_D_CreateWithTask": ["created", "exists"]})}
reg["C04"] = {"level": "model_checking", "explanation": EXPL, "assumptions": ASSUME_CO + ["the wall clock behind time.Now() is monotone; a tick's time is the time at which its transactions are built"],
    "outside": ["wall clock to tick mapping in System.Loop", "search responses (C14)"],
    "harnesses": co(PROMISE_H, ["C04:", "O2:I2"], reach=REACH_P) + co(["VH_P_Search"], ["C04:", "C14:overdue"], opts={"slots.callbacks": 1, "slots.locks": 0, "slots.schedules": 0, "slots.promises": 2, "slots.tasks": 1, "faults": 0}, reach={"VH_P_Search": ["page"]})
                 + store(["VH_R_ReadPromises"], ["C04:"])}
reg["C05"] = {"level": "model_checking", "explanation": EXPL, "assumptions": ASSUME_CO,
    "outside": ["dispatch of the created tasks (C08)", "crash between commits (atomicity of one SQL transaction is assumed)"],
    "harnesses": store(["VH_C05_CompletionTxn"], ["C05:"]) + store(["VH_C16_CreateCallback", "VH_C16_DeleteCallbacks", "VH_C16_CreateTasks"], [])
                 + co(CB_H, ["C05:", "O2:I3"], opts=CBOPT, reach=REACH_P) + co(PROMISE_H, ["O2:I3", "O2:I4"], reach=REACH_P)}
TASKOPT = {"slots.callbacks": 0, "slots.locks": 0, "slots.schedules": 0, "slots.promises": 1, "slots.tasks": 2}
TASKOPT_T = {"slots.callbacks": 1, "slots.locks": 0, "slots.schedules": 0, "slots.promises": 2, "slots.tasks": 3, "faults": 2}
LOCKOPT = {"slots.callbacks": 0, "slots.locks": 2, "slots.schedules": 0, "slots.promises": 0, "slots.tasks": 0}
LOCKOPT_T = {"slots.callbacks": 0, "slots.locks": 3, "slots.schedules": 0, "slots.promises": 0, "slots.tasks": 0, "faults": 2}
SCHEDOPT = {"slots.callbacks": 0, "slots.locks": 0, "slots.schedules": 2, "slots.promises": 2, "slots.tasks": 1, "batch": 1}
SCHEDOPT_T = {"slots.callbacks": 0, "slots.locks": 0, "slots.schedules": 2, "slots.promises": 2, "slots.tasks": 2, "batch": 2, "faults": 2}
REACH_P.update({"VH_T_Complete": ["completed", "refused", "error"], "VH_T_Heartbeat": ["ok", "error"], "VH_T_TimeoutSweep": ["write", "no-write"],
    "VH_L_Acquire": ["acquired", "refused", "error"], "VH_L_Release": ["released", "notfound", "error"], "VH_L_Heartbeat": ["ok", "error"], "VH_L_TimeoutSweep": ["swept"],
    "VH_S_Fire": ["firing-transaction"], "VH_S_Create": ["created", "exists", "error"], "VH_S_Delete": ["answered", "error"]})
reg["C09"] = {"level": "model_checking", "explanation": EXPL, "assumptions": ASSUME_CO + ["a lock whose lease has expired but has not been swept still excludes other executions (the statement only promises the holder keeps it at least until expiry)"],
    "outside": ["t + ttl wrap-around for ttl >= 2^62"],
    "harnesses": co(["VH_L_Acquire", "VH_L_Release", "VH_L_Heartbeat", "VH_L_TimeoutSweep"], ["C09:", "O2:I5", "O2:I1:locks"], opts=LOCKOPT, optsT=LOCKOPT_T, reach=REACH_P)
                 + store(["VH_C16_AcquireLock", "VH_C16_ReleaseLock", "VH_C16_HeartbeatLocks", "VH_C16_TimeoutLocks"], [])}
reg["C10"] = {"level": "model_checking", "explanation": EXPL, "assumptions": ASSUME_CO + ["robfig/cron is an uninterpreted next(t, cron) with next(t, cron) > t for a parsable expression; html/template expansion is an uninterpreted expand(template, id, timestamp)"],
    "outside": ["that robfig/cron computes the right instants", "HTML escaping inside the id template"],
    "harnesses": co(["VH_S_Fire", "VH_S_Create", "VH_S_Delete"], ["C10:", "O2:I6", "O2:G4", "O2:I1:schedules"], opts=SCHEDOPT, optsT=SCHEDOPT_T, reach=REACH_P)
                 + store(["VH_C16_CreateSchedule", "VH_C16_UpdateSchedule", "VH_C16_DeleteSchedule"], [])}
reg["C07"] = {"level": "model_checking", "explanation": EXPL, "assumptions": ASSUME_CO,
    "outside": ["real-time behaviour of workers", "more than the fault budget of failing submissions"],
    "harnesses": co(["VH_C07_Claim"], ["claim", "refus", "invalid", "O2:G2", "O2:I4"], opts={"slots.callbacks": 0, "slots.locks": 0, "slots.schedules": 0, "slots.promises": 2, "slots.tasks": 2}, reach=REACH_P)
                 + co(["VH_T_Complete", "VH_T_Heartbeat", "VH_T_TimeoutSweep"], ["C07:", "O2:G2", "O2:I4"], opts=TASKOPT, optsT=TASKOPT_T, reach=REACH_P)
                 + store(["VH_C16_UpdateTask", "VH_C16_HeartbeatTasks", "VH_C16_CompleteTasks"], [])}

DISPOPT = {"slots.callbacks": 0, "slots.locks": 0, "slots.schedules": 0, "slots.promises": 1, "slots.tasks": 2, "batch": 1}
DISPOPT_T = {"slots.callbacks": 1, "slots.locks": 0, "slots.schedules": 0, "slots.promises": 2, "slots.tasks": 2, "batch": 2, "faults": 1}
ROUTEOPT = {"slots.callbacks": 0, "slots.locks": 0, "slots.schedules": 0, "slots.promises": 2, "slots.tasks": 2}
REACH_P.update({"VH_D_CreateRouted": ["created", "routed", "unrouted"], "VH_D_CreateWithTask": ["created", "exists", "refused-unroutable", "error"],
    "VH_D_Enqueue": ["hand-off", "final-write"], "VH_P_Search": ["page", "cursor"],
    "VH_G_ProgressPromises": ["done"], "VH_G_ProgressLocks": ["done"], "VH_G_ProgressTasks": ["done"], "VH_G_ProgressSchedules": ["done"], "VH_G_ProgressEnqueue": ["done"]})
reg["C08"] = {"level": "model_checking", "explanation": EXPL, "assumptions": ASSUME_CO + ["Sender completions are arbitrary per task (success / refused / error)"],
    "outside": ["that only one instance of a background coroutine runs at a time (kernel fact, see C11/C12)", "real sender/plugin delivery (C19)"],
    "harnesses": co(["VH_D_CreateRouted", "VH_D_CreateWithTask"], ["C08:", "C07:", "O2:I4", "O2:G2"], opts=ROUTEOPT, reach=REACH_P)
                 + co(["VH_D_Enqueue"], ["C08:", "O2:G2", "O2:I4"], opts=DISPOPT, optsT=DISPOPT_T, reach=REACH_P)
                 + store(["VH_C05_CompletionTxn"], ["C08:"]) + store(["VH_R_Enqueueable"], ["C08:"]) + store(["VH_C16_CreateTask", "VH_C16_CompleteTasks"], [])}
SWEEPOPT = {"slots.callbacks": 1, "slots.locks": 2, "slots.schedules": 2, "slots.promises": 2, "slots.tasks": 2, "batch": 1}
SWEEPOPT_T = {"slots.callbacks": 1, "slots.locks": 2, "slots.schedules": 2, "slots.promises": 3, "slots.tasks": 3, "batch": 2, "faults": 2}
reg["C11"] = {"level": "model_checking", "explanation": "ranking lemmas decided by bounded symbolic execution: one fault-free instance of each background coroutine, run alone from an arbitrary invariant-satisfying database, reduces the overdue items of its class by at least min(batch, overdue) (batch 1 quick, 2 thorough); every path of every background coroutine returns, also under injected store/router/sender failures; the sweeps' selects return exactly min(limit, overdue) overdue rows, oldest schedule first",
    "assumptions": ASSUME_CO + ["hand-offs succeed on the paths of the dispatch lemma; cron expressions are parsable and id templates valid on the paths of the schedule lemma (the statement's 'satisfiable cron')"],
    "outside": ["the real scheduler / worker goroutines delivering each completion exactly once", "queue-size dependent behaviour of the production AIO", "the System.Tick re-add predicate (C12 covers the per-request skeleton)"],
    "harnesses": co(["VH_G_ProgressPromises", "VH_G_ProgressLocks", "VH_G_ProgressTasks", "VH_G_ProgressSchedules", "VH_G_ProgressEnqueue"], ["C11:"], opts=SWEEPOPT, optsT=SWEEPOPT_T, reach=REACH_P)
                 + co(["VH_P_TimeoutSweep"], ["C11:"], reach=REACH_P) + co(["VH_T_TimeoutSweep"], ["C11:"], opts=TASKOPT, optsT=TASKOPT_T, reach=REACH_P)
                 + co(["VH_L_TimeoutSweep"], ["C11:"], opts=LOCKOPT, optsT=LOCKOPT_T, reach=REACH_P) + co(["VH_S_Fire"], ["C11:"], opts=SCHEDOPT, optsT=SCHEDOPT_T, reach=REACH_P)
                 + co(["VH_D_Enqueue"], ["C11:"], opts=DISPOPT, optsT=DISPOPT_T, reach=REACH_P)
                 + store(["VH_R_ReadPromises", "VH_R_ReadTasks", "VH_R_Enqueueable", "VH_R_ReadSchedules"], ["C11:"])}
SEARCHOPT = {"slots.callbacks": 1, "slots.locks": 0, "slots.schedules": 0, "slots.promises": 2, "slots.tasks": 1, "faults": 0}
SEARCHOPT_T = {"slots.callbacks": 1, "slots.locks": 0, "slots.schedules": 0, "slots.promises": 3, "slots.tasks": 1, "faults": 1}
reg["C14"] = {"level": "model_checking", "explanation": EXPL + "; the search statements of both backends are compared with 'the <= limit matching rows below the cursor with the largest sort ids, newest first', and following a cursor is shown correct by a two-page induction step with arbitrary interference between the pages",
    "assumptions": COMMON_ASSUME + ["LIKE is an uninterpreted predicate over (id, pattern after the '*' -> '%' rewrite); tag matching is exact on the decoded string map (json_extract per key in SQLite, @> in Postgres)", "'matching' is evaluated on the stored state"],
    "outside": ["LIKE collation / '_' and '%' inside client patterns", "JWT signature verification of the cursor token (api layer)"],
    "harnesses": store(["VH_R_SearchPromises", "VH_R_SearchSchedules"], ["C14:"]) + [dict(h, reach=["two-pages"]) for h in store(["VH_R_TwoPages"], ["C14:"])]
                 + co(["VH_P_Search"], ["C14:", "C01:", "C04:"], opts=SEARCHOPT, optsT=SEARCHOPT_T, reach=REACH_P)
                 + co(["VH_S_Search"], ["C14:"], opts={"slots.callbacks": 0, "slots.locks": 0, "slots.schedules": 2, "slots.promises": 0, "slots.tasks": 0, "faults": 0}, optsT={"slots.callbacks": 0, "slots.locks": 0, "slots.schedules": 3, "slots.promises": 0, "slots.tasks": 0, "faults": 1}, reach={"VH_S_Search": ["page", "cursor"]})}

GRPC = "internal/app/subsystems/api/grpc"
E2EOPT = {"slots.callbacks": 1, "slots.locks": 1, "slots.schedules": 1, "slots.promises": 1, "slots.tasks": 1, "faults": 1}
GRPC_H = ["ReadPromise", "CreatePromise", "CreatePromiseAndTask", "ResolvePromise", "RejectPromise", "CancelPromise", "SearchPromises", "CreateCallback", "CreateSubscription",
          "ClaimTask", "CompleteTask", "HeartbeatTasks", "AcquireLock", "ReleaseLock", "HeartbeatLocks", "ReadSchedule", "SearchSchedules", "CreateSchedule", "DeleteSchedule"]
def grpc(labels, names=GRPC_H):
    return [{"name": "VH_G_" + n, "pkg": GRPC, "labels": labels, "opts": dict(E2EOPT), "reach": ["reply", "kernel-error"]} for n in names]
X_H = ["ReadPromise", "SearchPromises", "CreatePromise", "CreatePromiseAndTask", "CompletePromise", "CreateCallback", "CreateSubscription", "ReadSchedule", "SearchSchedules",
       "CreateSchedule", "DeleteSchedule", "AcquireLock", "ReleaseLock", "HeartbeatLocks", "ClaimTask", "CompleteTask", "HeartbeatTasks", "Echo"]
XOPT = {"slots.callbacks": 1, "slots.locks": 1, "slots.schedules": 1, "slots.promises": 2, "slots.tasks": 2, "faults": 2}
XOPT_Q = dict(XOPT); XOPT_Q["faults"] = 1
for n in X_H:
    REACH_P["VH_X_" + n] = ["response"] if n == "Echo" else ["response", "error"]
FRONT_ASSUME = ["protocol parsing (protobuf / gin binding / encoding-json) is outside: the handler receives an arbitrary value of the request struct type, every optional sub-message nil or present",
    "the kernel double runs, under havoc semantics and at the point where System.AddOnRequest's wrapper would, the coroutine that cmd/serve registers for the request kind (the table is read from the SSA of the real registration block, a kind without registration panics as System.Tick asserts); the goroutine hand-over is not modelled",
    "jwt: Decode of a client token forks {error, validly signed token with arbitrary claims} because the signing key is a constant in the source"]
reg["C12"] = {"level": "model_checking", "explanation": "per-path callback/return counting by bounded symbolic execution: the kernel API answers a refused submission exactly once and stores an accepted one (symbolic occupancy and shutdown flag); each of the 18 request coroutines returns exactly one of (response, *t_api.Error) on every path under store/router/sender failures (budget 2) from an arbitrary invariant-satisfying database and never panics; every gRPC call issues at most one kernel request and produces exactly one reply or error; the real AIO answers a submission its subsystem refuses exactly once with a queue-full error without blocking the kernel goroutine (symbolic completion-queue occupancy); a sequential skeleton of System.Loop/Tick/Shutdown/Done with the real api queue shows that every request accepted before Shutdown is answered exactly once before Loop returns, for every batch size and whatever the api signal goroutine buffered between ticks",
    "assumptions": ASSUME_CO + FRONT_ASSUME + ["loop skeleton: one kernel goroutine; api.Signal's goroutine is replaced by its sequential contract (it may or may not have moved one request from sq to the one-slot buffer before the loop continues); gocoro.Add runs the added coroutine to completion at once or refuses (choice); the goroutine in coroutineMetrics is ignored; time.After never fires; aio and scheduler are doubles",
        "AIO harness: while the kernel goroutine is inside EnqueueSQE nobody drains the completion queue, so a send that would block is reported as a violation"],
    "outside": ["truly concurrent client goroutines racing Shutdown with EnqueueSQE (the unsynchronised done flag), and any interleaving of the Signal goroutines other than the sequential contract above: goroutine schedules are not encoded by this engine", "the real gocoro scheduler (coroutines suspended across ticks while the loop shuts down)"],
    "harnesses": [{"name": "VH_C12_EnqueueSQE", "pkg": "internal/api", "labels": ["C12:"], "reach": ["accepted", "queue-full", "shutting-down"]},
                  {"name": "VH_C12_AioRefused", "pkg": "internal/aio", "labels": ["C12:", "blocked"], "reach": ["accepted", "refused"]},
                  {"name": "VH_C12_AioDrain", "pkg": "internal/aio", "labels": ["C12:", "blocked"]},
                  {"name": "VH_C12_Loop", "pkg": "internal/kernel/system", "labels": ["C12:", "blocked"], "reach": ["answered", "scheduler-refused"]}]
                 + co(["VH_X_" + n for n in X_H], ["C12:"], opts=XOPT_Q, optsT=XOPT, reach=REACH_P, pgquick=False)
                 + grpc(["C12:", "C15:exactly"], ["ReleaseLock", "ClaimTask", "CreateCallback", "CreatePromiseAndTask"])}
reg["C13"] = {"level": "other", "explanation": "no request that a front end lets through can store state that violates the store invariant (the O2 obligations are re-proved for every transaction a client request causes, end to end from the handler); panic-reachability queries decided by SMT: every gRPC handler runs end to end on a fully symbolic request (real handler -> real api.Process -> real request coroutine under havoc semantics and store faults -> real reply); the decoders of stored client data (router tag source, sender receiver resolution) run on arbitrary stored bytes; every background coroutine runs from an arbitrary invariant-satisfying database. Any reachable Go panic / failed util.Assert / nil dereference / index error on any path is a violation; requests refused by the front end must not have reached the kernel",
    "assumptions": ASSUME_CO + FRONT_ASSUME,
    "outside": ["the HTTP front end (gin routing/binding/validator) is not executed symbolically; its handlers share api.Process, the api-level validation functions and the coroutines that are covered", "HTTP/JSON/protobuf parsing of hostile bytes, oversized bodies", "stalls of the kernel loop, liveness of a real process (seeded change C13-A is an unanswered sender completion, a goroutine-level wedge outside this engine)", "poll / http plugin decoders are covered by C18/C19 harnesses and the native demonstrations"],
    "harnesses": grpc(["C13:", "O2:"]) + [{"name": "VH_RT_Tag", "pkg": "internal/app/subsystems/aio/router", "labels": ["C19:"], "reach": ["no-tag", "plain-string", "json-receiver", "json-not-a-receiver"]},
                 {"name": "VH_SN_Process", "pkg": "internal/app/subsystems/aio/sender", "labels": ["C19:"], "reach": ["delivered", "failed-hand-off"]}]
                 + co(["VH_P_TimeoutSweep"], ["C11:sweep-returns"], reach=REACH_P) + co(["VH_T_TimeoutSweep"], ["C11:sweep-returns"], opts=TASKOPT, optsT=TASKOPT_T, reach=REACH_P)
                 + co(["VH_L_TimeoutSweep"], ["C11:sweep-returns"], opts=LOCKOPT, optsT=LOCKOPT_T, reach=REACH_P) + co(["VH_S_Fire"], ["C11:sweep-returns"], opts=SCHEDOPT, optsT=SCHEDOPT_T, reach=REACH_P)
                 + co(["VH_D_Enqueue"], ["C11:sweep-returns"], opts=DISPOPT, optsT=DISPOPT_T, reach=REACH_P)}
reg["C15"] = {"level": "other", "explanation": "table totality and flag/code agreement decided by SMT: all status constants are read from the current source and String(), IsSuccessful(), the gRPC code() mapping are executed on each (no panic, code of its class, HTTP code in 200..599); every gRPC handler runs end to end with the real coroutine producing the kernel outcome, and the reply is compared with it: exactly one of reply/error, error code = mapped code of the kernel status, outcome flags (acquired, released, claimed, completed, noop) agree with the kernel status, request fields are copied into the kernel request",
    "assumptions": ASSUME_CO + FRONT_ASSUME,
    "outside": ["the HTTP front end (gin) and therefore 'equivalent HTTP and gRPC requests are translated into the same kernel request' (seeded change C15-B crosses two tag maps in the gRPC handler and IS covered by the request-fields-copied obligation)", "protobuf marshalling, net/http turning a handler panic into a dropped connection", "the nil-cause branch of api.ServerError for 503-family errors is reached only through kernel queue-full/shutdown errors, which the kernel double does not produce (seeded change C15-A)"],
    "harnesses": [{"name": "VH_G_StatusTables", "pkg": GRPC, "labels": ["C15:"], "reach": ["done"]}] + grpc(["C15:", "C20:"])}
reg["C19"] = {"level": "other", "explanation": "bounded symbolic execution of the real router tag source / RouterWorker.Process on an arbitrary tag value and of the real SenderWorker.Process on an arbitrary stored receiver with recording plugins: each case of the statement (absent tag, plain string, JSON receiver object, other JSON; logical name -> configured target, URL scheme, unknown address -> failed hand-off; body names the task and links / the completed promise; exactly one outcome per hand-off) is an obligation decided by SMT; the dispatched links are checked in the dispatch harness",
    "assumptions": COMMON_ASSUME + ["encoding/json contracts: Valid is an uninterpreted predicate, Decode forks {error, null -> nil, value with arbitrary fields}; net/url.Parse is an uninterpreted scheme/host/path projection; the marshalled body is inspected as the Go value handed to json.Marshal"],
    "outside": ["byte-level JSON of the body", "the http plugin's POST and the poll plugin's delivery (C18)", "DisallowUnknownFields strictness of the real decoder (seeded change C19-B replaces the strict decoder; the json stub does not distinguish the two decoders)"],
    "harnesses": [{"name": "VH_RT_Tag", "pkg": "internal/app/subsystems/aio/router", "labels": ["C19:"], "reach": ["no-tag", "plain-string", "json-receiver", "json-not-a-receiver"]},
                 {"name": "VH_SN_Process", "pkg": "internal/app/subsystems/aio/sender", "labels": ["C19:"], "reach": ["delivered", "failed-hand-off"]}]
                 + co(["VH_D_Enqueue"], ["C08:message-names", "C08:dispatches-only"], opts=DISPOPT, optsT=DISPOPT_T, reach=REACH_P)
                 + co(["VH_D_CreateRouted"], ["C08:invocation-task-addressed-as-routed"], opts=ROUTEOPT, reach=REACH_P)}

E_H = ["ReadPromise", "ReadPromises", "SearchPromises", "CreatePromise", "UpdatePromise", "CreateCallback", "DeleteCallbacks", "ReadSchedule", "ReadSchedules", "SearchSchedules",
       "CreateSchedule", "UpdateSchedule", "DeleteSchedule", "ReadLock", "AcquireLock", "ReleaseLock", "HeartbeatLocks", "TimeoutLocks", "ReadTask", "ReadTasks", "ReadEnqueueableTasks",
       "CreateTask", "CreateTasks", "CompleteTasks", "UpdateTask", "HeartbeatTasks", "CreatePromiseAndTask"]
reg["C17"] = {"level": "translation_validation", "explanation": "for each of the 27 store command kinds the real SQLite handler and the real Postgres handler (Go SSA + their own SQL statement constants) are executed symbolically on the same symbolic database and the same symbolic command; SMT decides that they agree on error/success, on the result and on the resulting database; the two CREATE TABLE scripts are compared column by column",
    "assumptions": COMMON_ASSUME + ["documented dialect differences are not alarms: parameter numbering; LIKE collation (one uninterpreted predicate); JSON containment @> vs per-key json_extract on string-valued maps; rows of a LIMIT query without total order compared by count; SQLite's arbitrary representative under GROUP BY vs DISTINCT ON .. ORDER BY sort_id compared by the number of roots served; SERIAL vs AUTOINCREMENT; cursor positions within 32 bits"],
    "outside": ["the engines' own behaviour (MVCC, collations, JSON operators on non-string values)", "Postgres cannot be run here: its half of a counterexample is by reading, the SQLite half is demonstrable natively"],
    "harnesses": [{"name": "VH_E_" + n, "pkg": CO, "labels": ["C17:"], "reach": ["both-ok"], "opts_thorough": dict(STORE_T)} for n in E_H] + [{"name": "VH_E_Schema", "pkg": CO, "labels": ["C17:"], "reach": ["done"]}]}

# C02: linearizability by the rely/guarantee argument
ALL_REQ = co(PROMISE_H[:3], ["C01:", "C03:", "C04:never", "C04:timeout", "C04:no-"], reach=REACH_P) + co(CB_H, ["C01:", "C05:"], opts=CBOPT, reach=REACH_P) \
    + co(["VH_C07_Claim"], ["claim", "refus", "invalid"], opts={"slots.callbacks": 0, "slots.locks": 0, "slots.schedules": 0, "slots.promises": 2, "slots.tasks": 2}, reach=REACH_P) \
    + co(["VH_T_Complete", "VH_T_Heartbeat"], ["C07:"], opts=TASKOPT, optsT=TASKOPT_T, reach=REACH_P) \
    + co(["VH_L_Acquire", "VH_L_Release", "VH_L_Heartbeat"], ["C09:"], opts=LOCKOPT, optsT=LOCKOPT_T, reach=REACH_P) \
    + co(["VH_S_Create", "VH_S_Delete"], ["C10:"], opts=SCHEDOPT, optsT=SCHEDOPT_T, reach=REACH_P)
reg["C02"] = {"level": "model_checking",
    "explanation": "linearizability is decided through a rely/guarantee reduction instead of enumerating interleavings: every request coroutine is executed symbolically with an arbitrary invariant- and guarantee-respecting change of the database before each of its store submissions (this covers every interleaving/batching with any number of other requests, DESIGN 3), and SMT shows (1) its response equals the sequential reference applied to the database state its decisive transaction ran on (a state that existed), (2) that transaction is the request's only effect and is itself the sequential reference's effect, (3) the invariant and guarantee are preserved by every transaction of every coroutine, which closes the induction. The linearization point is the decisive transaction; it lies between submission and response",
    "assumptions": ASSUME_CO + ["store submissions are executed atomically and in an order consistent with tick order (kernel is single threaded; the store worker executes batches serially)"],
    "outside": ["an explicit two-request product exploration (self-composition) is not built: pairs are covered through the environment abstraction, which is complete only relative to Inv/G being the right abstraction of 'what other requests can do' (that is what obligation (3) proves)", "search responses (C14) and claim payload promises are checked for row-equality only"],
    "harnesses": ALL_REQ + [dict(h, opts=dict(h["opts"], retries=1)) for h in co(["VH_P_CompleteOwnEffect"], ["C02:"], reach={"VH_P_CompleteOwnEffect": ["answered"]}) if h.get("tier") != "thorough"]}
reg["C06"] = {"level": "model_checking",
    "explanation": "the background sweep that fires schedules advances a schedule in the same transaction that creates its promise (a crash between two commits cannot lose a scheduled promise); the logical half of durability decided by SMT: Execute of both backends with a failure injected at every database/sql call position of a two-transaction batch (error => database equals the BeginTx snapshot, result => commit succeeded, every statement ran on the transaction opened by this Execute); store.Process builds completions only from a committed Execute; the state invariant (no completed promise with unconverted registrations, no invoke task without its promise) holds after EVERY single commit of every coroutine (labels O2:*), so stopping the process between any two store operations leaves a consistent state; routed creation and completion are single transactions",
    "assumptions": COMMON_ASSUME + ["a committed SQL transaction survives a process kill and an uncommitted one leaves no trace: the durability of SQLite/Postgres themselves is trusted, not checked"],
    "outside": ["kill -9 / restart of the serve command, WAL/fsync behaviour, repeated crashes during recovery", "how the flag library turns the `default` struct tags into configuration values"],
    "harnesses": store(["VH_C06_ExecuteAtomic", "VH_C06_ProcessError"], ["C06:", "C16:", "C12:"]) and [dict(h, reach=["committed", "failed"]) for h in store(["VH_C06_ExecuteAtomic", "VH_C06_ProcessError"], ["C06:", "C16:", "C12:"])]
                 + co(PROMISE_H, ["O2:"], reach=REACH_P) + co(CB_H, ["O2:"], opts=CBOPT, reach=REACH_P) + co(["VH_D_CreateRouted", "VH_D_CreateWithTask"], ["O2:", "C08:routed", "C08:promise-and-task", "C08:create-with-task"], opts=ROUTEOPT, reach=REACH_P)
                 + store(["VH_C05_CompletionTxn"], ["C05:registration", "C05:exactly", "C05:created"])
                 + co(["VH_S_Fire"], ["C10:promise-created", "C10:one-schedule"], opts=SCHEDOPT, optsT=SCHEDOPT_T, reach=REACH_P)}
reg["C18"] = {"level": "model_checking",
    "explanation": "bounded symbolic execution of the real connection table (add / rmv / get) and PollWorker.Process over every sequence of k operations (connect, disconnect incl. the late disconnect of a replaced connection, send) with arbitrary (symbolic) group and id strings - which of them coincide is decided by the solver - every buffer size 1..2, limit 1..2, and every random pick; after each step SMT decides the statement's clauses",
    "assumptions": ["channels are modelled as bounded FIFOs with non-blocking operations only (that is all the encoded code uses); prometheus gauges are no-ops; rand.Intn explores every value"],
    "outside": ["the worker's select priorities and the timing of sends relative to connection changes across goroutines", "the HTTP streaming handler and shutdown of the plugin"],
    "harnesses": [{"name": "VH_C18_Ops", "pkg": "internal/app/plugins/poll", "labels": ["C18:"], "opts": {"steps": 3}, "opts_thorough": {"steps": 4}, "reach": ["done", "delivered", "reconnect", "limit-reached", "late-disconnect"]}]}
reg["C20"] = {"level": "model_checking",
    "explanation": "verbatim storage is decided as equalities over arbitrary strings/bytes/maps/64-bit integers: every create/update handler of both backends writes exactly the supplied arguments (C16 harnesses), every read returns the row's content (record -> object conversion, body-is-row obligations), ids are matched with '=' on the unmodified argument (conditional-write guards), derived ids embed the client id unaltered (task id of a routed promise, callback/subscription ids, scheduled promise id = expand(template, id, occurrence)), gRPC handlers copy request fields unmodified",
    "assumptions": ASSUME_CO + FRONT_ASSUME + ["nil and empty maps / byte strings are the same datum"],
    "outside": ["wire encodings: base64 in JSON and protobuf marshalling; gin's request matching itself (only its configuration and the registered route patterns are checked, on the real gin source)", "HTML escaping inside html/template", "restart"],
    "harnesses": store(["VH_C16_CreatePromise", "VH_C16_UpdatePromise", "VH_C16_CreateCallback", "VH_C16_CreateTask", "VH_C16_CreateTasks", "VH_C16_CreateSchedule", "VH_C16_AcquireLock"], [])
                 + co(["VH_P_Read", "VH_P_Create", "VH_P_Complete"], ["C01:body", "C20:"], reach=REACH_P) + co(CB_H, ["C05:registration-stored", "C05:registration-returned"], opts=CBOPT, reach=REACH_P)
                 + co(["VH_S_Fire"], ["C10:promise-as-configured", "C10:promise-created"], opts=SCHEDOPT, optsT=SCHEDOPT_T, reach=REACH_P)
                 + co(["VH_D_CreateRouted"], ["C08:invocation-task-addressed-as-routed"], opts=ROUTEOPT, reach=REACH_P)
                 + grpc(["C20:", "C15:request-fields-copied"], ["ReadPromise", "CreatePromise", "CreateSchedule"])}

# C16 also owns batch ordering/atomicity/failure, the reads and the completion transaction
reg["C16"]["harnesses"] += [dict(h, reach=["committed", "failed"]) for h in store(["VH_C06_ExecuteAtomic", "VH_C06_ProcessError"], ["C16:", "C06:"])] \
    + store(["VH_R_ReadPromises", "VH_R_ReadTasks", "VH_R_Enqueueable", "VH_R_ReadSchedules"], []) + store(["VH_C05_CompletionTxn"], ["C16:", "C05:registration", "C05:exactly", "C05:created", "C05:other", "C05:no-spurious"])

_res = {"name": "VH_SN_Resolve", "pkg": "internal/app/subsystems/aio/sender", "labels": ["C19:"], "reach": ["physical", "logical", "configured-target"]}
reg["C19"]["harnesses"].append(_res)
reg["C13"]["harnesses"].append(dict(_res))

HTTP = "internal/app/subsystems/api/http"
HTTP_H = ["ReadPromise", "CreatePromise", "CreatePromiseAndTask", "CompletePromise", "CreateCallback", "CreateSubscription", "ReadSchedule", "CreateSchedule", "DeleteSchedule",
          "AcquireLock", "ReleaseLock", "HeartbeatLocks", "ClaimTask", "CompleteTask", "HeartbeatTasks"]
def http(labels):
    out = [{"name": "VH_H_" + n, "pkg": HTTP, "labels": labels, "opts": dict(E2EOPT), "reach": ["reply", "kernel-error", "refused-by-front-end"]} for n in HTTP_H]
    out += [{"name": "VH_H_" + n, "pkg": HTTP, "labels": labels, "opts": {"slots.callbacks": 0, "slots.locks": 0, "slots.schedules": 1, "slots.promises": 1, "slots.tasks": 0, "faults": 0},
             "reach": ["reply", "refused-by-front-end", "cursor-in-reply"]} for n in ["SearchPromises", "SearchSchedules"]]
    return out
ROUTES = {"name": "VH_H_Routes", "pkg": HTTP, "labels": ["C20:", "C13:"]}
reg["C13"]["harnesses"] += http(["C13:", "O2:"]) + [ROUTES]
reg["C20"]["harnesses"] += [dict(h, labels=["C20:"]) for h in http(["C20:"]) if h["name"] in ("VH_H_ReadPromise", "VH_H_CreatePromise", "VH_H_CompletePromise", "VH_H_CreateCallback", "VH_H_CreateSubscription", "VH_H_ReadSchedule", "VH_H_CreateSchedule", "VH_H_DeleteSchedule", "VH_H_ClaimTask", "VH_H_CompleteTask", "VH_H_AcquireLock") and h.get("tier") != "thorough"] + [ROUTES]
reg["C20"]["explanation"] += "; the HTTP handlers run end to end on requests from the gin binding contract stub and every field that reaches the kernel equals what the client sent (path ids through extractId), the reply object is the kernel's; http.New is executed with gin v1.10 loaded from source: ids travel in catch-all parameters and the engine is not configured to decode path parameters with query semantics"
reg["C15"]["harnesses"] += http(["C15:", "C12:"])
for k in ("C13", "C15"):
    reg[k]["outside"] = [o for o in reg[k]["outside"] if not o.startswith("the HTTP front end")]
    reg[k]["outside"].append("gin's router, JSON/header decoding and validator are replaced by a contract stub: ShouldBind* either fails or yields ANY value satisfying the struct's binding tags (enums with their own UnmarshalJSON take their declared constants), Param returns an arbitrary string (catch-all parameters with gin's leading '/'); the preconditions of that contract (catch-all routes for ids, no query-style unescaping) are checked by VH_H_Routes on the real gin source")
    reg[k]["explanation"] += "; the 17 HTTP handlers are executed the same way (real handler, real api.Process, real coroutine) on requests produced by the binding contract stub"

# The repository's own store suite (store/test/cases.go) run through the encoding of each backend is also an
# obligation of the store-level properties: the Postgres store test cannot run here (no server), so for the
# Postgres handlers this is the only execution of those expectations.
SELFTEST = [{"name": "VH_Selftest", "pkg": "internal/app/subsystems/aio/store/test", "labels": [], "opts": {"backend": b}} for b in (0, 1)]
for k in ("C16", "C17"):
    reg[k]["harnesses"] += [dict(h, opts=dict(h["opts"])) for h in SELFTEST]
    reg[k]["explanation"] += "; the repository's 55 concrete store test cases are executed through the encoding of both backends' handlers and their expected results are obligations (for Postgres, whose store test is skipped without a server, this is the only execution of the suite's expectations)"

# No request that either front end lets through can break the store invariant / guarantee: the front-end
# harnesses (real handler -> real api -> real System.Tick -> real coroutine under havoc) pose the O2
# obligations of the property that owns the table the request kind writes.
def front(hnames, gnames, labels):
    out = [dict(h, labels=labels) for h in http(labels) if h["name"] in ["VH_H_" + n for n in hnames] and h.get("tier") != "thorough"]
    out += grpc(labels, gnames)
    return out
FRONT_O2 = {
    "C04": (["CompletePromise"], ["ResolvePromise"], ["O2:I2", "O2:G1"]),
    "C05": (["CreateCallback", "CreateSubscription"], [], ["O2:I3", "O2:G3"]),
    "C07": (["ClaimTask", "CompleteTask", "HeartbeatTasks"], [], ["O2:I4", "O2:G2"]),
    "C09": (["AcquireLock", "ReleaseLock", "HeartbeatLocks"], ["AcquireLock"], ["O2:I5"]),
    "C10": (["CreateSchedule", "DeleteSchedule"], ["CreateSchedule"], ["O2:I6", "O2:G4"]),
}
for k, (hn, gn, lb) in FRONT_O2.items():
    reg[k]["harnesses"] += front(hn, gn, lb)
    reg[k]["explanation"] += "; the HTTP/gRPC handlers of the request kinds that write this property's table are run end to end (real handler, real api queue, real System.Tick, the coroutine cmd/serve registers, havoc semantics) and the invariant/guarantee clauses are re-proved for every transaction a client request can cause"
    reg[k]["assumptions"] = reg[k]["assumptions"] + FRONT_ASSUME

# ---- second round of seeded changes (variants C): units that were not encoded before
HTTPPL = {"name": "VH_PL_HttpProcess", "pkg": "internal/app/plugins/http", "reach": ["answered", "not-sent", "transport-error"]}
reg["C08"]["harnesses"].append(dict(HTTPPL, labels=["C08:"]))
reg["C19"]["harnesses"].append(dict(HTTPPL, labels=["C19:", "C08:", "C20:"]))
reg["C20"]["harnesses"].append(dict(HTTPPL, labels=["C20:"]))
reg["C13"]["harnesses"].append(dict(HTTPPL, labels=["C13:"]))
for k in ("C08", "C19"):
    reg[k]["explanation"] += "; the http transport plugin's hand-off (real HttpWorker.Process over a net/http client contract stub: NewRequest fails or builds, Do fails or answers with an arbitrary status) reports success only for a 2xx answer (always for 200), posts exactly the dispatched body to exactly the configured url, and sends nothing for undecodable receiver data"
reg["C19"]["harnesses"].append({"name": "VH_SN_New", "pkg": "internal/app/subsystems/aio/sender", "labels": ["C19:"], "reach": ["builtin-default", "configured-default"]})
reg["C19"]["explanation"] += "; the real sender constructor builds the target table exactly from the configuration (symbolic target names, a configured target named default included)"
BATCH = {"name": "VH_E_Batch", "pkg": CO, "labels": ["C17:"], "reach": ["both-ok"]}
reg["C17"]["harnesses"].append(dict(BATCH))
reg["C16"]["harnesses"].append(dict(BATCH))
reg["C17"]["explanation"] += "; two-command transactions over every pair of 8 command kinds are executed by both backends in one Execute call (per-batch prepared-statement cache) and must agree on results and database"
LOOP = {"name": "VH_C18_Loop", "pkg": "internal/app/plugins/poll", "labels": ["C18:"], "reach": ["sent-after-reconnect"]}
reg["C18"]["harnesses"].append(dict(LOOP))
reg["C18"]["explanation"] += "; the real worker loop (PollWorker.Start) runs over its connect/disconnect/message channels with producers delivering events at any select and select free to pick any ready case: a reconnected listener stays registered whatever the timing of the replaced connection's late disconnect, and the message reaches it"
reg["C18"]["assumptions"] = reg["C18"].get("assumptions", []) + ["loop harness: one worker goroutine; producers act only at the loop's select statements (sequentially consistent interleaving at select granularity); a path ends when the loop would block"]
# C11: a transport that blocks the single worker goroutine turns a transient failure into a permanent stop
reg["C11"]["harnesses"].append({"name": "VH_C18_Ops", "pkg": "internal/app/plugins/poll", "labels": ["C18:delivery-reported"], "opts": {"steps": 3}, "reach": ["delivered", "done"]})
reg["C11"]["explanation"] += "; the poll transport's hand-off never blocks its single worker goroutine (a send that would block is a violation) and reports every message exactly once"

APIQ = [{"name": n, "pkg": "internal/app/subsystems/api", "labels": ["C14:"], "reach": ["accepted", "refused"]} for n in ("VH_A_SearchPromisesReq", "VH_A_SearchPromisesCursor", "VH_A_SearchSchedulesReq")]
reg["C14"]["harnesses"] += [dict(h) for h in APIQ]
reg["C14"]["explanation"] += "; the query helper shared by both front ends maps (pattern, state name, tags, limit, cursor) to the kernel request exactly (state names to their documented state sets, default page size 100, out-of-range values refused, a cursor accepted only if it decodes to a valid continuation)"

reg["C06"]["harnesses"] += [dict(h, reach=["done", "kept", "reset"]) for h in store(["VH_C06_Stop"], ["C06:"])]
reg["C06"]["explanation"] += "; graceful shutdown (Stop of both stores over os/sql contract stubs) removes the database file / drops the tables only when reset is configured, and the reset flag's declared default is false"

reg["C19"]["harnesses"].append({"name": "VH_RT_New", "pkg": "internal/app/subsystems/aio/router", "labels": ["C19:"], "reach": ["builtin-source", "configured-source", "unknown-source-type"]})
reg["C19"]["explanation"] += "; the real router constructor turns the configured source table into routing functions (configured tag source routes on its key, unknown type is an error, built-in source present iff no source is named default)"

reg["C15"]["harnesses"].append({"name": "VH_H_StateJSON", "pkg": HTTP, "labels": ["C15:"], "reach": ["accepted", "refused"]})
reg["C15"]["explanation"] += "; the promise state's JSON codec round-trips every declared state, gives different states different names and refuses everything else (the HTTP binding stub relies on this)"

WLOOP = [{"name": "VH_ST_WorkerLoop", "pkg": pkg, "labels": ["C12:", "C16:"], "opts": {"faults": 0}, "opts_thorough": {"faults": 1}, "reach": ["answered", "done"]} for pkg in (SQ, PG)]
for k in ("C12", "C16", "C11"):
    reg[k]["harnesses"] += [dict(h, opts=dict(h["opts"]), opts_thorough=dict(h["opts_thorough"])) for h in WLOOP]
reg["C12"]["explanation"] += "; the store workers' loop (Start, store.Collect, Process, EnqueueCQE) answers every queued submission exactly once, in order, for batch sizes 1 and 2 and either timing of the flush signal, and returns when its queue is closed"

reg["C18"]["harnesses"].append({"name": "VH_SN_Resolve", "pkg": "internal/app/subsystems/aio/sender", "labels": ["C19:poll-address", "C19:exactly-one"], "reach": ["poll-address"]})
reg["C18"]["explanation"] += "; a poll://group/id address is translated by the sender into exactly that group and id (the transport then looks the listener up under the name it registered with)"

# ---- third round of seeded changes (variants D): obligations that existed but were not posed by the property
# the change was written against, and units that were not encoded
CLAIMOPT = {"slots.callbacks": 0, "slots.locks": 0, "slots.schedules": 0, "slots.promises": 2, "slots.tasks": 2}
reg["C02"]["harnesses"] += co(["VH_T_TimeoutSweep"], ["C07:"], opts=TASKOPT, optsT=TASKOPT_T, reach=REACH_P) + co(["VH_P_TimeoutSweep"], ["C01:", "C04:"], reach=REACH_P) \
    + co(["VH_L_TimeoutSweep"], ["C09:"], opts=LOCKOPT, optsT=LOCKOPT_T, reach=REACH_P)
reg["C02"]["explanation"] += "; the background sweeps are part of every history: their writes are pinned to the state they read (task, promise and lock sweeps)"
FRONT_COPY = ["C20:request-fields-copied", "C20:task-fields-copied", "C20:http-request-fields-copied", "C20:http-task-fields-copied", "C20:http-path-id", "C20:http-kernel-called"]
reg["C03"]["harnesses"] += front(["CreatePromise", "CreatePromiseAndTask", "CompletePromise"], ["CreatePromise", "CreatePromiseAndTask", "ResolvePromise"], FRONT_COPY)
reg["C03"]["explanation"] += "; the idempotency key, strict flag and value the kernel compares are exactly the ones the client sent (HTTP and gRPC create / create-with-task / complete handlers end to end)"
reg["C03"]["assumptions"] = reg["C03"]["assumptions"] + FRONT_ASSUME
reg["C06"]["harnesses"] += store(["VH_R_ReadTasks"], ["C11:"]) + co(["VH_G_ProgressTasks"], ["C11:"], opts=SWEEPOPT, optsT=SWEEPOPT_T, reach=REACH_P)
reg["C06"]["explanation"] += "; recovery after a restart is the ordinary background processing on the stored state: the lease sweep reads every enqueued or claimed task and puts the overdue ones back"
SNP = {"name": "VH_SN_Process", "pkg": "internal/app/subsystems/aio/sender", "labels": ["C19:exactly-one", "C19:undeliverable", "C19:done-answers"], "reach": ["delivered", "failed-hand-off"]}
for k in ("C08", "C11", "C12"):
    reg[k]["harnesses"].append(dict(SNP))
reg["C08"]["explanation"] += "; every hand-off is answered exactly once by the sender, a refused or undeliverable one with a failure (so that the dispatcher retries it)"
FLUSH = [{"name": "VH_ST_Flush", "pkg": pkg, "labels": ["C12:"], "reach": ["done"]} for pkg in (SQ, PG)]
for k in ("C12", "C11"):
    reg[k]["harnesses"] += [dict(h) for h in FLUSH]
reg["C12"]["explanation"] += "; a tick's flush reaches every store worker (1..3 Postgres workers, flush signal pending or not)"
for h in reg["C15"]["harnesses"]:
    if h["name"].startswith("VH_H_") or h["name"].startswith("VH_G_"):
        h["labels"] = sorted(set(h["labels"] + FRONT_COPY))
reg["C15"]["explanation"] += "; equivalent HTTP and gRPC requests become the same kernel request because each front end passes every client field to the kernel unaltered (path ids included)"
reg["C20"]["harnesses"] += co(["VH_C07_Claim"], ["C01:claim-payload"], opts=CLAIMOPT, reach=REACH_P)
reg["C20"]["harnesses"] += grpc(["C20:"], ["CreatePromiseAndTask", "ResolvePromise", "CreateCallback", "CreateSubscription", "ClaimTask", "CompleteTask", "AcquireLock", "ReadSchedule"])
reg["C20"]["explanation"] += "; the promises carried in a claim payload are the stored rows of the promises the task's message names"

PH = {"name": "VH_PL_PollHandler", "pkg": "internal/app/plugins/poll", "reach": ["refused", "served"]}
reg["C19"]["harnesses"].append(dict(PH, labels=["C19:", "C18:"]))
reg["C18"]["harnesses"].append(dict(PH, labels=["C18:", "C19:listener", "C20:message"]))
reg["C13"]["harnesses"].append(dict(PH, labels=["C13:"]))
reg["C18"]["explanation"] += "; the listener side (PollHandler.ServeHTTP over net/http contract stubs) registers a connection under exactly the group and id of its decoded request path, refuses when the registration queue is full, relays a message as one server-sent event verbatim and reports its disconnect exactly once"

# ---- fourth round (variants E)
reg["C01"]["harnesses"] += [dict(h, reach=["committed", "failed"]) for h in store(["VH_C06_ExecuteAtomic", "VH_C06_ProcessError"], ["C06:"])]
reg["C01"]["explanation"] += "; a completion is acknowledged only if its transaction committed (a failing COMMIT, including the context-expired sentinel, is an error for every submission of the batch)"
reg["C07"]["harnesses"] += co(["VH_D_CreateWithTask"], ["C08:task-claimed-by-creator", "C08:task-response", "C07:"], opts=ROUTEOPT, reach=REACH_P)
reg["C07"]["explanation"] += "; a task born claimed by create-with-task stores the lease (ttl, expiry, process) it answers with"
reg["C08"]["harnesses"] += store(["VH_C16_UpdateTask"], [])
reg["C08"]["explanation"] += "; the guarded task update matches a task in any of the states the caller lists (a claim succeeds on an unclaimed task whether or not its hand-off was recorded)"
reg["C14"]["harnesses"].append({"name": "VH_H_StateJSON", "pkg": HTTP, "labels": ["C15:"], "reach": ["accepted", "refused"]})
reg["C14"]["explanation"] += "; the state filter travels inside a cursor as JSON state names, which round-trip exactly"

for h in reg["C11"]["harnesses"]:
    if h["name"] == "VH_S_Fire":
        h["labels"] = sorted(set(h["labels"] + ["C10:advances", "C10:schedule-advanced", "O2:I6"]))
reg["C11"]["explanation"] += "; a fired schedule advances strictly (its new next run time is the cron's next occurrence after the fired one, computed by the real util.Next over a cron/time contract)"

reg["C12"]["harnesses"] += [{"name": "VH_G_Stop", "pkg": GRPC, "labels": ["C12:"], "reach": ["done"]}, {"name": "VH_H_Stop", "pkg": HTTP, "labels": ["C12:"], "reach": ["done"]},
                            {"name": "VH_PL_PollStop", "pkg": "internal/app/plugins/poll", "labels": ["C18:", "C12:"], "reach": ["done"]}]
reg["C18"]["harnesses"].append({"name": "VH_PL_PollStop", "pkg": "internal/app/plugins/poll", "labels": ["C18:"], "reach": ["done"]})
reg["C12"]["explanation"] += "; both front ends stop with the primitive that waits for in-flight handlers (grpc GracefulStop, net/http Shutdown), so a completion the kernel has delivered is still written to its client"

# two due schedules in one sweep (helpers shared between them, e.g. caches, are exercised)
reg["C10"]["harnesses"] += co(["VH_S_Fire"], ["C10:"], opts={"slots.callbacks": 0, "slots.locks": 0, "slots.schedules": 2, "slots.promises": 2, "slots.tasks": 2, "batch": 2, "faults": 0}, optsT=SCHEDOPT_T, reach=REACH_P, pgquick=False)

# ---- audit of posed obligations against the property texts (after round four)
# C01: "the same in every response ... and notification": front-end replies are the kernel's promise; the notify body carries the completed promise
reg["C01"]["harnesses"] += front(["ReadPromise", "CompletePromise"], ["ReadPromise"], ["C20:http-reply-is-the-kernel-promise", "C20:reply-carries-the-kernel-promise"])
reg["C01"]["harnesses"].append({"name": "VH_SN_Process", "pkg": "internal/app/subsystems/aio/sender", "labels": ["C19:notification-carries"], "reach": ["delivered"]})
reg["C01"]["assumptions"] = reg["C01"]["assumptions"] + FRONT_ASSUME
# C02: schedule firing is part of every history
reg["C02"]["harnesses"] += co(["VH_S_Fire"], ["C10:"], opts=SCHEDOPT, optsT=SCHEDOPT_T, reach=REACH_P, pgquick=False)
# C07: the links handed out with a dispatched task claim and renew consistently
for h in reg["C07"]["harnesses"]:
    if h["name"] in ("VH_H_ClaimTask", "VH_H_HeartbeatTasks", "VH_H_CompleteTask"):
        h["labels"] = sorted(set(h["labels"] + ["C07:http-"]))
reg["C07"]["explanation"] += "; the claim and heartbeat links handed out with a dispatched task identify the same holder (task id / counter) and the claim link grants the configured default lease"
# C13: the poll transport faces clients directly
reg["C13"]["harnesses"] += [{"name": "VH_C18_Ops", "pkg": "internal/app/plugins/poll", "labels": ["C13:"], "opts": {"steps": 3}, "reach": ["done"]},
                            {"name": "VH_C18_Loop", "pkg": "internal/app/plugins/poll", "labels": ["C13:"], "reach": ["sent-after-reconnect"]},
                            {"name": "VH_SN_New", "pkg": "internal/app/subsystems/aio/sender", "labels": ["C13:"]}, {"name": "VH_RT_New", "pkg": "internal/app/subsystems/aio/router", "labels": ["C13:"]}]
# C20: searches, claims, notifications and dispatched messages
reg["C20"]["harnesses"] += co(["VH_P_Search"], ["C01:body"], opts=SEARCHOPT, optsT=SEARCHOPT_T, reach=REACH_P, pgquick=False)
reg["C20"]["harnesses"].append({"name": "VH_SN_Process", "pkg": "internal/app/subsystems/aio/sender", "labels": ["C19:body", "C19:notification-carries", "C19:message-type"], "reach": ["delivered"]})

reg["C11"]["harnesses"].append({"name": "VH_C11_TickBackground", "pkg": "internal/kernel/system", "labels": ["C11:"], "reach": ["done"]})
reg["C11"]["explanation"] += "; the real System.Tick admits every background coroutine within a bounded number of idle ticks for a scheduler intake capacity of 1 or 2 (fewer than the number of background coroutines)"
reg["C11"]["outside"] = [o for o in reg["C11"]["outside"] if "System.Tick re-add predicate" not in o]

LIFE = co(["VH_S_Lifecycle"], ["C10:lifecycle"], opts={"slots.callbacks": 0, "slots.locks": 0, "slots.schedules": 1, "slots.promises": 2, "slots.tasks": 2, "batch": 1, "faults": 0},
          optsT={"slots.callbacks": 0, "slots.locks": 0, "slots.schedules": 1, "slots.promises": 3, "slots.tasks": 2, "batch": 1, "faults": 0}, reach={"VH_S_Lifecycle": ["first-firing", "second-firing"]}, pgquick=False)
reg["C10"]["harnesses"] += LIFE
reg["C20"]["harnesses"] += [dict(h) for h in LIFE]
reg["C10"]["explanation"] += "; one process, sequentially: create, fire, delete, re-create under the same id with another configuration, fire again - the second firing carries the second configuration only (process-global state such as caches keyed by id is part of the execution)"

# ---- fifth round (variants F)
reg["C05"]["harnesses"] += [dict(h, reach=["committed", "failed"]) for h in store(["VH_C06_ExecuteAtomic", "VH_C06_ProcessError"], ["C06:"])]
reg["C05"]["explanation"] += "; a registration or completion is acknowledged only if its transaction committed"
reg["C08"]["harnesses"] += co(["VH_C07_Claim"], ["claim", "refus", "invalid"], opts=CLAIMOPT, reach=REACH_P)
reg["C08"]["explanation"] += "; a claim naming the dispatched id and counter succeeds on a task that is unclaimed (hand-off recorded or not) and is refused with the status of what the task really is"
reg["C19"]["harnesses"].append({"name": "VH_RT_New2", "pkg": "internal/app/subsystems/aio/router", "labels": ["C19:"], "reach": ["done"]})
reg["C13"]["harnesses"].append({"name": "VH_RT_New2", "pkg": "internal/app/subsystems/aio/router", "labels": ["C13:"]})

# the store's all-or-nothing contract (a result only if the commit succeeded) underlies every property about
# stored state; it is posed by each of them
for k in ("C02", "C03", "C04", "C07", "C08", "C09", "C10"):
    if not any(h["name"] == "VH_C06_ExecuteAtomic" for h in reg[k]["harnesses"]):
        reg[k]["harnesses"] += [dict(h, reach=["committed", "failed"]) for h in store(["VH_C06_ExecuteAtomic", "VH_C06_ProcessError"], ["C06:"])]

# ---- writer closure (after round six): every property about promise rows poses its invariants/guarantees on every
# coroutine that writes promise rows, and every property about task rows on every coroutine that writes task rows -
# lazily applied time-outs, schedule firings and the dispatch cycle's final write included
NATOPT = {n: (SMALL, THOR) for n in PROMISE_H}
NATOPT.update({n: (CBOPT, THOR) for n in CB_H})
NATOPT.update({"VH_D_CreateRouted": (ROUTEOPT, THOR), "VH_D_CreateWithTask": (ROUTEOPT, THOR), "VH_D_Enqueue": (DISPOPT, DISPOPT_T), "VH_C07_Claim": (CLAIMOPT, THOR),
               "VH_T_Complete": (TASKOPT, TASKOPT_T), "VH_T_Heartbeat": (TASKOPT, TASKOPT_T), "VH_T_TimeoutSweep": (TASKOPT, TASKOPT_T), "VH_S_Fire": (SCHEDOPT, SCHEDOPT_T)})
PW = PROMISE_H + CB_H + ["VH_D_CreateRouted", "VH_D_CreateWithTask", "VH_S_Fire"]
TW = ["VH_C07_Claim", "VH_T_Complete", "VH_T_Heartbeat", "VH_T_TimeoutSweep", "VH_D_Enqueue", "VH_D_CreateRouted", "VH_D_CreateWithTask"] + PROMISE_H + CB_H
def ensure(prop, names, labels):
    for n in names:
        found = [h for h in reg[prop]["harnesses"] if h["name"] == n and h["pkg"] == CO]
        if found:
            for h in found:
                h["labels"] = sorted(set(h["labels"] + labels))
        else:
            o, oT = NATOPT[n]
            reg[prop]["harnesses"] += co([n], list(labels), opts=o, optsT=oT, reach=REACH_P, pgquick=False)
ensure("C01", PW, ["O2:G1", "O2:I2"])
ensure("C03", PW, ["O2:G1", "O2:I2", "C04:timeout-effect"])
ensure("C04", PW, ["O2:I2", "C04:"])
ensure("C05", PW, ["O2:I3", "O2:I4", "O2:G3"])
ensure("C07", TW, ["O2:G2", "O2:I4"])
ensure("C08", TW, ["O2:G2", "O2:I4"])
for k in ("C01", "C03", "C04", "C05", "C07", "C08"):
    reg[k]["explanation"] += "; its state invariant and transition guarantee are re-proved for every coroutine that writes the rows it speaks about (lazy time-outs, schedule firings, sweeps and the dispatch cycle included)"

# ---- sixth round (variants G)
# C14: the page and cursor a client receives are the kernel's (front-end half of "a cursor is present exactly when the page was full")
reg["C14"]["harnesses"] += [h for h in http(["C14:", "C15:exactly-one", "C15:http-status"]) if "Search" in h["name"]] + grpc(["C14:", "C15:exactly-one"], ["SearchPromises", "SearchSchedules"])
reg["C14"]["explanation"] += "; the search handlers of both front ends hand the client exactly the kernel's page and cursor, whatever limit parameter accompanies a cursor"
reg["C14"]["assumptions"] = reg["C14"]["assumptions"] + FRONT_ASSUME
reg["C06"]["harnesses"].append({"name": "VH_C06_Open", "pkg": SQ, "labels": ["C06:"], "reach": ["done"]})
reg["C06"]["explanation"] += "; the real sqlite constructor runs over a database/sql.Open contract: the data source name it opens carries no durability-weakening connection parameter that the configured path did not carry (journal in memory/off, synchronous off, in-memory database)"
reg["C06"]["outside"] = reg["C06"]["outside"] + ["PRAGMA statements other than through the data source name; the SQL engine honouring its journal"]
reg["C16"]["harnesses"].append({"name": "VH_C16_ProcessTwoWorkers", "pkg": "internal/app/subsystems/aio/store", "labels": ["C16:"], "reach": ["done"]})
reg["C16"]["explanation"] += "; two workers running store.Process at once are sequentialised at the blocking Execute call (A up to Execute, B's whole batch, A continues; batches of 1..2, optional earlier batch): each Execute receives exactly its own worker's transactions and each submission its own results"
reg["C15"]["explanation"] += "; acceptance obligations (sat queries over all executions reaching the kernel): the boundary values of a well-formed request - zero and large leases and timeouts, each completion state, with and without idempotency key, both receiver forms - are accepted by each front end"
reg["C19"]["harnesses"].append({"name": "VH_SN_Resolve2", "pkg": "internal/app/subsystems/aio/sender", "labels": ["C19:"], "reach": ["second-message"]})
reg["C19"]["explanation"] += "; a second message handled by the same sender worker is resolved by its own stored receiver exactly as a first one"

# ---- history independence (quick tier): the checked request runs in a process that has already served other
# requests (vhWarm); what the process remembers must not matter because the database it then meets is arbitrary
WARM = {"C01": ["VH_P_Complete", "VH_P_Read"], "C03": ["VH_P_Create"], "C04": ["VH_P_TimeoutSweep"], "C05": ["VH_CB_CreateCallback"], "C07": ["VH_C07_Claim"], "C08": ["VH_D_Enqueue"],
        "C09": ["VH_L_Acquire"], "C10": ["VH_S_Fire"], "C11": ["VH_S_Fire"], "C14": ["VH_P_Search", "VH_S_Search"], "C20": ["VH_S_Fire", "VH_P_Read"], "C02": ["VH_P_Create", "VH_C07_Claim"]}
for k, names in WARM.items():
    for n in names:
        src = [h for h in reg[k]["harnesses"] if h["name"] == n and h["pkg"] == CO and h.get("opts", {}).get("backend", 0) == 0 and h.get("opts", {}).get("warm", 0) == 0]
        if not src:
            continue
        h = dict(src[0]); h["opts"] = dict(h["opts"]); h["opts"]["warm"] = 1; h["opts_thorough"] = dict(h["opts"])  # same bounds in both tiers
        reg[k]["harnesses"].append(h)
    reg[k]["explanation"] += "; history independence: selected request coroutines are also run after an earlier stretch of the same process's life (promise created/read/completed, schedule created/fired/deleted, lock taken/released, every sweep once; arbitrary ids, templates, keys, data), after which the database is arbitrary - process-held state (caches, retained buffers) is thereby stale by construction"

# ---- seventh round (variants H)
ensure("C08", CB_H + PROMISE_H, ["O2:I3", "O2:G3", "C05:root-equals-leaf-refused", "C05:invalid-promise-writes-nothing"])
reg["C08"]["explanation"] += "; a resume callback never awaits its own root (invariant I3; CreateCallback refuses it), which the completion transaction relies on when it finishes the tasks rooted at a completed promise before turning that promise's callbacks into tasks"
for h in reg["C06"]["harnesses"]:
    if h["name"] in ("VH_D_CreateRouted", "VH_D_CreateWithTask"):
        h["labels"] = sorted(set(h["labels"] + ["C08:routed-promise-gets-its-task-in-the-same-step", "C08:router-error", "C08:create-with-task-refused", "C08:unrouted"]))
reg["C06"]["explanation"] += "; a routed promise and its invocation task are written by one transaction (a crash between two transactions would leave a routed promise that is never dispatched)"
HTTPNEW = {"name": "VH_PL_HttpNew", "pkg": "internal/app/plugins/http", "labels": ["C11:"], "reach": ["done"]}
reg["C11"]["harnesses"].append(dict(HTTPNEW))
reg["C08"]["harnesses"].append(dict(HTTPNEW))
reg["C19"]["harnesses"].append(dict(HTTPNEW))
reg["C11"]["explanation"] += "; every http hand-off attempt ends: the workers the real constructor builds post with a client whose overall timeout is the configured (by default positive) one, so an endpoint that accepts and never answers costs one timeout and cannot stall the dispatch cycle for ever"
POLLNEW = {"name": "VH_PL_PollNew", "pkg": "internal/app/plugins/poll", "labels": ["C18:"], "reach": ["done"]}
reg["C18"]["harnesses"].append(dict(POLLNEW))
reg["C13"]["harnesses"].append(dict(POLLNEW, labels=["C18:"]))
reg["C18"]["explanation"] += "; the real constructor gives the registration and departure queues one slot per admitted connection (a departure can then always be queued), shares them between listener side and worker and limits the registry to the configured number of connections"

# ---- wiring (fourth session): the steps that make the verified units the server's behaviour
REGD = {"name": "VH_G_Registered", "pkg": CO, "labels": ["C11:"], "reach": ["done"]}
reg["C11"]["harnesses"].append(dict(REGD))
for k in ("C04", "C07", "C09", "C10"):
    reg[k]["harnesses"].append(dict(REGD, labels=["C11:serve-registers"]))
reg["C11"]["explanation"] += "; wiring: the five background coroutine constructors the lemmas are about are each added exactly once by cmd/serve's registration block (read from its SSA), and the default batch sizes are positive"
CFGW = {"name": "VH_CFG_AIOSubsystems", "pkg": "cmd/config", "labels": ["C06:", "C08:", "C11:", "C12:"], "reach": ["done", "no-store"]}
for k in ("C06", "C08", "C11", "C19"):
    reg[k]["harnesses"].append(dict(CFGW))
reg["C08"]["explanation"] += "; wiring: the real Config.AIOSubsystems instantiates exactly the enabled subsystems (router and sender enabled by default) and exactly one store for every combination of enable flags"
GNEW = {"name": "VH_G_New", "pkg": GRPC, "labels": ["C15:"], "reach": ["done"]}
reg["C15"]["harnesses"].append(dict(GNEW))
reg["C13"]["harnesses"].append(dict(GNEW))
reg["C15"]["explanation"] += "; wiring: the real grpc.New registers all six services, each on a handler wired to the kernel"
PGNEW = {"name": "VH_ST_PgNew", "pkg": PG, "labels": ["C06:", "C12:", "C16:"], "reach": ["done"]}
for k in ("C06", "C12", "C16", "C17"):
    reg[k]["harnesses"].append(dict(PGNEW))
reg["C16"]["explanation"] += "; the real Postgres constructor opens exactly the configured database and builds one worker per configured worker on the shared handle, each with its own flush signal, with a pool of at least one connection per worker"
reg["C11"]["harnesses"].append(dict(HTTPPL, labels=["C11:", "C08:http-plugin-constructs"]))
for k in ("C08", "C19"):
    for h in reg[k]["harnesses"]:
        if h["name"] == "VH_PL_HttpProcess":
            h["labels"] = sorted(set(h["labels"] + ["C11:http-hand-off-attempt"]))

# ---- fifth session: lifecycle wiring of every subsystem (constructor -> Start -> Enqueue -> Stop) and of the kernel AIO / API
# (every label of these harnesses is posed: labels=[]). The go statements of the Start functions are recorded (function and
# receiver), so "every constructed worker is launched exactly once" is an obligation on the real Start.
def W(name, pkg, reach=("done",)):
    return {"name": name, "pkg": pkg, "labels": [], "reach": list(reach)}
W_AIO = W("VH_W_AioLifecycle", "internal/aio", ("started", "start-failed", "stopped"))
W_API = W("VH_W_ApiLifecycle", "internal/api", ("stopped",))
W_ECHO = W("VH_W_Echo", "internal/app/subsystems/aio/echo")
W_ROUTER = W("VH_W_Router", "internal/app/subsystems/aio/router")
W_SENDER = W("VH_W_Sender", "internal/app/subsystems/aio/sender", ("started", "start-failed", "done"))
W_SENDERPL = W("VH_W_SenderPlugins", "internal/app/subsystems/aio/sender")
W_HTTPPL = W("VH_W_HttpPlugin", "internal/app/plugins/http")
W_POLLPL = W("VH_W_PollPlugin", "internal/app/plugins/poll")
W_SQ = W("VH_W_Store", SQ, ("done", "schema-failed"))
W_PG = W("VH_W_Store", PG, ("done", "schema-failed"))
W_APICFG = W("VH_CFG_APISubsystems", "cmd/config")
for k, hs in {"C12": [W_AIO, W_API, W_ECHO, W_ROUTER, W_SENDER, W_SQ, W_PG, W_HTTPPL, W_POLLPL],
              "C11": [W_AIO, W_ROUTER, W_SENDER, W_SENDERPL, W_HTTPPL, W_POLLPL, W_SQ, W_PG],
              "C06": [W_AIO, W_SQ, W_PG],
              "C08": [W_ROUTER, W_SENDER, W_SENDERPL, W_HTTPPL],
              "C13": [W_APICFG, W_API],
              "C15": [W_APICFG],
              "C16": [W_SQ, W_PG],
              "C17": [W_PG],
              "C18": [W_POLLPL, W_SENDERPL],
              "C19": [W_SENDERPL, W_ROUTER, W_SENDER]}.items():
    for h in hs:
        reg[k]["harnesses"].append(dict(h))
reg["C12"]["explanation"] += "; lifecycle wiring: for the kernel AIO/API and every subsystem (echo, router, sender, both stores, http and poll transports) the real constructor, Start, Enqueue and Stop are executed: a submission is routed to the subsystem of its kind, Enqueue accepts exactly while the queue has room and a refused submission is not queued (the caller then answers queue-full), every constructed worker is launched exactly once on the subsystem's queue, Stop closes the queues"
reg["C11"]["explanation"] += "; lifecycle wiring: every worker the progress lemmas rely on (store, router, sender, transports) is launched exactly once by the real Start of its subsystem, and the AIO starts and flushes every registered subsystem"
reg["C06"]["explanation"] += "; start-up on an existing database: the real Start of both stores runs only idempotent schema statements (CREATE ... IF NOT EXISTS, bookkeeping insert with DO NOTHING) on the opened handle, touches no stored row, and launches no worker when the schema set-up fails"
reg["C15"]["explanation"] += "; wiring: the real Config.APISubsystems instantiates exactly the enabled front ends under their own kinds"
for k in ("C12", "C11", "C06", "C08", "C13", "C15", "C16", "C17", "C18", "C19"):
    reg[k]["assumptions"] = reg[k].get("assumptions", []) + ["wiring harnesses: goroutines launched by Start functions are not run; the launch (function, receiver) is recorded and is what the obligations speak about"]
QUEUED = {"name": "VH_SN_Queued", "pkg": "internal/app/subsystems/aio/sender", "labels": ["C19:"], "reach": ["both-queued"]}
for k in ("C08", "C18", "C19", "C20"):
    reg[k]["harnesses"].append(dict(QUEUED))
reg["C20"]["explanation"] += "; two messages handed to a transport one after the other and both still queued each keep their own body and address (byte slices that share a reused buffer's storage become arbitrary when the buffer is written again: bytes.Buffer / json.Encoder aliasing model)"
LOOPCLK = {"name": "VH_C04_LoopClock", "pkg": "internal/kernel/system", "labels": ["C04:"], "reach": ["done"]}
for k in ("C04", "C07", "C09"):
    reg[k]["harnesses"].append(dict(LOOPCLK))
reg["C04"]["outside"] = [o for o in reg["C04"]["outside"] if "wall clock to tick mapping" not in o] + ["that the operating system's clock itself is monotone"]
reg["C04"]["explanation"] += "; the instant a tick runs at is a reading of the server clock taken after the wait that preceded the tick (real System.Loop over a clock that advances at every blocking select): a remembered, older instant is a violation"
for k in ("C07", "C09"):
    reg[k]["explanation"] += "; lease arithmetic is on the server clock: every tick of the real kernel loop runs at a clock reading taken after the preceding wait"
# the notification / hand-off payload (C01, C19, C20): posed where the dispatch cycle runs
PAYLOAD = ["C19:notification-carries", "C19:message-carries"]
for k in ("C01", "C19", "C20", "C08"):
    have = [h for h in reg[k]["harnesses"] if h["name"] == "VH_D_Enqueue"]
    if have:
        for h in have:
            h["labels"] = sorted(set(h["labels"] + PAYLOAD))
    else:
        for h in [h for h in reg["C08"]["harnesses"] if h["name"] == "VH_D_Enqueue" and h.get("opts", {}).get("warm", 0) == 0]:
            e = dict(h); e["labels"] = list(PAYLOAD); e["opts"] = dict(h["opts"]); e["opts_thorough"] = dict(h.get("opts_thorough", h["opts"]))
            reg[k]["harnesses"].append(e)
    reg[k]["explanation"] += "; the promise that travels with a dispatched message (the notification's payload) is the task's own root promise as stored when the dispatch cycle read it, and the message carries the stored task"
# two tasks in one dispatch cycle (pairing of tasks with the promises read for them): C19 quick tier, SQLite
reg["C19"]["harnesses"].append({"name": "VH_D_Enqueue", "pkg": CO, "labels": list(PAYLOAD) + ["C08:message-names"], "reach": ["hand-off"],
    "opts": {"slots.callbacks": 0, "slots.locks": 0, "slots.schedules": 0, "slots.promises": 2, "slots.tasks": 2, "batch": 2},
    "opts_thorough": {"slots.callbacks": 0, "slots.locks": 0, "slots.schedules": 0, "slots.promises": 2, "slots.tasks": 3, "batch": 2}})
# G6 (C08 "when a promise completes all of its outstanding tasks are completed in that same step"): a two-state clause of G,
# re-proved for every transaction of every coroutine that completes promises
for k in ("C08", "C06", "C02", "C07"):
    ensure(k, PW, ["O2:G6"])
reg["C08"]["explanation"] += "; guarantee G6: in every transaction any coroutine commits, a promise that leaves the pending state takes every outstanding task rooted at it to a finished state in that same transaction"
# history independence of the dispatch cycle: an earlier cycle of the same process handed a resume task off and the
# hand-off failed or succeeded (both explored); the checked cycle then meets an arbitrary database
WARMD = {"name": "VH_D_Enqueue", "pkg": CO, "labels": list(PAYLOAD) + ["C08:message-names", "C08:dispatches-only"], "reach": ["hand-off"],
    "opts": {"slots.callbacks": 1, "slots.locks": 0, "slots.schedules": 0, "slots.promises": 3, "slots.tasks": 2, "batch": 1, "warm": 1, "warmdispatch": 1}}
WARMD["opts_thorough"] = dict(WARMD["opts"])
for k in ("C01", "C08", "C19", "C20"):
    reg[k]["harnesses"].append(dict(WARMD))
# leases renewed earlier in the same process (heartbeats are part of the warm-up): the heartbeat coroutines after a warm-up
for k, n in (("C07", "VH_T_Heartbeat"), ("C09", "VH_L_Heartbeat")):
    src = [h for h in reg[k]["harnesses"] if h["name"] == n and h["pkg"] == CO and h.get("opts", {}).get("backend", 0) == 0 and h.get("opts", {}).get("warm", 0) == 0]
    if src:
        h = dict(src[0]); h["opts"] = dict(h["opts"]); h["opts"]["warm"] = 1; h["opts_thorough"] = dict(h["opts"])
        reg[k]["harnesses"].append(h)
# eighth round (variants I): start-up and data-source obligations are also owed to the properties whose state they protect
for k in ("C09", "C07", "C05", "C01"):
    reg[k]["harnesses"] += [dict(W_SQ, labels=["C06:"]), dict(W_PG, labels=["C06:"])]
    reg[k]["explanation"] += "; start-up on an existing database touches no stored row (real Start of both stores)"
for k in ("C16", "C01", "C05"):
    if not any(h["name"] == "VH_C06_Open" for h in reg[k]["harnesses"]):
        reg[k]["harnesses"].append({"name": "VH_C06_Open", "pkg": SQ, "labels": ["C06:"], "reach": ["done"]})
reg["C16"]["explanation"] += "; all-or-nothing batches rest on the SQL engine's rollback journal: the data source name the real constructor opens carries no journal/synchronous weakening the operator did not configure"
# writer closure, completed: SearchPromises completes overdue promises lazily - its transactions re-prove every Inv/G clause too
for h in reg["C14"]["harnesses"]:
    if h["name"] == "VH_P_Search":
        h["labels"] = sorted(set(h["labels"] + ["O2:"]))
reg["C14"]["explanation"] += "; the lazy time-outs a search performs are transactions like any other: every clause of the store invariant and of the transition guarantee (G6 included) is re-proved for them"
# C08 "a task is marked enqueued only after a successful hand-off": the lease sweep puts a reclaimed task back to INIT (never to
# enqueued) - the sweep's own obligations are owed to C08 too (round-six change C08-G, re-run against the final machinery)
ensure("C08", ["VH_T_TimeoutSweep"], ["C07:reclaim", "C07:taken-only"])
