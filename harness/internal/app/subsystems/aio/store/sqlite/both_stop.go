package sqlite

// C06: graceful shutdown keeps the data unless the operator asked for a reset, and the default
// configuration does not ask for one.

import (
	"github.com/resonatehq/resonate/internal/kernel/bus"
	"github.com/resonatehq/resonate/internal/kernel/t_aio"
	"github.com/resonatehq/resonate/internal/vx"
)

func VH_C06_Stop() {
	reset := vx.Bool("reset")
	sq := make(chan *bus.SQE[t_aio.Submission, t_aio.Completion], 1)
	s := &SqliteStore{config: &Config{Reset: reset}, sq: sq, db: vx.DB("sqlite")}
	_ = s.Stop()
	destroyed := vx.FilesRemoved() > 0 || vx.TablesDropped() > 0
	vx.Assert(!destroyed || reset, "C06:shutdown-destroys-data-only-when-reset-is-configured")
	vx.Assert(vx.ChanClosed(sq), "C06:shutdown-closes-the-submission-queue")
	if destroyed {
		vx.Reach("reset")
	} else {
		vx.Reach("kept")
	}
	vx.Assert(vx.FieldTag((*Config)(nil), "Reset", "default") == "false", "C06:reset-is-off-by-default")
	vx.Reach("done")
}
