#!/bin/bash
# try_seed.sh <seed> <pkg> <harness> [opts]: run one harness against a scratch worktree of /repo with the seeded change applied
export GOFLAGS=-mod=mod GOPROXY=off GOSUMDB=off GOTOOLCHAIN=local
s=$1; WT=/tmp/ts_repo_$$
git -C /repo worktree add -q --detach $WT HEAD || exit 2
(cd $WT && git apply /verif/seeded/$s/patch.diff) || { echo apply-failed; git -C /repo worktree remove --force $WT; exit 2; }
${GOSMT:-/verif/bin/gosmt} run ${HARNESSDIR:+-harnessdir $HARNESSDIR} -repo $WT -pkg $2 -harness $3 ${4:+-opt $4} 2>&1 | grep -E '"(Paths|Obligations|WallS|Err|label|msg)"|unsupported:' | sort | uniq -c | head -${LINES_MAX:-20}
git -C /repo worktree remove --force $WT
