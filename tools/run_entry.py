#!/usr/bin/env python3
# run_entry.py <prop> <harness> [k=v...] : run one registry entry (first sqlite match with the given extra opts) through `gosmt run`
import json,sys,subprocess
prop,name=sys.argv[1:3]; extra=dict(kv.split('=') for kv in sys.argv[3:])
binp=extra.pop('bin','/verif/bin/gosmt'); repo=extra.pop('repo','/repo')
r=json.load(open('/verif/harness/registry.json'))
want=int(extra.get('warm',0))
for h in r[prop]['harnesses']:
    o=h.get('opts',{})
    if h['name']==name and o.get('backend',0)==0 and o.get('warm',0)==want:
        opts=dict(o); opts.update({k:int(v) for k,v in extra.items()})
        cmd=[binp,'run','-repo',repo,'-pkg',h['pkg'],'-harness',name]
        if opts: cmd+=['-opt',','.join(f'{k}={v}' for k,v in opts.items())]
        out=subprocess.run(cmd,capture_output=True,text=True).stdout
        i=out.index('{'); d=json.loads(out[i:out.rindex('}')+1])
        print(name,{k:d[k] for k in ('Paths','Pruned','Obligations','Discharged')},'wall',round(d['WallS'],1),'viol',sorted(set(v['label'] for v in d['Violations'] or [])),'unk',d['Unknowns'],'unsup',(d['Unsupported'] or [])[:2],'missing',d['MissingReach'],'err',d['Err'])
        break
else:
    print('no entry')
