package system

// C12 (c): sequential skeleton of the kernel loop. Requests accepted before shutdown are answered exactly
// once before Loop returns, whatever the submission batch size and whatever the api signal goroutine
// managed to buffer between two ticks; a request arriving after shutdown is refused at once; a request
// the scheduler refuses is answered with a queue-full error.

import (
	"time"

	"github.com/prometheus/client_golang/prometheus"
	"github.com/resonatehq/gocoro"
	"github.com/resonatehq/gocoro/pkg/scheduler"
	"github.com/resonatehq/resonate/internal/api"
	"github.com/resonatehq/resonate/internal/kernel/bus"
	"github.com/resonatehq/resonate/internal/kernel/t_aio"
	"github.com/resonatehq/resonate/internal/kernel/t_api"
	"github.com/resonatehq/resonate/internal/metrics"
	"github.com/resonatehq/resonate/internal/vx"
)

// aio double: no completions, signals at once
type vhAIO struct{ shutdowns, flushes int }

func (a *vhAIO) String() string       { return "vh" }
func (a *vhAIO) Start() error         { return nil }
func (a *vhAIO) Stop() error          { return nil }
func (a *vhAIO) Shutdown()            { a.shutdowns++ }
func (a *vhAIO) Errors() <-chan error { return nil }
func (a *vhAIO) Signal(<-chan interface{}) <-chan interface{} {
	ch := make(chan interface{})
	close(ch)
	return ch
}
func (a *vhAIO) Flush(int64)                                               { a.flushes++ }
func (a *vhAIO) Dispatch(*t_aio.Submission, func(*t_aio.Completion, error)) {}
func (a *vhAIO) EnqueueSQE(*bus.SQE[t_aio.Submission, t_aio.Completion])   {}
func (a *vhAIO) EnqueueCQE(*bus.CQE[t_aio.Submission, t_aio.Completion])   {}
func (a *vhAIO) DequeueCQE(int) []*bus.CQE[t_aio.Submission, t_aio.Completion] {
	return nil
}

// scheduler double: coroutines complete when added (engine contract for gocoro.Add), so it is always empty
type vhSched struct{ shutdowns int }

func (s *vhSched) Add(scheduler.Coroutine[*t_aio.Submission, *t_aio.Completion]) bool { return true }
func (s *vhSched) RunUntilBlocked(int64)                                              {}
func (s *vhSched) Tick(int64)                                                         {}
func (s *vhSched) Step(int64) bool                                                    { return false }
func (s *vhSched) Size() int                                                          { return 0 }
func (s *vhSched) Shutdown()                                                          { s.shutdowns++ }

func vhEcho(c gocoro.Coroutine[*t_aio.Submission, *t_aio.Completion, any], r *t_api.Request) (*t_api.Response, error) {
	return &t_api.Response{Kind: t_api.Echo, Tags: r.Tags, Echo: &t_api.EchoResponse{Data: r.Echo.Data}}, nil
}

type vhClient struct {
	calls int
	err   error
	res   *t_api.Response
}

func vhReq(a api.API, id string, data string, cl *vhClient) {
	a.EnqueueSQE(&bus.SQE[t_api.Request, t_api.Response]{Id: id,
		Submission: &t_api.Request{Kind: t_api.Echo, Tags: map[string]string{"id": id, "name": "echo"}, Echo: &t_api.EchoRequest{Data: data}},
		Callback: func(res *t_api.Response, err error) {
			cl.calls++
			cl.err = err
			cl.res = res
		}})
}

func VH_C12_Loop() {
	vx.IgnoreGo() // coroutineMetrics' goroutine only awaits the promise and decrements a gauge
	vx.SchedulerMayRefuse()
	m := metrics.New(prometheus.NewRegistry())
	size := 3
	a := api.New(size, m)
	io := &vhAIO{}
	sc := &vhSched{}
	s := &System{
		api:          a,
		aio:          io,
		config:       &Config{SubmissionBatchSize: []int{1, 2, 4, 8}[vx.Choose(4)], CompletionBatchSize: 1, CoroutineMaxSize: 1, SignalTimeout: time.Second},
		metrics:      m,
		scheduler:    sc,
		onRequest:    map[t_api.Kind]func(*t_api.Request, func(*t_api.Response, error)) gocoro.CoroutineFunc[*t_aio.Submission, *t_aio.Completion, any]{},
		shutdown:     make(chan interface{}),
		shortCircuit: make(chan interface{}),
	}
	s.AddOnRequest(t_api.Echo, vhEcho)

	// k requests arrive before shutdown (the fourth is refused by the full queue)
	k := vx.Choose(5)
	d0, d1, d2 := vx.String("d0"), vx.String("d1"), vx.String("d2")
	cls := []*vhClient{{}, {}, {}, {}}
	if k > 0 {
		vhReq(a, "r0", d0, cls[0])
	}
	if k > 1 {
		vhReq(a, "r1", d1, cls[1])
	}
	if k > 2 {
		vhReq(a, "r2", d2, cls[2])
	}
	if k > 3 {
		vhReq(a, "r3", "x", cls[3])
		te, ok := cls[3].err.(*t_api.Error)
		vx.Assert(cls[3].calls == 1 && ok && te.Code() == t_api.StatusAPISubmissionQueueFull, "C12:loop-overflow-refused-at-once")
	}
	vx.Assert(cls[0].calls == 0 && cls[1].calls == 0 && cls[2].calls == 0, "C12:loop-accepted-not-answered-before-a-tick")

	// optionally the loop has been running: one earlier iteration's signal may already have buffered a request
	done := s.Shutdown()
	late := &vhClient{}
	vhReq(a, "late", "x", late)
	te, ok := late.err.(*t_api.Error)
	vx.Assert(late.calls == 1 && ok && te.Code() == t_api.StatusSystemShuttingDown, "C12:loop-late-request-refused-with-shutting-down")

	err := s.Loop()
	vx.Assert(err == nil, "C12:loop-returns-cleanly")
	vx.Assert(vx.ChanClosed(done), "C12:loop-announces-shutdown")
	vx.Assert(io.shutdowns == 1 && sc.shutdowns == 1, "C12:loop-shuts-down-aio-and-scheduler-once")

	// every accepted request has been answered exactly once, with its own response or a scheduler refusal
	for i := 0; i < 3 && i < k; i++ {
		vx.Assert(cls[i].calls == 1, "C12:loop-accepted-request-answered-exactly-once-before-return")
		if cls[i].err != nil {
			vx.Reach("scheduler-refused")
			te, ok := cls[i].err.(*t_api.Error)
			vx.Assert(ok && cls[i].res == nil && te.Code() == t_api.StatusSchedulerQueueFull, "C12:loop-scheduler-refusal-is-queue-full")
		} else {
			vx.Reach("answered")
			want := []string{d0, d1, d2}[i]
			vx.Assert(cls[i].res != nil && cls[i].res.Echo.Data == want, "C12:loop-response-belongs-to-its-request")
		}
	}
	vx.Assert(late.calls == 1 && (k < 4 || cls[3].calls == 1), "C12:loop-refused-requests-not-answered-again")
	vx.Assert(a.Done(), "C12:loop-leaves-nothing-queued")
}

// ---- C11: background processing is admitted fairly for every coroutine pool size. The scheduler's intake
// queue admits at most CoroutineMaxSize coroutines per tick and Tick offers the background coroutines in a
// fixed order before any request; with an idle server the loop ticks once per signal timeout. Every
// background coroutine must still get its turn within a bounded number of ticks.

type vhCapSched struct{ vhSched }

func (s *vhCapSched) RunUntilBlocked(int64) { vx.SchedulerRan() }

func VH_C11_TickBackground() {
	vx.IgnoreGo()
	capacity := vx.Choose(2) + 1 // 1 or 2 admissions per tick
	vx.SchedulerCapacity(capacity)
	m := metrics.New(prometheus.NewRegistry())
	s := &System{
		api:       api.New(1, m),
		aio:       &vhAIO{},
		config:    &Config{SubmissionBatchSize: 1, CompletionBatchSize: 1, CoroutineMaxSize: capacity, SignalTimeout: time.Second},
		metrics:   m,
		scheduler: &vhCapSched{},
		onRequest: map[t_api.Kind]func(*t_api.Request, func(*t_api.Response, error)) gocoro.CoroutineFunc[*t_aio.Submission, *t_aio.Completion, any]{},
	}
	n := 3
	runs := make([]int, n)
	for i := 0; i < n; i++ {
		i := i
		s.AddBackground([]string{"A", "B", "C"}[i], func(*Config, map[string]string) gocoro.CoroutineFunc[*t_aio.Submission, *t_aio.Completion, any] {
			return func(gocoro.Coroutine[*t_aio.Submission, *t_aio.Completion, any]) (any, error) {
				runs[i]++
				return nil, nil
			}
		})
	}
	// an idle server: one tick per signal timeout (arbitrary start, gaps of at least the timeout)
	t := vx.Int64("t0")
	vx.Assume(vx.And(t >= 1000, t < 1<<40))
	ticks := 2 * n
	for k := 0; k < ticks; k++ {
		s.Tick(t)
		gap := vx.Int64("gap")
		vx.Assume(vx.And(gap >= 1000, gap < 1<<20))
		t += gap
	}
	for i := 0; i < n; i++ {
		vx.Assert(runs[i] >= 1, "C11:every-background-coroutine-is-admitted-within-a-bounded-number-of-ticks")
	}
	vx.Reach("done")
}

// ---- C04 / C07 / C09: the time a tick runs at is the server clock. Every instant the coroutines compare deadlines
// and leases with is the t handed to Tick; the proofs about time-outs and leases take it to be the clock at that
// tick. The real loop runs with a clock that advances while the loop waits (at its select): every tick must run
// at a reading of the clock taken after the wait that preceded it - never at a remembered, older instant.
type vhClockSched struct {
	vhSched
	ticks int
}

var vhLastWait int64

func (s *vhClockSched) RunUntilBlocked(t int64) {
	s.ticks++
	vx.Assert(t >= vhLastWait, "C04:tick-runs-at-a-clock-reading-taken-after-the-preceding-wait")
}

func VH_C04_LoopClock() {
	vx.IgnoreGo()
	m := metrics.New(prometheus.NewRegistry())
	a := api.New(3, m)
	io := &vhAIO{}
	sc := &vhClockSched{}
	s := &System{
		api:          a,
		aio:          io,
		config:       &Config{SubmissionBatchSize: 1, CompletionBatchSize: 1, CoroutineMaxSize: 1, SignalTimeout: time.Second},
		metrics:      m,
		scheduler:    sc,
		onRequest:    map[t_api.Kind]func(*t_api.Request, func(*t_api.Response, error)) gocoro.CoroutineFunc[*t_aio.Submission, *t_aio.Completion, any]{},
		shutdown:     make(chan interface{}),
		shortCircuit: make(chan interface{}),
	}
	s.AddOnRequest(t_api.Echo, vhEcho)
	cls := []*vhClient{{}, {}}
	vhReq(a, "r0", "a", cls[0])
	vhReq(a, "r1", "b", cls[1])
	vhLastWait = vx.Tick()
	// time passes whenever the loop waits
	vx.OnBlockingSelect(func() { vhLastWait = vx.Tick() })
	s.Shutdown()
	err := s.Loop()
	vx.Assert(err == nil && sc.ticks >= 2, "C04:loop-ticks-until-drained")
	vx.Reach("done")
}
