// target: internal/app/coroutines
// Native driver for demonstrations/replays: the REAL coroutines on the REAL gocoro
// scheduler against the REAL sqlite store (temp file), with a scripted IO that lets
// a test interleave other transactions between a coroutine's store submissions.
package coroutines

import (
	"database/sql"
	"path/filepath"
	"testing"
	"time"

	"github.com/prometheus/client_golang/prometheus"
	"github.com/resonatehq/gocoro"
	"github.com/resonatehq/resonate/internal/app/subsystems/aio/store/sqlite"
	"github.com/resonatehq/resonate/internal/kernel/bus"
	"github.com/resonatehq/resonate/internal/kernel/system"
	"github.com/resonatehq/resonate/internal/kernel/t_aio"
	"github.com/resonatehq/resonate/internal/kernel/t_api"
	"github.com/resonatehq/resonate/internal/metrics"
)

type vnSub struct {
	sub *t_aio.Submission
	cb  func(*t_aio.Completion, error)
}

type vnWorld struct {
	t      *testing.T
	store  *sqlite.SqliteStore
	raw    *sql.DB // second connection for direct inspection / interference
	queue  []vnSub
	now    int64
	step   int64 // clock advance per round trip
	nStore int
	// hooks
	BeforeStore func(n int, sub *t_aio.Submission)                    // runs before the n-th store submission executes (n from 0)
	Router      func(sub *t_aio.Submission) (*t_aio.Completion, error) // default: no match
	Sender      func(sub *t_aio.Submission) (*t_aio.Completion, error) // default: success
	StoreFault  func(n int) string                                    // "", "before", "after"
	Config      *system.Config
}

func (w *vnWorld) Dispatch(sub *t_aio.Submission, cb func(*t_aio.Completion, error)) {
	w.queue = append(w.queue, vnSub{sub, cb})
}

func vnNew(t *testing.T) *vnWorld {
	path := filepath.Join(t.TempDir(), "vn.db")
	st, err := sqlite.New(nil, metrics.New(prometheus.NewRegistry()), &sqlite.Config{Size: 10, BatchSize: 10, Path: path, TxTimeout: 5 * time.Second})
	if err != nil {
		t.Fatal(err)
	}
	if err := st.Start(nil); err != nil {
		t.Fatal(err)
	}
	raw, err := sql.Open("sqlite3", path)
	if err != nil {
		t.Fatal(err)
	}
	t.Cleanup(func() { raw.Close(); st.Stop() })
	return &vnWorld{t: t, store: st, raw: raw, now: 1000, step: 1,
		Config: &system.Config{Url: "http://resonate", PromiseBatchSize: 10, ScheduleBatchSize: 10, TaskBatchSize: 10, TaskEnqueueDelay: 10 * time.Second}}
}

func (w *vnWorld) Exec(q string, args ...any) {
	if _, err := w.raw.Exec(q, args...); err != nil {
		w.t.Fatalf("sql %q: %v", q, err)
	}
}

func (w *vnWorld) QueryInt(q string, args ...any) int64 {
	var n sql.NullInt64
	if err := w.raw.QueryRow(q, args...).Scan(&n); err != nil {
		w.t.Fatalf("sql %q: %v", q, err)
	}
	return n.Int64
}

func (w *vnWorld) QueryStr(q string, args ...any) string {
	var s sql.NullString
	if err := w.raw.QueryRow(q, args...).Scan(&s); err != nil {
		w.t.Fatalf("sql %q: %v", q, err)
	}
	return s.String
}

func (w *vnWorld) process(s vnSub) {
	switch s.sub.Kind {
	case t_aio.Store:
		n := w.nStore
		w.nStore++
		if w.BeforeStore != nil {
			w.BeforeStore(n, s.sub)
		}
		fault := ""
		if w.StoreFault != nil {
			fault = w.StoreFault(n)
		}
		if fault == "before" {
			s.cb(nil, errVn("store failure before processing"))
			return
		}
		cqes := w.store.Process([]*bus.SQE[t_aio.Submission, t_aio.Completion]{{Id: "vn", Submission: s.sub, Callback: s.cb}})
		if fault == "after" {
			s.cb(nil, errVn("store failure after processing"))
			return
		}
		s.cb(cqes[0].Completion, cqes[0].Error)
	case t_aio.Router:
		if w.Router != nil {
			s.cb(w.Router(s.sub))
		} else {
			s.cb(&t_aio.Completion{Kind: t_aio.Router, Router: &t_aio.RouterCompletion{Matched: false}}, nil)
		}
	case t_aio.Sender:
		if w.Sender != nil {
			s.cb(w.Sender(s.sub))
		} else {
			s.cb(&t_aio.Completion{Kind: t_aio.Sender, Sender: &t_aio.SenderCompletion{Success: true}}, nil)
		}
	default:
		w.t.Fatalf("unexpected submission kind %v", s.sub.Kind)
	}
}

type errVn string

func (e errVn) Error() string { return string(e) }

// RunFunc runs a coroutine function to completion (one submission per round trip, clock +step each).
func (w *vnWorld) RunFunc(f gocoro.CoroutineFunc[*t_aio.Submission, *t_aio.Completion, any]) {
	sched := gocoro.New[*t_aio.Submission, *t_aio.Completion](w, 100)
	p, ok := gocoro.Add(sched, func(c gocoro.Coroutine[*t_aio.Submission, *t_aio.Completion, any]) (any, error) {
		c.Set("config", w.Config)
		return f(c)
	})
	if !ok {
		w.t.Fatal("scheduler refused the coroutine")
	}
	for i := 0; i < 1000 && !p.Completed(); i++ {
		sched.RunUntilBlocked(w.now)
		q := w.queue
		w.queue = nil
		for _, s := range q {
			w.process(s)
		}
		w.now += w.step
	}
	if !p.Completed() {
		w.t.Fatal("coroutine did not finish")
	}
}

// Run runs a request coroutine and returns its response.
func (w *vnWorld) Run(fn func(gocoro.Coroutine[*t_aio.Submission, *t_aio.Completion, any], *t_api.Request) (*t_api.Response, error), r *t_api.Request) (res *t_api.Response, err error) {
	if r.Tags == nil {
		r.Tags = map[string]string{"id": "vn"}
	}
	w.RunFunc(func(c gocoro.Coroutine[*t_aio.Submission, *t_aio.Completion, any]) (any, error) {
		res, err = fn(c, r)
		return nil, nil
	})
	return
}
