// target: internal/kernel/system
// Demonstration (real code, real gocoro scheduler) of the background-admission defect found by
// VH_C11_TickBackground: with a coroutine pool smaller than the number of background coroutines, the ones later in
// the registration order are never admitted while the server is idle.
package system

import (
	"math/rand" // nosemgrep
	"testing"
	"time"

	"github.com/prometheus/client_golang/prometheus"
	"github.com/resonatehq/gocoro"
	"github.com/resonatehq/resonate/internal/aio"
	"github.com/resonatehq/resonate/internal/api"
	"github.com/resonatehq/resonate/internal/kernel/t_aio"
	"github.com/resonatehq/resonate/internal/metrics"
)

func TestVN_D16_BackgroundAdmissionWithSmallPool(t *testing.T) {
	for _, pool := range []int{1, 2, 4} {
		m := metrics.New(prometheus.NewRegistry())
		a := api.New(10, m)
		io := aio.NewDST(rand.New(rand.NewSource(1)), 0, m)
		s := New(a, io, &Config{CoroutineMaxSize: pool, SubmissionBatchSize: 10, CompletionBatchSize: 10, SignalTimeout: time.Second}, m)
		names := []string{"TimeoutPromises", "SchedulePromises", "TimeoutLocks", "EnqueueTasks", "TimeoutTasks"}
		runs := make([]int, len(names))
		for i, n := range names {
			i := i
			s.AddBackground(n, func(*Config, map[string]string) gocoro.CoroutineFunc[*t_aio.Submission, *t_aio.Completion, any] {
				return func(gocoro.Coroutine[*t_aio.Submission, *t_aio.Completion, any]) (any, error) {
					runs[i]++
					return nil, nil
				}
			})
		}
		// an idle server ticks once per signal timeout
		now := int64(1_700_000_000_000)
		for k := 0; k < 60; k++ {
			s.Tick(now)
			now += 1000
		}
		for i, n := range names {
			if runs[i] == 0 {
				t.Errorf("coroutine-max-size=%d: background coroutine %s was never admitted in 60 idle ticks (runs=%v)", pool, n, runs)
			}
		}
	}
}
