package sqlite

// C12 / C11 / C16: the store worker's loop (Start -> store.Collect -> Process -> aio.EnqueueCQE) answers every
// queued submission exactly once and in order for every batch size, whatever the timing of the flush signal
// (select may pick either ready case), and returns when its queue is closed.

import (
	"github.com/prometheus/client_golang/prometheus"
	i_aio "github.com/resonatehq/resonate/internal/aio"
	"github.com/resonatehq/resonate/internal/kernel/bus"
	"github.com/resonatehq/resonate/internal/kernel/t_aio"
	"github.com/resonatehq/resonate/internal/metrics"
	"github.com/resonatehq/resonate/internal/vx"
)

type vhLoopAIO struct {
	i_aio.AIO
	cqes []*bus.CQE[t_aio.Submission, t_aio.Completion]
}

func (a *vhLoopAIO) EnqueueCQE(c *bus.CQE[t_aio.Submission, t_aio.Completion]) { a.cqes = append(a.cqes, c) }

func VH_ST_WorkerLoop() {
	vx.NondetSelect()
	db := vx.DB("sqlite")
	n := vx.Choose(3) + 1
	sq := make(chan *bus.SQE[t_aio.Submission, t_aio.Completion], 3)
	flush := make(chan int64, 1)
	a := &vhLoopAIO{}
	w := VXWorker(db)
	w.config, w.sq, w.flush, w.aio, w.metrics = &Config{BatchSize: vx.Choose(2) + 1}, sq, flush, a, metrics.New(prometheus.NewRegistry())
	vx.Havoc()
	vx.SqlFaults(vx.Opt("faults", 1))
	ids := []string{"s0", "s1", "s2"}
	keys := []string{vx.String("id0"), vx.String("id1"), vx.String("id2")}
	for i := 0; i < n; i++ {
		sq <- &bus.SQE[t_aio.Submission, t_aio.Completion]{Id: ids[i], Callback: func(*t_aio.Completion, error) {},
			Submission: &t_aio.Submission{Kind: t_aio.Store, Tags: map[string]string{"id": ids[i]}, Store: &t_aio.StoreSubmission{Transaction: &t_aio.Transaction{Commands: []*t_aio.Command{
				{Kind: t_aio.ReadPromise, ReadPromise: &t_aio.ReadPromiseCommand{Id: keys[i]}}}}}}}
	}
	if vx.Choose(2) == 1 {
		flush <- 0
	}
	close(sq)
	w.Start()
	vx.Assert(len(a.cqes) == n, "C12:worker-loop-one-completion-per-submission")
	for i := 0; i < n && i < len(a.cqes); i++ {
		c := a.cqes[i]
		vx.Assert(c.Id == ids[i], "C16:worker-loop-completions-in-submission-order")
		vx.Assert((c.Completion != nil) != (c.Error != nil), "C12:worker-loop-completion-or-error")
		if c.Completion != nil {
			vx.Reach("answered")
			r := c.Completion.Store.Results
			vx.Assert(len(r) == 1 && r[0].Kind == t_aio.ReadPromise && c.Completion.Tags["id"] == ids[i], "C16:worker-loop-result-belongs-to-its-submission")
			if r[0].ReadPromise.RowsReturned == 1 {
				vx.Assert(r[0].ReadPromise.Records[0].Id == keys[i], "C16:worker-loop-result-belongs-to-its-submission")
			}
		} else {
			vx.Reach("failed")
		}
	}
	vx.Reach("done")
}
