// target: internal/app/subsystems/api/grpc
// Demonstrations (real code) of the gRPC front-end defects found by the C13/C15 end-to-end harnesses.
package grpc

import (
	"context"
	"testing"

	i_api "github.com/resonatehq/resonate/internal/api"
	"github.com/resonatehq/resonate/internal/app/subsystems/api"
	"github.com/resonatehq/resonate/internal/app/subsystems/api/grpc/pb"
	"github.com/resonatehq/resonate/internal/kernel/bus"
	"github.com/resonatehq/resonate/internal/kernel/t_api"
	"google.golang.org/grpc/codes"
	"google.golang.org/grpc/status"
)

type vnKernel struct {
	i_api.API
	calls int
	req   *t_api.Request
	res   *t_api.Response
	err   error
}

func (k *vnKernel) EnqueueSQE(sqe *bus.SQE[t_api.Request, t_api.Response]) {
	k.calls++
	k.req = sqe.Submission
	sqe.Callback(k.res, k.err)
}
func (k *vnKernel) DequeueCQE(cq <-chan *bus.CQE[t_api.Request, t_api.Response]) *bus.CQE[t_api.Request, t_api.Response] {
	return <-cq
}

func vnServer(k *vnKernel) *server { return &server{api: api.New(k, "grpc")} }

func noPanic(t *testing.T, what string) {
	if r := recover(); r != nil {
		t.Fatalf("%s panicked: %v", what, r)
	}
}

// D2: the kernel answers a successful release with StatusNoContent; the reply must say released.
func TestVN_D2_ReleasedFlag(t *testing.T) {
	k := &vnKernel{res: &t_api.Response{Kind: t_api.ReleaseLock, ReleaseLock: &t_api.ReleaseLockResponse{Status: t_api.StatusNoContent}}}
	out, err := vnServer(k).ReleaseLock(context.Background(), &pb.ReleaseLockRequest{ResourceId: "r", ExecutionId: "e"})
	if err != nil || !out.Released {
		t.Fatalf("lock was released by the kernel but the reply says released=%v err=%v", out.GetReleased(), err)
	}
}

// D3: statuses the kernel produces must be renderable.
func TestVN_D3_StatusTables(t *testing.T) {
	for _, st := range []t_api.StatusCode{t_api.StatusCallbackInvalidPromise, t_api.StatusPromiseRecvNotFound, t_api.StatusAIOMatchError} {
		func() {
			defer noPanic(t, "rendering status "+string(rune('0'+st/10000)))
			_ = st.String()
			k := &vnKernel{err: t_api.NewError(st, nil)}
			_, err := vnServer(k).ReadPromise(context.Background(), &pb.ReadPromiseRequest{Id: "p"})
			if err == nil {
				t.Fatalf("status %d: expected an error reply", st)
			}
		}()
	}
	// create-promise-and-task that cannot be routed is answered 40404 by the kernel
	func() {
		defer noPanic(t, "CreatePromiseAndTask with kernel status 40404")
		k := &vnKernel{err: t_api.NewError(t_api.StatusPromiseRecvNotFound, nil)}
		_, err := vnServer(k).CreatePromiseAndTask(context.Background(), &pb.CreatePromiseAndTaskRequest{Promise: &pb.CreatePromiseRequest{Id: "p"}, Task: &pb.CreatePromiseTaskRequest{ProcessId: "x"}})
		if status.Code(err) != codes.NotFound {
			t.Fatalf("want NotFound, got %v", err)
		}
	}()
	// a callback whose root is the awaited promise is answered 40001
	func() {
		defer noPanic(t, "CreateCallback with kernel status 40001")
		k := &vnKernel{res: &t_api.Response{Kind: t_api.CreateCallback, CreateCallback: &t_api.CreateCallbackResponse{Status: t_api.StatusCallbackInvalidPromise}}}
		_, err := vnServer(k).CreateCallback(context.Background(), &pb.CreateCallbackRequest{Id: "c", PromiseId: "p", RootPromiseId: "p", Recv: &pb.Recv{Recv: &pb.Recv_Logical{Logical: "l"}}})
		if status.Code(err) != codes.InvalidArgument {
			t.Fatalf("want InvalidArgument, got %v", err)
		}
	}()
}

// D7: a request without recv (or with an empty physical recv) must be refused, not crash the server.
func TestVN_D7_MissingRecv(t *testing.T) {
	for name, recv := range map[string]*pb.Recv{"nil": nil, "physical-nil": {Recv: &pb.Recv_Physical{}}} {
		func() {
			defer noPanic(t, "CreateCallback with recv "+name)
			k := &vnKernel{res: &t_api.Response{Kind: t_api.CreateCallback, CreateCallback: &t_api.CreateCallbackResponse{Status: t_api.StatusCreated}}}
			_, err := vnServer(k).CreateCallback(context.Background(), &pb.CreateCallbackRequest{Id: "c", PromiseId: "p", RootPromiseId: "r", Recv: recv})
			if status.Code(err) != codes.InvalidArgument || k.calls != 0 {
				t.Fatalf("recv %s: want InvalidArgument before the kernel is called, got %v (kernel calls %d)", name, err, k.calls)
			}
		}()
		func() {
			defer noPanic(t, "CreateSubscription with recv "+name)
			k := &vnKernel{res: &t_api.Response{Kind: t_api.CreateSubscription, CreateSubscription: &t_api.CreateSubscriptionResponse{Status: t_api.StatusCreated}}}
			_, err := vnServer(k).CreateSubscription(context.Background(), &pb.CreateSubscriptionRequest{Id: "c", PromiseId: "p", Recv: recv})
			if status.Code(err) != codes.InvalidArgument || k.calls != 0 {
				t.Fatalf("recv %s: want InvalidArgument before the kernel is called, got %v (kernel calls %d)", name, err, k.calls)
			}
		}()
	}
}

// D8: ClaimTask must validate ttl and process id BEFORE handing the request to the kernel
// (the ClaimTask coroutine asserts both, i.e. the server dies).
func TestVN_D8_ClaimTaskValidation(t *testing.T) {
	for name, r := range map[string]*pb.ClaimTaskRequest{"negative-ttl": {Id: "t", Counter: 1, ProcessId: "p", Ttl: -1}, "empty-process": {Id: "t", Counter: 1, ProcessId: "", Ttl: 1}} {
		k := &vnKernel{res: &t_api.Response{Kind: t_api.ClaimTask, ClaimTask: &t_api.ClaimTaskResponse{Status: t_api.StatusTaskNotFound}}}
		_, err := vnServer(k).ClaimTask(context.Background(), r)
		if status.Code(err) != codes.InvalidArgument || k.calls != 0 {
			t.Fatalf("%s: want InvalidArgument before the kernel is called, got %v (kernel calls %d)", name, err, k.calls)
		}
	}
}

// D9: a cursor is a JWT signed with a key that is a constant in the source, so anybody can forge one.
// Its decoded claims must be validated like a fresh query before they reach the kernel.
func TestVN_D9_ForgedCursor(t *testing.T) {
	forge := func(next *t_api.SearchPromisesRequest) string {
		tok, err := (&t_api.Cursor[t_api.SearchPromisesRequest]{Next: next}).Encode()
		if err != nil {
			t.Fatal(err)
		}
		return tok
	}
	for name, next := range map[string]*t_api.SearchPromisesRequest{"no-next": nil, "empty-query": {}, "no-states": {Id: "*", Limit: 10}, "huge-limit": {Id: "*", Limit: 1 << 30}} {
		k := &vnKernel{res: &t_api.Response{Kind: t_api.SearchPromises, SearchPromises: &t_api.SearchPromisesResponse{Status: t_api.StatusOK}}}
		_, err := vnServer(k).SearchPromises(context.Background(), &pb.SearchPromisesRequest{Cursor: forge(next)})
		if status.Code(err) != codes.InvalidArgument || k.calls != 0 {
			t.Fatalf("%s: a forged cursor reached the kernel (calls=%d, request=%v, err=%v)", name, k.calls, k.req, err)
		}
	}
	forgeS := func(next *t_api.SearchSchedulesRequest) string {
		tok, _ := (&t_api.Cursor[t_api.SearchSchedulesRequest]{Next: next}).Encode()
		return tok
	}
	for name, next := range map[string]*t_api.SearchSchedulesRequest{"no-next": nil, "empty-query": {}} {
		k := &vnKernel{res: &t_api.Response{Kind: t_api.SearchSchedules, SearchSchedules: &t_api.SearchSchedulesResponse{Status: t_api.StatusOK}}}
		_, err := vnServer(k).SearchSchedules(context.Background(), &pb.SearchSchedulesRequest{Cursor: forgeS(next)})
		if status.Code(err) != codes.InvalidArgument || k.calls != 0 {
			t.Fatalf("%s: a forged cursor reached the kernel (calls=%d, err=%v)", name, k.calls, err)
		}
	}
}

// D15: a lock request with a negative ttl is a client error over HTTP (binding min=0); over gRPC it must not
// reach the kernel either (it would be stored as a lock whose lease ended before it began).
func TestVN_D15_AcquireLockNegativeTtl(t *testing.T) {
	k := &vnKernel{res: &t_api.Response{Kind: t_api.AcquireLock, AcquireLock: &t_api.AcquireLockResponse{Status: t_api.StatusCreated}}}
	_, err := vnServer(k).AcquireLock(context.Background(), &pb.AcquireLockRequest{ResourceId: "r", ExecutionId: "e", ProcessId: "p", Ttl: -1})
	if status.Code(err) != codes.InvalidArgument || k.calls != 0 {
		t.Fatalf("negative ttl: want InvalidArgument without a kernel request, got err=%v kernel calls=%d", err, k.calls)
	}
}

// D17: a callback/subscription whose physical receiver carries data that is not a JSON text cannot be stored; it is
// an invalid request and must be answered with a client error (InvalidArgument), not with codes.Unknown.
func TestVN_D17_CallbackRecvDataNotJSON(t *testing.T) {
	k := &vnKernel{res: &t_api.Response{Kind: t_api.CreateCallback, CreateCallback: &t_api.CreateCallbackResponse{Status: t_api.StatusCreated}}}
	recv := &pb.Recv{Recv: &pb.Recv_Physical{Physical: &pb.PhysicalRecv{Type: "http", Data: []byte("{not json")}}}
	_, err := vnServer(k).CreateCallback(context.Background(), &pb.CreateCallbackRequest{Id: "c", PromiseId: "p", RootPromiseId: "r", Timeout: 1, Recv: recv})
	if status.Code(err) != codes.InvalidArgument || k.calls != 0 {
		t.Fatalf("callback: want InvalidArgument without a kernel request, got code=%v err=%v kernel calls=%d", status.Code(err), err, k.calls)
	}
	k = &vnKernel{res: &t_api.Response{Kind: t_api.CreateSubscription, CreateSubscription: &t_api.CreateSubscriptionResponse{Status: t_api.StatusCreated}}}
	_, err = vnServer(k).CreateSubscription(context.Background(), &pb.CreateSubscriptionRequest{Id: "s", PromiseId: "p", Timeout: 1, Recv: recv})
	if status.Code(err) != codes.InvalidArgument || k.calls != 0 {
		t.Fatalf("subscription: want InvalidArgument without a kernel request, got code=%v err=%v kernel calls=%d", status.Code(err), err, k.calls)
	}
}
