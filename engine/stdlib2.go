package main

// Rules for standard-library pieces that changed code plausibly starts to use (locks, once, pools, atomics, wait
// groups, builders, parsing helpers). The execution is sequential, so synchronisation primitives only keep the state
// that can go wrong sequentially: locking a mutex that is already held blocks for ever, unlocking a free one panics.

import (
	"fmt"
	"go/types"
	"strconv"
	"strings"

	"golang.org/x/tools/go/ssa"
)

func (ex *Exec) cellKey(v Value) string {
	p, ok := v.(*PtrV)
	if !ok || p.obj == nil {
		panic(ex.goPanic("nil pointer dereference (synchronisation primitive)"))
	}
	return fmt.Sprintf("%d%v", p.obj.id, p.path)
}

type poolState struct{ items []Value }

func init() {
	// ---- sync.Mutex / RWMutex
	lock := func(write bool) func(ex *Exec, fr *Frame, a []Value, s ssa.Instruction) Value {
		return func(ex *Exec, fr *Frame, a []Value, s ssa.Instruction) Value {
			ex.H.noteStub("sync.Mutex/RWMutex: sequential execution; locking a held lock blocks, unlocking a free one panics")
			k := ex.cellKey(a[0])
			if ex.W.locks == nil {
				ex.W.locks = map[string]int{}
			}
			st := ex.W.locks[k] // -1 write-held, n>0 readers
			if write {
				if st != 0 {
					panic(&pathEnd{kind: "blocked", msg: "Lock of a mutex that is already held (self-deadlock)", pos: ex.posStr()})
				}
				ex.W.locks[k] = -1
			} else {
				if st < 0 {
					panic(&pathEnd{kind: "blocked", msg: "RLock of a mutex that is write-held (self-deadlock)", pos: ex.posStr()})
				}
				ex.W.locks[k] = st + 1
			}
			return nil
		}
	}
	unlock := func(write bool) func(ex *Exec, fr *Frame, a []Value, s ssa.Instruction) Value {
		return func(ex *Exec, fr *Frame, a []Value, s ssa.Instruction) Value {
			k := ex.cellKey(a[0])
			if ex.W.locks == nil {
				ex.W.locks = map[string]int{}
			}
			st := ex.W.locks[k]
			if write {
				if st != -1 {
					panic(ex.goPanic("sync: unlock of unlocked mutex"))
				}
				ex.W.locks[k] = 0
			} else {
				if st <= 0 {
					panic(ex.goPanic("sync: RUnlock of unlocked RWMutex"))
				}
				ex.W.locks[k] = st - 1
			}
			return nil
		}
	}
	intercepts["(*sync.Mutex).Lock"] = lock(true)
	intercepts["(*sync.Mutex).Unlock"] = unlock(true)
	intercepts["(*sync.RWMutex).Lock"] = lock(true)
	intercepts["(*sync.RWMutex).Unlock"] = unlock(true)
	intercepts["(*sync.RWMutex).RLock"] = lock(false)
	intercepts["(*sync.RWMutex).RUnlock"] = unlock(false)
	intercepts["(*sync.Mutex).TryLock"] = func(ex *Exec, fr *Frame, a []Value, s ssa.Instruction) Value {
		k := ex.cellKey(a[0])
		if ex.W.locks == nil {
			ex.W.locks = map[string]int{}
		}
		if ex.W.locks[k] != 0 {
			return ex.tt.Bool(false)
		}
		ex.W.locks[k] = -1
		return ex.tt.Bool(true)
	}
	// ---- sync.Once
	intercepts["(*sync.Once).Do"] = func(ex *Exec, fr *Frame, a []Value, s ssa.Instruction) Value {
		k := "once" + ex.cellKey(a[0])
		if ex.W.locks == nil {
			ex.W.locks = map[string]int{}
		}
		if ex.W.locks[k] != 0 {
			return nil
		}
		ex.W.locks[k] = 1
		ex.callValue(fr, a[1], nil, s)
		return nil
	}
	// ---- sync.WaitGroup: goroutines are not run, so Wait cannot be waited out; the counter is kept
	intercepts["(*sync.WaitGroup).Add"] = func(ex *Exec, fr *Frame, a []Value, s ssa.Instruction) Value {
		k := "wg" + ex.cellKey(a[0])
		if ex.W.locks == nil {
			ex.W.locks = map[string]int{}
		}
		ex.W.locks[k] += ex.concreteInt(a[1], "WaitGroup delta")
		if ex.W.locks[k] < 0 {
			panic(ex.goPanic("sync: negative WaitGroup counter"))
		}
		return nil
	}
	intercepts["(*sync.WaitGroup).Done"] = func(ex *Exec, fr *Frame, a []Value, s ssa.Instruction) Value {
		k := "wg" + ex.cellKey(a[0])
		if ex.W.locks == nil {
			ex.W.locks = map[string]int{}
		}
		ex.W.locks[k]--
		if ex.W.locks[k] < 0 {
			panic(ex.goPanic("sync: negative WaitGroup counter"))
		}
		return nil
	}
	intercepts["(*sync.WaitGroup).Wait"] = func(ex *Exec, fr *Frame, a []Value, s ssa.Instruction) Value {
		k := "wg" + ex.cellKey(a[0])
		if ex.W.locks[k] > 0 && !ex.W.ignoreGo {
			panic(&pathEnd{kind: "blocked", msg: "WaitGroup.Wait with a positive counter and no goroutine to finish it", pos: ex.posStr()})
		}
		return nil
	}
	// ---- sync.Pool: Get hands back any object that was Put earlier, or a new one (the runtime may drop pooled
	// objects at any time): both are explored
	intercepts["(*sync.Pool).Get"] = func(ex *Exec, fr *Frame, a []Value, s ssa.Instruction) Value {
		ex.H.noteStub("sync.Pool: Get returns an earlier Put object or a new one (both explored)")
		k := ex.cellKey(a[0])
		if ex.W.pools == nil {
			ex.W.pools = map[string]*poolState{}
		}
		ps := ex.W.pools[k]
		if ps != nil && len(ps.items) > 0 && ex.choose(2, nil, "pool-reuse") == 1 {
			v := ps.items[len(ps.items)-1]
			ps.items = ps.items[:len(ps.items)-1]
			return v
		}
		pt := a[0].(*PtrV)
		st := ex.peek(pt).(*StructV)
		T := pt.obj.typ
		for _, i := range pt.path {
			switch u := T.Underlying().(type) {
			case *types.Struct:
				T = u.Field(i).Type()
			case *types.Array:
				T = u.Elem()
			}
		}
		idx := ex.fieldIndex(T, "New")
		nf, _ := st.fs[idx].(*FuncV)
		if nf == nil || (nf.fn == nil && nf.intr == "") {
			return &IfaceV{}
		}
		return ex.callValue(fr, nf, nil, s)
	}
	intercepts["(*sync.Pool).Put"] = func(ex *Exec, fr *Frame, a []Value, s ssa.Instruction) Value {
		k := ex.cellKey(a[0])
		if ex.W.pools == nil {
			ex.W.pools = map[string]*poolState{}
		}
		if ex.W.pools[k] == nil {
			ex.W.pools[k] = &poolState{}
		}
		ex.W.pools[k].items = append(ex.W.pools[k].items, a[1])
		return nil
	}
	// ---- sync/atomic on plain words
	for _, w := range []string{"Int64", "Int32", "Uint64", "Uint32"} {
		w := w
		intercepts["sync/atomic.Add"+w] = func(ex *Exec, fr *Frame, a []Value, s ssa.Instruction) Value {
			p := ex.ptr(a[0])
			nv := ex.tt.Add(ex.load(p).(*Term), a[1].(*Term))
			ex.store(p, nv)
			return nv
		}
		intercepts["sync/atomic.Load"+w] = func(ex *Exec, fr *Frame, a []Value, s ssa.Instruction) Value {
			return ex.load(ex.ptr(a[0]))
		}
		intercepts["sync/atomic.Store"+w] = func(ex *Exec, fr *Frame, a []Value, s ssa.Instruction) Value {
			ex.store(ex.ptr(a[0]), a[1])
			return nil
		}
		intercepts["sync/atomic.Swap"+w] = func(ex *Exec, fr *Frame, a []Value, s ssa.Instruction) Value {
			p := ex.ptr(a[0])
			old := ex.load(p)
			ex.store(p, a[1])
			return old
		}
		intercepts["sync/atomic.CompareAndSwap"+w] = func(ex *Exec, fr *Frame, a []Value, s ssa.Instruction) Value {
			p := ex.ptr(a[0])
			old := ex.load(p).(*Term)
			if ex.branch(ex.tt.Eq(old, a[1].(*Term)), "cas") {
				ex.store(p, a[2])
				return ex.tt.Bool(true)
			}
			return ex.tt.Bool(false)
		}
	}
	// typed atomics: the value lives in the field named v
	vfield := func(ex *Exec, recv Value) *PtrV {
		p := ex.ptr(recv)
		T := p.typ
		var et types.Type
		if T != nil {
			if pt, ok := T.Underlying().(*types.Pointer); ok {
				et = pt.Elem()
			}
		}
		if et == nil {
			et = p.obj.typ
			for _, i := range p.path {
				switch u := et.Underlying().(type) {
				case *types.Struct:
					et = u.Field(i).Type()
				case *types.Array:
					et = u.Elem()
				}
			}
		}
		return &PtrV{obj: p.obj, path: extendPath(p.path, ex.fieldIndex(et, "v"))}
	}
	for _, w := range []string{"Int64", "Int32", "Uint64", "Uint32"} {
		t := "(*sync/atomic." + w + ")."
		intercepts[t+"Load"] = func(ex *Exec, fr *Frame, a []Value, s ssa.Instruction) Value { return ex.load(vfield(ex, a[0])) }
		intercepts[t+"Store"] = func(ex *Exec, fr *Frame, a []Value, s ssa.Instruction) Value {
			ex.store(vfield(ex, a[0]), a[1])
			return nil
		}
		intercepts[t+"Add"] = func(ex *Exec, fr *Frame, a []Value, s ssa.Instruction) Value {
			p := vfield(ex, a[0])
			nv := ex.tt.Add(ex.load(p).(*Term), a[1].(*Term))
			ex.store(p, nv)
			return nv
		}
		intercepts[t+"Swap"] = func(ex *Exec, fr *Frame, a []Value, s ssa.Instruction) Value {
			p := vfield(ex, a[0])
			old := ex.load(p)
			ex.store(p, a[1])
			return old
		}
		intercepts[t+"CompareAndSwap"] = func(ex *Exec, fr *Frame, a []Value, s ssa.Instruction) Value {
			p := vfield(ex, a[0])
			old := ex.load(p).(*Term)
			if ex.branch(ex.tt.Eq(old, a[1].(*Term)), "cas") {
				ex.store(p, a[2])
				return ex.tt.Bool(true)
			}
			return ex.tt.Bool(false)
		}
	}
	// atomic.Bool keeps a uint32
	intercepts["(*sync/atomic.Bool).Load"] = func(ex *Exec, fr *Frame, a []Value, s ssa.Instruction) Value {
		v := ex.load(vfield(ex, a[0])).(*Term)
		return ex.tt.Not(ex.tt.Eq(v, ex.tt.BV(0, 32)))
	}
	intercepts["(*sync/atomic.Bool).Store"] = func(ex *Exec, fr *Frame, a []Value, s ssa.Instruction) Value {
		ex.store(vfield(ex, a[0]), ex.tt.Ite(a[1].(*Term), ex.tt.BV(1, 32), ex.tt.BV(0, 32)))
		return nil
	}
	// ---- strings.Builder (content kept in the buf field as a byte value)
	sbAppend := func(ex *Exec, recv Value, t *Term) {
		sv := ex.peek(ex.ptr(recv)).(*StructV)
		old := ex.bytesOf(sv.fs[1])
		sv.fs[1] = &BytesV{isNil: ex.tt.Bool(false), s: ex.tt.Concat(old.s, t)}
	}
	intercepts["(*strings.Builder).WriteByte"] = func(ex *Exec, fr *Frame, a []Value, s ssa.Instruction) Value {
		if n, ok := a[1].(*Term).BVVal(); ok && n < 128 {
			sbAppend(ex, a[0], ex.tt.Str(string(rune(n))))
		} else {
			sbAppend(ex, a[0], ex.tt.Var("builder.byte", SString))
		}
		return nilErr()
	}
	intercepts["(*strings.Builder).WriteRune"] = func(ex *Exec, fr *Frame, a []Value, s ssa.Instruction) Value {
		if n, ok := a[1].(*Term).BVVal(); ok {
			sbAppend(ex, a[0], ex.tt.Str(string(rune(n))))
		} else {
			sbAppend(ex, a[0], ex.tt.Var("builder.rune", SString))
		}
		return &TupleV{vs: []Value{ex.tt.BV(1, 64), nilErr()}}
	}
	intercepts["(*strings.Builder).Write"] = func(ex *Exec, fr *Frame, a []Value, s ssa.Instruction) Value {
		b := ex.bytesOf(a[1])
		sbAppend(ex, a[0], b.s)
		return &TupleV{vs: []Value{ex.strLenBV(b.s), nilErr()}}
	}
	intercepts["(*strings.Builder).Len"] = func(ex *Exec, fr *Frame, a []Value, s ssa.Instruction) Value {
		sv := ex.peek(ex.ptr(a[0])).(*StructV)
		return ex.strLenBV(ex.bytesOf(sv.fs[1]).s)
	}
	intercepts["(*strings.Builder).Grow"] = func(ex *Exec, fr *Frame, a []Value, s ssa.Instruction) Value { return nil }
	intercepts["(*strings.Builder).Reset"] = func(ex *Exec, fr *Frame, a []Value, s ssa.Instruction) Value {
		sv := ex.peek(ex.ptr(a[0])).(*StructV)
		sv.fs[1] = &BytesV{isNil: ex.tt.Bool(true), s: ex.tt.Str("")}
		return nil
	}
	// ---- strconv
	intercepts["strconv.ParseInt"] = func(ex *Exec, fr *Frame, a []Value, s ssa.Instruction) Value {
		tt := ex.tt
		x := a[0].(*Term)
		base, ok1 := a[1].(*Term).BVVal()
		bits, ok2 := a[2].(*Term).BVVal()
		if c, ok := x.StrVal(); ok && ok1 && ok2 {
			n, err := strconv.ParseInt(c, int(base), int(bits))
			if err != nil {
				return &TupleV{vs: []Value{tt.BV(uint64(n), 64), ex.opaqueErr("strconv.ParseInt: " + err.Error())}}
			}
			return &TupleV{vs: []Value{tt.BV(uint64(n), 64), nilErr()}}
		}
		ex.H.noteStub("strconv.ParseInt: fails or returns an arbitrary int (uninterpreted atoi)")
		if !ex.branch(tt.UF("atoi_valid", SBool, x), "atoi-valid") {
			return &TupleV{vs: []Value{tt.BV(0, 64), ex.opaqueErr("strconv.ParseInt: invalid syntax")}}
		}
		return &TupleV{vs: []Value{tt.UF("atoi", SBV64, x), nilErr()}}
	}
	intercepts["strconv.ParseBool"] = func(ex *Exec, fr *Frame, a []Value, s ssa.Instruction) Value {
		tt := ex.tt
		x := a[0].(*Term)
		if c, ok := x.StrVal(); ok {
			b, err := strconv.ParseBool(c)
			if err != nil {
				return &TupleV{vs: []Value{tt.Bool(false), ex.opaqueErr("strconv.ParseBool: invalid syntax")}}
			}
			return &TupleV{vs: []Value{tt.Bool(b), nilErr()}}
		}
		isT := tt.Or(tt.Eq(x, tt.Str("1")), tt.Eq(x, tt.Str("t")), tt.Eq(x, tt.Str("T")), tt.Eq(x, tt.Str("TRUE")), tt.Eq(x, tt.Str("true")), tt.Eq(x, tt.Str("True")))
		isF := tt.Or(tt.Eq(x, tt.Str("0")), tt.Eq(x, tt.Str("f")), tt.Eq(x, tt.Str("F")), tt.Eq(x, tt.Str("FALSE")), tt.Eq(x, tt.Str("false")), tt.Eq(x, tt.Str("False")))
		if ex.branch(tt.Or(isT, isF), "parsebool-valid") {
			return &TupleV{vs: []Value{isT, nilErr()}}
		}
		return &TupleV{vs: []Value{tt.Bool(false), ex.opaqueErr("strconv.ParseBool: invalid syntax")}}
	}
	intercepts["strconv.FormatBool"] = func(ex *Exec, fr *Frame, a []Value, s ssa.Instruction) Value {
		return ex.tt.Ite(a[0].(*Term), ex.tt.Str("true"), ex.tt.Str("false"))
	}
	// ---- strings.Cut: found => s = before ++ sep ++ after and sep does not occur in before (first occurrence)
	intercepts["strings.Cut"] = func(ex *Exec, fr *Frame, a []Value, s ssa.Instruction) Value {
		tt := ex.tt
		x, sep := a[0].(*Term), a[1].(*Term)
		if xs, ok := x.StrVal(); ok {
			if ss, ok := sep.StrVal(); ok {
				b, af, f := strings.Cut(xs, ss)
				return &TupleV{vs: []Value{tt.Str(b), tt.Str(af), tt.Bool(f)}}
			}
		}
		if ex.branch(tt.StrContains(x, sep), "cut-found") {
			ex.W.ncut++
			b := tt.Var(fmt.Sprintf("cut.before.%d", ex.W.ncut), SString)
			af := tt.Var(fmt.Sprintf("cut.after.%d", ex.W.ncut), SString)
			ex.addPC(tt.Eq(x, tt.Concat(b, sep, af)))
			if ss, ok := sep.StrVal(); ok && len(ss) == 1 {
				ex.addPC(tt.Not(tt.StrContains(b, sep)))
			}
			return &TupleV{vs: []Value{b, af, tt.Bool(true)}}
		}
		return &TupleV{vs: []Value{x, tt.Str(""), tt.Bool(false)}}
	}
	// ---- errors.Unwrap / time.Since / sort.Ints / sort.Strings / clear
	intercepts["errors.Unwrap"] = func(ex *Exec, fr *Frame, a []Value, s ssa.Instruction) Value {
		if iv, ok := a[0].(*IfaceV); ok && iv.typ != nil {
			if o, ok := iv.v.(*OpaqueV); ok && o.aux != nil {
				return o.aux
			}
		}
		return &IfaceV{}
	}
	intercepts["time.Since"] = func(ex *Exec, fr *Frame, a []Value, s ssa.Instruction) Value {
		ex.H.noteStub("time.Since / time.Until: an arbitrary non-negative duration")
		d := ex.tt.Var("time.since", SBV64)
		ex.addPC(ex.tt.And(ex.tt.SLe(ex.tt.BV(0, 64), d), ex.tt.SLt(d, ex.tt.BV(1<<62, 64))))
		return d
	}
	sortBV := func(str bool) func(ex *Exec, fr *Frame, a []Value, s ssa.Instruction) Value {
		return func(ex *Exec, fr *Frame, a []Value, s ssa.Instruction) Value {
			sl, ok := a[0].(*SliceV)
			if !ok || sl.len <= 1 {
				return nil
			}
			if sl.len > 6 {
				panic(ex.unsupported("sort over more than 6 elements"))
			}
			tt := ex.tt
			es := sl.arr.v.(*ArrayV).es
			for i := 1; i < sl.len; i++ {
				for j := i; j > 0; j-- {
					x, y := es[sl.off+j].(*Term), es[sl.off+j-1].(*Term)
					var lt *Term
					if str {
						lt = tt.StrLt(x, y)
					} else {
						lt = tt.SLt(x, y)
					}
					// compare-exchange without forking
					es[sl.off+j], es[sl.off+j-1] = tt.Ite(lt, y, x), tt.Ite(lt, x, y)
				}
			}
			return nil
		}
	}
	intercepts["sort.Ints"] = sortBV(false)
	intercepts["sort.Strings"] = sortBV(true)
	intercepts["builtin:clear"] = func(ex *Exec, fr *Frame, a []Value, s ssa.Instruction) Value {
		switch x := a[0].(type) {
		case *MapV:
			if x.m == nil {
				return nil
			}
			if len(ex.W.watches) > 0 {
				ex.noteMapWrite(x.m)
			}
			if x.m.sym {
				x.m.src = nil
				x.m.has = ex.tt.ConstArr(SArrSB, ex.tt.Bool(false))
				x.m.val = ex.tt.ConstArr(SArrSS, ex.tt.Str(""))
				x.m.keys = []*Term{}
				x.m.opaq = false
			} else {
				x.m.ks, x.m.vs = nil, nil
			}
			return nil
		case *SliceV:
			if x.arr == nil {
				return nil
			}
			es := x.arr.v.(*ArrayV).es
			var et types.Type
			if x.arr.typ != nil {
				if at, ok := x.arr.typ.Underlying().(*types.Array); ok {
					et = at.Elem()
				}
			}
			for i := 0; i < x.len; i++ {
				if et != nil {
					es[x.off+i] = ex.zero(et)
				} else if t, ok := es[x.off+i].(*Term); ok && t.sort == SString {
					es[x.off+i] = ex.tt.Str("")
				} else {
					panic(ex.unsupported("clear of a slice whose element type is not known"))
				}
			}
			return nil
		}
		panic(ex.unsupported("clear of %s", describe(a[0])))
	}
}
