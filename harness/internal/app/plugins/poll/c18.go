package poll

// C18: every sequence of connects / disconnects / reconnects / sends over two groups and
// two ids, every buffer size and connection limit, every random pick.

import (
	"encoding/json"

	"github.com/prometheus/client_golang/prometheus"
	"github.com/resonatehq/resonate/internal/aio"
	"github.com/resonatehq/resonate/internal/vx"
	"github.com/resonatehq/resonate/pkg/message"
)

// every group / id is an arbitrary string: which of them coincide is decided by the solver
var vhN int

func vhStr(kind string) string {
	vhN++
	return vx.String(kind + string(rune('0'+vhN)))
}

func vhRegistered(cs *connections, c *connection) bool {
	for _, o := range cs.conns[c.group] {
		if o == c {
			return true
		}
	}
	return false
}

func vhCount(cs *connections) int {
	n := 0
	for _, l := range cs.conns {
		n += len(l)
	}
	return n
}

func VH_C18_Ops() {
	max := vx.Choose(2) + 1
	buf := vx.Choose(2) + 1
	w := &PollWorker{connections: connections{max: max, cnt: prometheus.NewGauge(prometheus.GaugeOpts{}), conns: map[string][]*connection{}}}
	cs := &w.connections
	var all []*connection
	steps := vx.Opt("steps", 3)
	for step := 0; step < steps; step++ {
		switch vx.Choose(3) {
		case 0: // connect (possibly a reconnect with the same id)
			c := &connection{group: vhStr("group"), id: vhStr("id"), ch: make(chan []byte, buf)}
			var older *connection
			for _, o := range cs.conns[c.group] {
				if o.id == c.id {
					older = o
				}
			}
			before := vhCount(cs)
			cs.add(c)
			all = append(all, c)
			if older != nil {
				vx.Reach("reconnect")
				vx.Assert(vx.ChanClosed(older.ch) && !vhRegistered(cs, older), "C18:reconnect-replaces-the-older-connection")
			}
			if vhRegistered(cs, c) {
				vx.Assert(!vx.ChanClosed(c.ch), "C18:registered-connection-is-open")
			} else {
				vx.Reach("limit-reached")
				vx.Assert(vx.ChanClosed(c.ch), "C18:refused-connection-is-closed")
				expected := before
				if older != nil {
					expected = before - 1
				}
				vx.Assert(expected >= max, "C18:refused-only-at-the-limit")
			}
		case 1: // disconnect of an earlier connection (possibly one that was already replaced)
			if len(all) == 0 {
				continue
			}
			c := all[vx.Choose(len(all))]
			if vx.ChanClosed(c.ch) && !vhRegistered(cs, c) {
				// the handler's late disconnect of a usurped / refused connection
				var twin *connection
				for _, o := range cs.conns[c.group] {
					if o.id == c.id {
						twin = o
					}
				}
				cs.rmv(c, true)
				if twin != nil {
					vx.Reach("late-disconnect")
					vx.Assert(vhRegistered(cs, twin) && !vx.ChanClosed(twin.ch), "C18:late-disconnect-leaves-the-replacement-alone")
				}
			} else {
				cs.rmv(c, true)
				vx.Assert(!vhRegistered(cs, c) && vx.ChanClosed(c.ch), "C18:disconnect-unregisters-and-closes")
			}
		case 2: // send
			group, id := vhStr("group"), vhStr("id")
			mtype := message.Type([]string{"invoke", "notify"}[vx.Choose(2)])
			calls, okv := 0, false
			sendsBefore := make([]int, len(all))
			for i, c := range all {
				sendsBefore[i] = vx.ChanSends(c.ch)
			}
			data, _ := json.Marshal(&Data{Group: group, Id: id})
			w.Process(&aio.Message{Type: mtype, Data: data, Body: []byte("body"), Done: func(ok bool, err error) { calls++; okv = ok }})
			vx.Assert(calls == 1, "C18:delivery-reported-exactly-once")
			got := 0
			var rcpt *connection
			for i, c := range all {
				d := vx.ChanSends(c.ch) - sendsBefore[i]
				got += d
				if d == 1 {
					rcpt = c
				}
			}
			vx.Assert(got <= 1 && okv == (got == 1), "C18:delivered-iff-exactly-one-listener-accepted")
			if okv {
				vx.Reach("delivered")
				exact := false
				for _, o := range cs.conns[group] {
					if o.id == id {
						exact = true
					}
				}
				vx.Assert(vhRegistered(cs, rcpt) && rcpt.group == group, "C18:handed-to-a-registered-listener-of-the-addressed-group")
				vx.Assert(!exact || id == "" || rcpt.id == id, "C18:addressed-id-preferred") // an empty id addresses nobody in particular
				vx.Assert(mtype != message.Notify || rcpt.id == id, "C18:notification-only-to-the-exact-id")
			}
		}
		vx.Assert(cs.len == vhCount(cs) && cs.len <= max, "C18:count-consistent-and-within-limit")
	}
	vx.Reach("done")
}
