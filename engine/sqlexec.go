package main

// Symbolic database (N row slots per table) and the semantics of the SQL
// statement subset on it.

import (
	"encoding/json"
	"fmt"
	"sort"
	"strings"
)

type SVal struct {
	v    *Term // String | BV64 | Bool (expression results)
	null *Term // Bool
}

type Row struct {
	present *Term
	cols    []SVal
}

type TableDef struct {
	name    string
	cols    []ColDef
	idx     map[string]int
	autoCol int
	keyCol  int // first UNIQUE/PRIMARY KEY text column (the id)
}

type Table struct {
	def      *TableDef
	rows     []*Row
	nextSort *Term
}

type SymDB struct {
	tabs    map[string]*Table
	names   []string
	dialect string // sqlite | postgres
	gen     int
}

type Schema struct {
	dialect string
	defs    map[string]*TableDef
	names   []string
}

func BuildSchema(dialect, createText string) (*Schema, error) {
	stmts, err := ParseSQLScript(createText)
	if err != nil {
		return nil, err
	}
	sc := &Schema{dialect: dialect, defs: map[string]*TableDef{}}
	for _, st := range stmts {
		if st.kind != "create-table" {
			continue
		}
		td := &TableDef{name: st.table, cols: st.coldefs, idx: map[string]int{}, autoCol: -1, keyCol: -1}
		for i := range td.cols {
			c := &td.cols[i]
			td.idx[c.name] = i
			if c.foreignType && dialect == "postgres" {
				return nil, fmt.Errorf("unsupported column type %q for %s.%s in the Postgres schema", c.dialectType, st.table, c.name)
			}
			if c.width == 0 {
				if dialect == "postgres" {
					c.width = 32
				} else {
					c.width = 64
				}
			}
			if c.pk && c.typ == "INTEGER" && dialect == "sqlite" {
				c.autoinc = true // INTEGER PRIMARY KEY is the rowid
			}
			if c.autoinc {
				td.autoCol = i
			}
			if c.unique && c.typ == "TEXT" && td.keyCol < 0 {
				td.keyCol = i
			}
		}
		sc.defs[st.table] = td
		sc.names = append(sc.names, st.table)
	}
	return sc, nil
}

func colSort(c *ColDef) Sort {
	if c.typ == "INTEGER" {
		return SBV64
	}
	return SString
}

// NewSymDB creates a database with fresh symbolic content (n[table] slots).
func (ex *Exec) NewSymDB(sc *Schema, slots map[string]int, prefix string) *SymDB {
	tt := ex.tt
	db := &SymDB{tabs: map[string]*Table{}, dialect: sc.dialect}
	for _, name := range sc.names {
		if name == "migrations" {
			continue
		}
		td := sc.defs[name]
		n := slots[name]
		t := &Table{def: td}
		for i := 0; i < n; i++ {
			r := &Row{present: tt.Var(fmt.Sprintf("%s.%s%d.present", prefix, name, i), SBool)}
			for ci := range td.cols {
				c := &td.cols[ci]
				v := tt.Var(fmt.Sprintf("%s.%s%d.%s", prefix, name, i, c.name), colSort(c))
				nl := tt.Var(fmt.Sprintf("%s.%s%d.%s.null", prefix, name, i, c.name), SBool)
				r.cols = append(r.cols, SVal{v: v, null: nl})
			}
			t.rows = append(t.rows, r)
		}
		if td.autoCol >= 0 {
			t.nextSort = tt.Var(fmt.Sprintf("%s.%s.nextsort", prefix, name), SBV64)
		}
		db.tabs[name] = t
		db.names = append(db.names, name)
	}
	return db
}

// NewInvDB creates a symbolic database whose rows satisfy the row-local clauses
// of Inv by construction (NOT NULL facts, JSON columns as canonical encodings,
// state-dependent nullness), which keeps infeasible decode/NULL branches out
// of the search. The relational clauses of Inv are still asserted by the caller.
func (ex *Exec) NewInvDB(sc *Schema, slots map[string]int, prefix string) *SymDB {
	tt := ex.tt
	db := ex.NewSymDB(sc, slots, prefix)
	f := tt.Bool(false)
	one := tt.BV(1, 64)
	encMapVar := func(name string) *Term {
		// an opaque string that is a valid map encoding by construction; its
		// decoding (jdec_map_has/val) only materialises when the code looks inside
		v := tt.Var(name, SString)
		tt.validStr[v.id] = "map"
		return v
	}
	for _, name := range db.names {
		t := db.tabs[name]
		for i, r := range t.rows {
			nr := &Row{present: r.present, cols: append([]SVal{}, r.cols...)}
			set := func(col string, v *Term, null *Term) {
				ci, ok := t.def.idx[col]
				if !ok {
					return
				}
				if v == nil {
					v = nr.cols[ci].v
				}
				if null == nil {
					null = nr.cols[ci].null
				}
				nr.cols[ci] = SVal{v: v, null: null}
			}
			get := func(col string) SVal {
				ci, ok := t.def.idx[col]
				if !ok {
					return SVal{v: tt.BV(0, 64), null: f}
				}
				return nr.cols[ci]
			}
			pn := fmt.Sprintf("%s.%s%d", prefix, name, i)
			switch name {
			case "promises":
				for _, c := range []string{"id", "sort_id", "state", "param_data", "timeout", "created_on"} {
					set(c, nil, f)
				}
				pending := tt.Eq(get("state").v, one)
				set("param_headers", encMapVar(pn+".param_headers"), f)
				set("tags", encMapVar(pn+".tags"), f)
				set("value_headers", encMapVar(pn+".value_headers"), pending)
				set("value_data", nil, pending)
				set("completed_on", nil, pending)
				set("idempotency_key_for_complete", nil, tt.Or(pending, get("idempotency_key_for_complete").null))
			case "callbacks":
				for _, c := range []string{"id", "promise_id", "root_promise_id", "recv", "timeout", "created_on"} {
					set(c, nil, f)
				}
				set("mesg", tt.UF("jenc_message.Mesg", SString, tt.Var(pn+".mesg.type", SString), get("root_promise_id").v, tt.Var(pn+".mesg.leaf", SString)), f)
			case "tasks":
				for _, c := range []string{"id", "sort_id", "state", "root_promise_id", "recv", "timeout", "counter", "attempt", "ttl", "expires_at", "created_on"} {
					set(c, nil, f)
				}
				set("mesg", tt.UF("jenc_message.Mesg", SString, tt.Var(pn+".mesg.type", SString), get("root_promise_id").v, tt.Var(pn+".mesg.leaf", SString)), f)
				set("process_id", nil, tt.And(get("process_id").null, tt.Not(tt.Eq(get("state").v, tt.BV(4, 64)))))
			case "locks":
				for _, c := range []string{"resource_id", "execution_id", "process_id", "ttl", "expires_at"} {
					set(c, nil, f)
				}
			case "schedules":
				for _, c := range []string{"id", "sort_id", "description", "cron", "promise_id", "promise_timeout", "promise_param_data", "next_run_time", "created_on"} {
					set(c, nil, f)
				}
				set("tags", encMapVar(pn+".tags"), f)
				set("promise_tags", encMapVar(pn+".promise_tags"), f)
				set("promise_param_headers", encMapVar(pn+".promise_param_headers"), f)
			}
			t.rows[i] = nr
		}
	}
	return db
}

// EmptyDB creates a concrete empty database with the given slot counts.
func (ex *Exec) EmptyDB(sc *Schema, slots map[string]int) *SymDB {
	tt := ex.tt
	db := &SymDB{tabs: map[string]*Table{}, dialect: sc.dialect}
	for _, name := range sc.names {
		if name == "migrations" {
			continue
		}
		td := sc.defs[name]
		t := &Table{def: td}
		for i := 0; i < slots[name]; i++ {
			r := &Row{present: tt.Bool(false)}
			for ci := range td.cols {
				c := &td.cols[ci]
				var v *Term
				if colSort(c) == SBV64 {
					v = tt.BV(0, 64)
				} else {
					v = tt.Str("")
				}
				r.cols = append(r.cols, SVal{v: v, null: tt.Bool(true)})
			}
			t.rows = append(t.rows, r)
		}
		if td.autoCol >= 0 {
			t.nextSort = tt.BV(1, 64)
		}
		db.tabs[name] = t
		db.names = append(db.names, name)
	}
	return db
}

func (db *SymDB) Clone() *SymDB {
	n := &SymDB{tabs: map[string]*Table{}, names: db.names, dialect: db.dialect, gen: db.gen}
	for k, t := range db.tabs {
		nt := &Table{def: t.def, rows: append([]*Row{}, t.rows...), nextSort: t.nextSort}
		n.tabs[k] = nt
	}
	return n
}

// ---------------------------------------------------------------- expression evaluation

type sqlEnv struct {
	ex       *Exec
	db       *SymDB
	args     []SVal
	bind     map[string]*rowBind // alias/table name -> row
	cur      *rowBind            // unqualified columns resolve here first
	excluded *rowBind
	argMaps  map[int]*MapObj // argument index -> marshalled map (for @>)
}

type rowBind struct {
	t *Table
	r *Row
}

type sqlError struct{ msg string }

func (e *sqlError) Error() string { return e.msg }

func sqlFail(f string, a ...interface{}) { panic(&sqlError{msg: fmt.Sprintf(f, a...)}) }

func (env *sqlEnv) col(table, name string) SVal {
	var rb *rowBind
	switch {
	case table == "excluded":
		rb = env.excluded
	case table != "":
		rb = env.bind[table]
	default:
		rb = env.cur
	}
	if rb == nil {
		sqlFail("unknown table reference %q", table)
	}
	i, ok := rb.t.def.idx[name]
	if !ok {
		sqlFail("no such column %s.%s", rb.t.def.name, name)
	}
	return rb.r.cols[i]
}

func (env *sqlEnv) eval(e *SQLExpr) SVal {
	tt := env.ex.tt
	f := tt.Bool(false)
	switch e.op {
	case "param":
		if e.param >= len(env.args) {
			sqlFail("missing argument %d", e.param+1)
		}
		return env.args[e.param]
	case "col":
		return env.col(e.table, e.name)
	case "int":
		return SVal{v: tt.BV(uint64(e.num), 64), null: f}
	case "str":
		return SVal{v: tt.Str(e.name), null: f}
	case "null":
		return SVal{v: tt.BV(0, 64), null: tt.Bool(true)}
	case "cast":
		in := env.eval(e.args[0])
		if e.name == "int" || e.name == "integer" {
			// 32-bit cast: out-of-range is an error in Postgres
			if in.v.sort == SBV64 {
				lo, hi := tt.BV(uint64(0xffffffff80000000), 64), tt.BV(0x7fffffff, 64)
				oob := tt.And(tt.Not(in.null), tt.Or(tt.SLt(in.v, lo), tt.SLt(hi, in.v)))
				if env.ex.branch(oob, "pg-int-cast-range") {
					sqlFail("integer out of range")
				}
			}
		}
		return in
	case "+", "-", "&", "|":
		a, b := env.eval(e.args[0]), env.eval(e.args[1])
		if a.v.sort != SBV64 || b.v.sort != SBV64 {
			sqlFail("type-mismatch: arithmetic on non-integer")
		}
		op := map[string]string{"+": "bvadd", "-": "bvsub", "&": "bvand", "|": "bvor"}[e.op]
		return SVal{v: tt.bin(op, a.v, b.v), null: tt.Or(a.null, b.null)}
	case "=", "!=", "<", "<=", ">", ">=":
		a, b := env.eval(e.args[0]), env.eval(e.args[1])
		if e.args[0].op == "jsonextract" || e.args[1].op == "jsonextract" {
			// handled through the SVal produced by jsonextract (String)
		}
		if a.v.sort != b.v.sort {
			sqlFail("type-mismatch: comparing %s with %s", a.v.sort, b.v.sort)
		}
		var r *Term
		switch e.op {
		case "=":
			r = tt.Eq(a.v, b.v)
		case "!=":
			r = tt.Not(tt.Eq(a.v, b.v))
		default:
			if a.v.sort != SBV64 {
				sqlFail("ordering comparison on text unsupported")
			}
			switch e.op {
			case "<":
				r = tt.SLt(a.v, b.v)
			case "<=":
				r = tt.SLe(a.v, b.v)
			case ">":
				r = tt.SLt(b.v, a.v)
			case ">=":
				r = tt.SLe(b.v, a.v)
			}
		}
		return SVal{v: r, null: tt.Or(a.null, b.null)}
	case "and":
		a, b := env.eval(e.args[0]), env.eval(e.args[1])
		// Kleene: false if either is (non-null) false; null if otherwise any null
		af := tt.And(tt.Not(a.null), tt.Not(a.v))
		bf := tt.And(tt.Not(b.null), tt.Not(b.v))
		isF := tt.Or(af, bf)
		null := tt.And(tt.Not(isF), tt.Or(a.null, b.null))
		return SVal{v: tt.And(tt.Not(isF), tt.Not(null)), null: null}
	case "or":
		a, b := env.eval(e.args[0]), env.eval(e.args[1])
		at := tt.And(tt.Not(a.null), a.v)
		bt := tt.And(tt.Not(b.null), b.v)
		isT := tt.Or(at, bt)
		null := tt.And(tt.Not(isT), tt.Or(a.null, b.null))
		return SVal{v: isT, null: null}
	case "not":
		a := env.eval(e.args[0])
		return SVal{v: tt.Not(a.v), null: a.null}
	case "isnull":
		a := env.eval(e.args[0])
		return SVal{v: a.null, null: f}
	case "notnull":
		a := env.eval(e.args[0])
		return SVal{v: tt.Not(a.null), null: f}
	case "in":
		a := env.eval(e.args[0])
		var cs []*Term
		for _, n := range e.list {
			cs = append(cs, tt.Eq(a.v, tt.BV(uint64(n), 64)))
		}
		return SVal{v: tt.Or(cs...), null: a.null}
	case "like":
		a, b := env.eval(e.args[0]), env.eval(e.args[1])
		if a.v.sort != SString || b.v.sort != SString {
			sqlFail("type-mismatch: LIKE on non-text")
		}
		if x, ok := a.v.StrVal(); ok {
			if pat, ok := b.v.StrVal(); ok {
				return SVal{v: tt.Bool(likeMatch(x, pat)), null: tt.Or(a.null, b.null)}
			}
		}
		return SVal{v: tt.UF("sql_like", SBool, a.v, b.v), null: tt.Or(a.null, b.null)}
	case "extremum":
		var acc SVal
		for i, a := range e.args {
			v := env.eval(a)
			if v.v.sort != SBV64 {
				sqlFail("%s over non-integer operands", e.name)
			}
			if i == 0 {
				acc = v
				continue
			}
			var pick *Term // true: take v
			if e.name == "MIN" || e.name == "LEAST" {
				pick = tt.SLt(v.v, acc.v)
			} else {
				pick = tt.SLt(acc.v, v.v)
			}
			if e.name == "MIN" || e.name == "MAX" {
				acc = SVal{v: tt.Ite(pick, v.v, acc.v), null: tt.Or(acc.null, v.null)}
			} else {
				// NULLs are ignored
				acc = SVal{v: tt.Ite(acc.null, v.v, tt.Ite(v.null, acc.v, tt.Ite(pick, v.v, acc.v))), null: tt.And(acc.null, v.null)}
			}
		}
		return acc
	case "jsonextract":
		c, k := env.eval(e.args[0]), env.eval(e.args[1])
		key, ok := stripPrefix(tt, k.v, "$.")
		if !ok {
			sqlFail("json_extract path is not of the form '$.'||key")
		}
		has := tt.Select(decMapHas(tt, c.v), key)
		val := tt.Select(decMapVal(tt, c.v), key)
		return SVal{v: val, null: tt.Or(c.null, k.null, tt.Not(has))}
	case "contains":
		c := env.eval(e.args[0])
		if e.args[1].op != "param" {
			sqlFail("@> right operand must be a parameter")
		}
		m, ok := env.argMaps[e.args[1].param]
		a := env.eval(e.args[1])
		if !ok {
			if a.null.IsTrue() {
				return SVal{v: tt.Bool(false), null: tt.Bool(true)}
			}
			if c, isConst := a.v.StrVal(); isConst {
				var cm map[string]string
				if err := json.Unmarshal([]byte(c), &cm); err == nil {
					m = &MapObj{sym: true, has: tt.ConstArr(SArrSB, tt.Bool(false)), val: tt.ConstArr(SArrSS, tt.Str(""))}
					ks := make([]string, 0, len(cm))
					for k := range cm {
						ks = append(ks, k)
					}
					sort.Strings(ks)
					for _, k := range ks {
						m.keys = append(m.keys, tt.Str(k))
						m.val = tt.Store(m.val, tt.Str(k), tt.Str(cm[k]))
					}
					ok = true
				}
			}
		}
		if !ok {
			// unknown JSON argument: containment over decoded maps is not enumerable
			sqlFail("@> with a non-marshalled argument")
		}
		var cs []*Term
		ch, cv := decMapHas(tt, c.v), decMapVal(tt, c.v)
		for _, k := range m.keys {
			cs = append(cs, tt.Select(ch, k), tt.Eq(tt.Select(cv, k), tt.Select(m.val, k)))
		}
		return SVal{v: tt.And(cs...), null: tt.Or(c.null, a.null)}
	case "exists", "notexists":
		sub := e.sub
		t := env.db.tabs[sub.table]
		if t == nil {
			sqlFail("no such table %s", sub.table)
		}
		var any []*Term
		for _, r := range t.rows {
			rb := &rowBind{t: t, r: r}
			nb := map[string]*rowBind{}
			for k, v := range env.bind {
				nb[k] = v
			}
			nb[sub.table] = rb
			if sub.alias != "" {
				nb[sub.alias] = rb
			}
			senv := &sqlEnv{ex: env.ex, db: env.db, args: env.args, bind: nb, cur: rb, argMaps: env.argMaps}
			hit := r.present
			if sub.where != nil {
				w := senv.eval(sub.where)
				hit = tt.And(hit, tt.Not(w.null), w.v)
			}
			any = append(any, hit)
		}
		r := tt.Or(any...)
		if e.op == "notexists" {
			r = tt.Not(r)
		}
		return SVal{v: r, null: f}
	}
	sqlFail("unsupported SQL expression %s", e.op)
	return SVal{}
}

func stripPrefix(tt *TermTable, t *Term, p string) (*Term, bool) {
	if s, ok := t.StrVal(); ok {
		if strings.HasPrefix(s, p) {
			return tt.Str(s[len(p):]), true
		}
		return nil, false
	}
	if t.op == "str.++" && t.args[0].op == "str" && strings.HasPrefix(t.args[0].s, p) {
		rest := tt.Str(t.args[0].s[len(p):])
		return tt.Concat(append([]*Term{rest}, t.args[1:]...)...), true
	}
	return nil, false
}

func (env *sqlEnv) where(e *SQLExpr) *Term {
	if e == nil {
		return env.ex.tt.Bool(true)
	}
	w := env.eval(e)
	if w.v.sort != SBool {
		sqlFail("WHERE is not boolean")
	}
	return env.ex.tt.And(env.ex.tt.Not(w.null), w.v)
}

func (ex *Exec) envFor(db *SymDB, st *SQLStmt, t *Table, r *Row, args []SVal, argMaps map[int]*MapObj) *sqlEnv {
	rb := &rowBind{t: t, r: r}
	b := map[string]*rowBind{t.def.name: rb}
	if st.alias != "" {
		b[st.alias] = rb
	}
	return &sqlEnv{ex: ex, db: db, args: args, bind: b, cur: rb, argMaps: argMaps}
}

// coerce converts an argument to the sort of column c (or reports a type mismatch).
func (ex *Exec) coerceToCol(a SVal, c *ColDef, dialect string) SVal {
	tt := ex.tt
	if a.v.sort != colSort(c) {
		if a.null.IsTrue() {
			if colSort(c) == SBV64 {
				return SVal{v: tt.BV(0, 64), null: a.null}
			}
			return SVal{v: tt.Str(""), null: a.null}
		}
		sqlFail("type-mismatch: %s value written to %s column %s", a.v.sort, c.typ, c.name)
	}
	if c.numericAffinity && a.v.sort == SString {
		// SQLite NUMERIC/REAL affinity: text that looks like a number is converted on the way in, so what is
		// stored (and later compared and returned) need not be the text that was written
		ex.H.noteStub("SQLite column " + c.name + " declared " + c.dialectType + ": NUMERIC affinity, text that looks numeric is stored converted")
		return SVal{v: tt.UF("sqlite_numeric_affinity", SString, a.v), null: a.null}
	}
	if c.typ == "INTEGER" && c.width == 32 && dialect == "postgres" {
		lo, hi := tt.BV(uint64(0xffffffff80000000), 64), tt.BV(0x7fffffff, 64)
		oob := tt.And(tt.Not(a.null), tt.Or(tt.SLt(a.v, lo), tt.SLt(hi, a.v)))
		if ex.branch(oob, "pg-int32-range:"+c.name) {
			sqlFail("integer out of range for column %s", c.name)
		}
	}
	return a
}

func mergeVal(tt *TermTable, c *Term, a, b SVal) SVal {
	return SVal{v: tt.Ite(c, a.v, b.v), null: tt.Ite(c, a.null, b.null)}
}

// ---------------------------------------------------------------- writes

// ExecWrite applies an INSERT/UPDATE/DELETE and returns rows affected (BV64).
func (ex *Exec) ExecWrite(db *SymDB, st *SQLStmt, args []SVal, argMaps map[int]*MapObj) *Term {
	tt := ex.tt
	t := db.tabs[st.table]
	if t == nil {
		sqlFail("no such table %s", st.table)
	}
	if len(args) != st.nparams {
		sqlFail("expected %d arguments, got %d", st.nparams, len(args))
	}
	one, zero := tt.BV(1, 64), tt.BV(0, 64)
	switch st.kind {
	case "update":
		cnt := zero
		nrows := make([]*Row, len(t.rows))
		for i, r := range t.rows {
			env := ex.envFor(db, st, t, r, args, argMaps)
			hit := tt.And(r.present, env.where(st.where))
			nr := &Row{present: r.present, cols: append([]SVal{}, r.cols...)}
			for _, s := range st.sets {
				ci, ok := t.def.idx[s.col]
				if !ok {
					sqlFail("no such column %s", s.col)
				}
				nv := env.eval(s.expr) // evaluated on the old row
				if !hit.IsFalse() {
					nv = ex.coerceToCol(nv, &t.def.cols[ci], db.dialect)
				} else {
					continue
				}
				nr.cols[ci] = mergeVal(tt, hit, nv, r.cols[ci])
			}
			nrows[i] = nr
			cnt = tt.Add(cnt, tt.Ite(hit, one, zero))
		}
		t.rows = nrows
		return cnt
	case "delete":
		cnt := zero
		nrows := make([]*Row, len(t.rows))
		for i, r := range t.rows {
			env := ex.envFor(db, st, t, r, args, argMaps)
			hit := tt.And(r.present, env.where(st.where))
			nrows[i] = &Row{present: tt.And(r.present, tt.Not(hit)), cols: r.cols}
			cnt = tt.Add(cnt, tt.Ite(hit, one, zero))
		}
		t.rows = nrows
		return cnt
	case "insert":
		if st.fromSelect != nil {
			return ex.execInsertSelect(db, st, t, args, argMaps)
		}
		env := &sqlEnv{ex: ex, db: db, args: args, bind: map[string]*rowBind{}, argMaps: argMaps}
		vals := make(map[int]SVal)
		for i, cn := range st.cols {
			ci, ok := t.def.idx[cn]
			if !ok {
				sqlFail("no such column %s", cn)
			}
			vals[ci] = ex.coerceToCol(env.eval(st.values[i]), &t.def.cols[ci], db.dialect)
		}
		guard := tt.Bool(true)
		if st.where != nil {
			guard = env.where(st.where)
		}
		return ex.insertRow(db, t, st, vals, guard, args, argMaps)
	}
	sqlFail("unsupported write statement kind %s", st.kind)
	return nil
}

// insertRow inserts one row (values by column index) when guard holds.
func (ex *Exec) insertRow(db *SymDB, t *Table, st *SQLStmt, vals map[int]SVal, guard *Term, args []SVal, argMaps map[int]*MapObj) *Term {
	tt := ex.tt
	one, zero := tt.BV(1, 64), tt.BV(0, 64)
	f := tt.Bool(false)
	// full new row with defaults
	newRow := &Row{present: tt.Bool(true)}
	for ci := range t.def.cols {
		c := &t.def.cols[ci]
		if v, ok := vals[ci]; ok {
			newRow.cols = append(newRow.cols, v)
			continue
		}
		switch {
		case c.autoinc:
			newRow.cols = append(newRow.cols, SVal{v: t.nextSort, null: f})
		case c.hasDef:
			newRow.cols = append(newRow.cols, SVal{v: tt.BV(uint64(c.def), 64), null: f})
		case colSort(c) == SBV64:
			newRow.cols = append(newRow.cols, SVal{v: tt.BV(0, 64), null: tt.Bool(true)})
		default:
			newRow.cols = append(newRow.cols, SVal{v: tt.Str(""), null: tt.Bool(true)})
		}
	}
	// unique-key conflicts
	var conflictAny []*Term
	conflictAt := make([]*Term, len(t.rows))
	for i := range conflictAt {
		conflictAt[i] = f
	}
	for ci := range t.def.cols {
		c := &t.def.cols[ci]
		if !c.unique || c.autoinc {
			continue
		}
		nv := newRow.cols[ci]
		for i, r := range t.rows {
			cf := tt.And(r.present, tt.Not(nv.null), tt.Not(r.cols[ci].null), tt.Eq(r.cols[ci].v, nv.v))
			if st.conflict != "" && st.conflict != c.name {
				// conflict on a different unique column than the ON CONFLICT target: constraint error
				if ex.branch(tt.And(guard, cf), "unique-violation:"+c.name) {
					sqlFail("UNIQUE constraint failed: %s.%s", t.def.name, c.name)
				}
				continue
			}
			conflictAt[i] = tt.Or(conflictAt[i], cf)
			conflictAny = append(conflictAny, cf)
		}
	}
	conflict := tt.Or(conflictAny...)
	if st.conflict == "" {
		if ex.branch(tt.And(guard, conflict), "unique-violation") {
			sqlFail("UNIQUE constraint failed: %s", t.def.name)
		}
		conflict = f
		for i := range conflictAt {
			conflictAt[i] = f
		}
	}
	doInsert := tt.And(guard, tt.Not(conflict))
	// a free slot must exist when inserting (bound of the symbolic database)
	var frees []*Term
	for _, r := range t.rows {
		frees = append(frees, tt.Not(r.present))
	}
	hasFree := tt.Or(frees...)
	if !doInsert.IsFalse() {
		bound := tt.Implies(doInsert, hasFree)
		if !bound.IsTrue() {
			if ex.sat(tt.Not(bound)) != "unsat" {
				ex.H.noteBound("free-slot:" + t.def.name)
			}
			ex.addPC(bound)
		}
	}
	nrows := make([]*Row, len(t.rows))
	prevFull := tt.Bool(true) // all earlier slots present
	affected := tt.Ite(doInsert, one, zero)
	for i, r := range t.rows {
		here := tt.And(doInsert, prevFull, tt.Not(r.present))
		prevFull = tt.And(prevFull, r.present)
		nr := &Row{present: tt.Or(r.present, here), cols: make([]SVal, len(r.cols))}
		for ci := range r.cols {
			nr.cols[ci] = mergeVal(tt, here, newRow.cols[ci], r.cols[ci])
		}
		// upsert
		if st.conflictDo == "update" {
			rb := &rowBind{t: t, r: r}
			env := &sqlEnv{ex: ex, db: db, args: args, bind: map[string]*rowBind{t.def.name: rb}, cur: rb,
				excluded: &rowBind{t: t, r: newRow}, argMaps: argMaps}
			hit := tt.And(guard, conflictAt[i])
			if st.cwhere != nil {
				hit = tt.And(hit, env.where(st.cwhere))
			}
			for _, s := range st.sets {
				ci := t.def.idx[s.col]
				nv := env.eval(s.expr)
				nr.cols[ci] = mergeVal(tt, hit, nv, nr.cols[ci])
			}
			affected = tt.Add(affected, tt.Ite(hit, one, zero))
		}
		nrows[i] = nr
	}
	t.rows = nrows
	if t.def.autoCol >= 0 {
		t.nextSort = tt.Ite(doInsert, tt.Add(t.nextSort, one), t.nextSort)
	}
	return affected
}

// rkText is the injective uninterpreted rank used for ORDER BY on text columns.
func (ex *Exec) rkText(s *Term) *Term {
	tt := ex.tt
	r := tt.UF("sql_rk", SInt, s)
	for _, o := range ex.W.rkSeen {
		if o != s {
			ex.addPC(tt.Implies(tt.Eq(tt.UF("sql_rk", SInt, o), r), tt.Eq(o, s)))
		}
	}
	dup := false
	for _, o := range ex.W.rkSeen {
		if o == s {
			dup = true
		}
	}
	if !dup {
		ex.W.rkSeen = append(ex.W.rkSeen, s)
	}
	return r
}

func (ex *Exec) execInsertSelect(db *SymDB, st *SQLStmt, t *Table, args []SVal, argMaps map[int]*MapObj) *Term {
	tt := ex.tt
	sel := st.fromSelect
	src := db.tabs[sel.table]
	if src == nil {
		sqlFail("no such table %s", sel.table)
	}
	one, zero := tt.BV(1, 64), tt.BV(0, 64)
	// selection and order among source rows
	n := len(src.rows)
	hit := make([]*Term, n)
	for i, r := range src.rows {
		env := ex.envFor(db, sel, src, r, args, argMaps)
		hit[i] = tt.And(r.present, env.where(sel.where))
	}
	if sel.limit != nil || sel.groupBy != "" || sel.distinctOn != "" {
		sqlFail("INSERT..SELECT with LIMIT/GROUP unsupported")
	}
	before := ex.orderBefore(src, sel, hit)
	total := zero
	// process source rows in slot order; each gets sort offset = its rank
	srcRows := src.rows
	base := t.nextSort
	for i, r := range srcRows {
		if hit[i].IsFalse() {
			continue
		}
		rank := zero
		for j := range srcRows {
			if j != i {
				rank = tt.Add(rank, tt.Ite(tt.And(hit[j], before(j, i)), one, zero))
			}
		}
		env := ex.envFor(db, sel, src, r, args, argMaps)
		vals := map[int]SVal{}
		for k, cn := range st.cols {
			ci, ok := t.def.idx[cn]
			if !ok {
				sqlFail("no such column %s", cn)
			}
			vals[ci] = ex.coerceToCol(env.eval(sel.selExprs[k]), &t.def.cols[ci], db.dialect)
		}
		if t.def.autoCol >= 0 {
			vals[t.def.autoCol] = SVal{v: tt.Add(base, rank), null: tt.Bool(false)}
		}
		a := ex.insertRow(db, t, st, vals, hit[i], args, argMaps)
		total = tt.Add(total, a)
	}
	return total
}

// orderBefore returns before(j,i): row j sorts strictly before row i under
// the statement's ORDER BY; ties / no ORDER BY are broken by fresh priorities.
func (ex *Exec) orderBefore(t *Table, st *SQLStmt, sel []*Term) func(j, i int) *Term {
	tt := ex.tt
	n := len(t.rows)
	pri := make([]*Term, n)
	for i := range pri {
		pri[i] = tt.Var("pri."+t.def.name, SInt)
	}
	for i := 0; i < n; i++ {
		for j := i + 1; j < n; j++ {
			ex.addPC(tt.Not(tt.Eq(pri[i], pri[j])))
		}
	}
	type keyf struct {
		lt func(a, b *Row) *Term
		eq func(a, b *Row) *Term
	}
	var keys []keyf
	for _, k := range st.orderBy {
		ci, ok := t.def.idx[k.col]
		if !ok {
			sqlFail("ORDER BY unknown column %s", k.col)
		}
		desc := k.desc
		isText := colSort(&t.def.cols[ci]) == SString
		keys = append(keys, keyf{
			lt: func(a, b *Row) *Term {
				x, y := a.cols[ci].v, b.cols[ci].v
				if desc {
					x, y = y, x
				}
				if isText {
					if xs, ok := x.StrVal(); ok {
						if ys, ok := y.StrVal(); ok {
							return tt.Bool(xs < ys) // constants: the real (binary) collation
						}
					}
					return tt.IntLt(ex.rkText(x), ex.rkText(y))
				}
				return tt.SLt(x, y)
			},
			eq: func(a, b *Row) *Term { return tt.Eq(a.cols[ci].v, b.cols[ci].v) },
		})
	}
	cache := map[[2]int]*Term{}
	return func(j, i int) *Term {
		if c, ok := cache[[2]int{j, i}]; ok {
			return c
		}
		a, b := t.rows[j], t.rows[i]
		res := tt.IntLt(pri[j], pri[i])
		for k := len(keys) - 1; k >= 0; k-- {
			res = tt.Or(keys[k].lt(a, b), tt.And(keys[k].eq(a, b), res))
		}
		cache[[2]int{j, i}] = res
		return res
	}
}

// ---------------------------------------------------------------- queries

type ResultSet struct {
	t     *Table
	st    *SQLStmt
	ret   []*Term // slot i is returned
	rank  []*Term // BV64 rank among returned rows
	count *Term   // BV64
	exprs [][]SVal // per slot, per select column
	ncols int
}

func (ex *Exec) ExecQuery(db *SymDB, st *SQLStmt, args []SVal, argMaps map[int]*MapObj) *ResultSet {
	tt := ex.tt
	if st.kind != "select" {
		sqlFail("Query with non-SELECT statement")
	}
	t := db.tabs[st.table]
	if t == nil {
		sqlFail("no such table %s", st.table)
	}
	if len(args) != st.nparams {
		sqlFail("expected %d arguments, got %d", st.nparams, len(args))
	}
	one, zero := tt.BV(1, 64), tt.BV(0, 64)
	n := len(t.rows)
	sel := make([]*Term, n)
	rs := &ResultSet{t: t, st: st, ncols: len(st.selExprs)}
	for i, r := range t.rows {
		env := ex.envFor(db, st, t, r, args, argMaps)
		sel[i] = tt.And(r.present, env.where(st.where))
		var es []SVal
		for _, e := range st.selExprs {
			es = append(es, env.eval(e))
		}
		rs.exprs = append(rs.exprs, es)
	}
	before := ex.orderBefore(t, st, sel)
	// grouping: one representative per group
	if st.groupBy != "" || st.distinctOn != "" {
		gc := st.groupBy
		if gc == "" {
			gc = st.distinctOn
		}
		ci, ok := t.def.idx[gc]
		if !ok {
			sqlFail("GROUP BY unknown column %s", gc)
		}
		var gpri []*Term
		if st.groupBy != "" {
			for range t.rows {
				gpri = append(gpri, tt.Var("gpri."+t.def.name, SInt))
			}
			for i := 0; i < n; i++ {
				for j := i + 1; j < n; j++ {
					ex.addPC(tt.Not(tt.Eq(gpri[i], gpri[j])))
				}
			}
		}
		rep := make([]*Term, n)
		for i := range t.rows {
			cs := []*Term{sel[i]}
			for j := range t.rows {
				if j == i {
					continue
				}
				same := tt.And(sel[j], tt.Eq(t.rows[j].cols[ci].v, t.rows[i].cols[ci].v))
				if st.groupBy != "" {
					cs = append(cs, tt.Implies(same, tt.IntLt(gpri[i], gpri[j])))
				} else {
					cs = append(cs, tt.Implies(same, before(i, j)))
				}
			}
			rep[i] = tt.And(cs...)
		}
		sel = rep
	}
	rs.ret = make([]*Term, n)
	rs.rank = make([]*Term, n)
	var limit *Term
	if st.limit != nil {
		env := &sqlEnv{ex: ex, db: db, args: args}
		l := env.eval(st.limit)
		if l.v.sort != SBV64 {
			sqlFail("type-mismatch: LIMIT is not an integer")
		}
		limit = l.v
	}
	cnt := zero
	for i := range t.rows {
		rank := zero
		for j := range t.rows {
			if j != i && !sel[j].IsFalse() {
				rank = tt.Add(rank, tt.Ite(tt.And(sel[j], before(j, i)), one, zero))
			}
		}
		rs.rank[i] = rank
		rs.ret[i] = sel[i]
		if limit != nil {
			rs.ret[i] = tt.And(sel[i], tt.SLt(rank, limit))
		}
		cnt = tt.Add(cnt, tt.Ite(rs.ret[i], one, zero))
	}
	rs.count = cnt
	return rs
}

// RowAt returns the select-list values of the k-th returned row.
func (rs *ResultSet) RowAt(ex *Exec, k int) []SVal {
	tt := ex.tt
	kk := tt.BV(uint64(k), 64)
	out := make([]SVal, rs.ncols)
	for c := 0; c < rs.ncols; c++ {
		var acc *SVal
		for i := len(rs.ret) - 1; i >= 0; i-- {
			if rs.ret[i].IsFalse() {
				continue
			}
			v := rs.exprs[i][c]
			if acc == nil {
				cp := v
				acc = &cp
				continue
			}
			is := tt.And(rs.ret[i], tt.Eq(rs.rank[i], kk))
			m := mergeVal(tt, is, v, *acc)
			acc = &m
		}
		if acc == nil {
			acc = &SVal{v: tt.Str(""), null: tt.Bool(true)}
		}
		out[c] = *acc
	}
	return out
}

// ---------------------------------------------------------------- helpers for harness oracles

func (t *Table) colIndex(name string) int {
	i, ok := t.def.idx[name]
	if !ok {
		panic(fmt.Sprintf("no column %s in %s", name, t.def.name))
	}
	return i
}

func sortedKeys(m map[string]int) []string {
	var ks []string
	for k := range m {
		ks = append(ks, k)
	}
	sort.Strings(ks)
	return ks
}

// likeMatch: SQL LIKE on constants (% any run, _ one character, ASCII case-insensitive as SQLite's default).
func likeMatch(s, p string) bool {
	s, p = strings.ToLower(s), strings.ToLower(p)
	var rec func(i, j int) bool
	rec = func(i, j int) bool {
		for j < len(p) {
			switch p[j] {
			case '%':
				for k := i; k <= len(s); k++ {
					if rec(k, j+1) {
						return true
					}
				}
				return false
			case '_':
				if i >= len(s) {
					return false
				}
				i, j = i+1, j+1
			default:
				if i >= len(s) || s[i] != p[j] {
					return false
				}
				i, j = i+1, j+1
			}
		}
		return i == len(s)
	}
	return rec(0, 0)
}
