package api

// C12 (a): the kernel API answers a refused submission exactly once and stores an accepted one.

import (
	"github.com/prometheus/client_golang/prometheus"
	"github.com/resonatehq/resonate/internal/kernel/bus"
	"github.com/resonatehq/resonate/internal/kernel/t_api"
	"github.com/resonatehq/resonate/internal/metrics"
	"github.com/resonatehq/resonate/internal/vx"
)

func vhSQE(id string, calls *int, last *error) *bus.SQE[t_api.Request, t_api.Response] {
	return &bus.SQE[t_api.Request, t_api.Response]{Id: id,
		Submission: &t_api.Request{Kind: t_api.Echo, Tags: map[string]string{"id": id}, Echo: &t_api.EchoRequest{Data: "d"}},
		Callback: func(res *t_api.Response, err error) {
			*calls = *calls + 1
			*last = err
		}}
}

func VH_C12_EnqueueSQE() {
	size := vx.Choose(2) + 1
	a := New(size, metrics.New(prometheus.NewRegistry()))
	var c0, calls int
	var e0, last error
	// arbitrary occupancy and shutdown state
	fill := vx.Choose(size + 1)
	for i := 0; i < fill; i++ {
		a.sq <- vhSQE("pre", &c0, &e0)
	}
	down := vx.Choose(2) == 1
	if down {
		a.Shutdown()
	}
	before := len(a.sq)
	a.EnqueueSQE(vhSQE("x", &calls, &last))
	stored := len(a.sq) == before+1
	vx.Assert(len(a.sq) == before || stored, "C12:queue-grows-by-at-most-one")
	vx.Assert((calls == 1 && !stored) || (calls == 0 && stored), "C12:refused-answered-once-or-accepted")
	vx.Assert(c0 == 0, "C12:other-requests-not-answered-by-mistake")
	if down {
		vx.Reach("shutting-down")
		te, ok := last.(*t_api.Error)
		vx.Assert(calls == 1 && ok && te.Code() == t_api.StatusSystemShuttingDown, "C12:refused-with-shutting-down")
	} else if fill == size {
		vx.Reach("queue-full")
		te, ok := last.(*t_api.Error)
		vx.Assert(calls == 1 && ok && te.Code() == t_api.StatusAPISubmissionQueueFull, "C12:refused-with-queue-full")
	} else {
		vx.Reach("accepted")
		vx.Assert(stored, "C12:accepted-when-room")
		// the stored submission answers its client exactly once when the kernel completes it
		got := a.DequeueSQE(size + 1)
		vx.Assert(len(got) == before+1, "C12:dequeue-returns-everything-accepted")
		got[len(got)-1].Callback(&t_api.Response{Kind: t_api.Echo, Echo: &t_api.EchoResponse{Data: "d"}}, nil)
		vx.Assert(calls == 1 && last == nil, "C12:completion-reaches-the-client-once")
	}
}
