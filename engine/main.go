package main

import (
	"encoding/json"
	"flag"
	"fmt"
	"os"
	"runtime"
	"strconv"
	"strings"
)

var loadPatterns = []string{"./internal/...", "./pkg/...", "./cmd/...", "github.com/gin-gonic/gin", "slices", "maps", "cmp"}

func main() {
	if len(os.Args) < 2 {
		fmt.Fprintln(os.Stderr, "usage: gosmt run|check|selftest ...")
		os.Exit(2)
	}
	switch os.Args[1] {
	case "run":
		cmdRun(os.Args[2:])
	case "check":
		cmdCheck(os.Args[2:])
	default:
		fmt.Fprintln(os.Stderr, "unknown command", os.Args[1])
		os.Exit(2)
	}
}

func cmdRun(args []string) {
	fs := flag.NewFlagSet("run", flag.ExitOnError)
	pkg := fs.String("pkg", "internal/app/coroutines", "package (relative to the module)")
	name := fs.String("harness", "", "harness entry function")
	tier := fs.String("tier", "quick", "quick|thorough")
	repo := fs.String("repo", "/repo", "repository")
	hdir := fs.String("harnessdir", "/verif/harness", "harness directory")
	workers := fs.Int("j", runtime.NumCPU(), "workers")
	verbose := fs.Bool("v", false, "verbose")
	optStr := fs.String("opt", "", "k=v,k=v harness options")
	fs.Parse(args)
	P, err := LoadProgram(*repo, *hdir, loadPatterns)
	if err != nil {
		fmt.Fprintln(os.Stderr, "INCONCLUSIVE load:", err)
		os.Exit(2)
	}
	spec := &HarnessSpec{Name: *name, Pkg: *pkg, Opts: map[string]int{}}
	for _, kv := range strings.Split(*optStr, ",") {
		if k, v, ok := strings.Cut(kv, "="); ok {
			n, _ := strconv.Atoi(v)
			spec.Opts[k] = n
		}
	}
	h := NewHarnessRun(P, spec, *tier)
	err = h.Run(*workers)
	r := h.Result(err)
	if !*verbose {
		r.Funcs = nil
		for _, v := range r.Violations {
			v.Model = nil
		}
	}
	b, _ := json.MarshalIndent(r, "", " ")
	fmt.Println(string(b))
	fmt.Fprintf(os.Stderr, "solver: %d queries, %.2fs\n", gStats.Queries, float64(gStats.TimeNanos)/1e9)
}
