package http

// C11 / C08 wiring of the http transport: Start launches every worker exactly once, Enqueue accepts while the
// queue has room and refuses without side effect when full (the sender then reports a failed hand-off), Stop
// closes the queue.

import (
	"github.com/prometheus/client_golang/prometheus"
	"github.com/resonatehq/resonate/internal/aio"
	"github.com/resonatehq/resonate/internal/metrics"
	"github.com/resonatehq/resonate/internal/vx"
)

func VH_W_HttpPlugin() {
	vx.IgnoreGo()
	n, size := 1+vx.Choose(3), 1+vx.Choose(2)
	h, err := New(nil, metrics.New(prometheus.NewRegistry()), &Config{Size: size, Workers: n, Timeout: 1000000000})
	vx.Assert(err == nil && h != nil && len(h.workers) == n && h.Type() == "http", "C11:http-plugin-constructs-its-workers")
	if err != nil || h == nil {
		return
	}
	room := cap(h.sq)
	for i := 0; i < room+1; i++ {
		ok := h.Enqueue(&aio.Message{Type: "http"})
		vx.Assert(ok == (i < room), "C08:enqueue-accepts-exactly-while-there-is-room")
		vx.Assert(len(h.sq) == min(i+1, room), "C08:a-refused-message-is-not-queued")
	}
	for _, w := range h.workers {
		vx.Assert(w != nil && w.sq != nil && len(w.sq) == room, "C11:workers-read-the-plugin-queue")
	}
	vx.Assert(h.Start(nil) == nil, "C11:start-succeeds")
	for _, w := range h.workers {
		k := 0
		for i := 0; i < vx.GoStarted(); i++ {
			if vx.GoStartedName(i) == "Start" && vx.GoStartedOn(i, w) {
				k++
			}
		}
		vx.Assert(k == 1, "C11:every-worker-started-exactly-once")
	}
	vx.Assert(h.Stop() == nil && vx.ChanClosed(h.sq), "C11:stop-closes-the-queue")
	vx.Reach("done")
}
