package postgres

// C06 / C12 / C16 (Postgres store constructor): the real New opens the configured database - driver postgres,
// data source assembled from exactly the configured user, password, host, port, database and query options -
// builds one worker per configured worker, all on the same handle and the same submission queue, each with its
// own flush signal, and lets the pool hold at least one connection per worker (a worker without a connection
// would block behind the others while holding its batch).

import (
	"fmt"
	"net/url"

	"github.com/prometheus/client_golang/prometheus"
	"github.com/resonatehq/resonate/internal/metrics"
	"github.com/resonatehq/resonate/internal/vx"
)

func VH_ST_PgNew() {
	n := 1 + vx.Choose(3)
	cfg := &Config{Size: 1, BatchSize: 1, Workers: n, Host: vx.String("host"), Port: vx.String("port"), Username: vx.String("username"), Password: vx.String("password"),
		Database: vx.String("database"), TxTimeout: 1000000000}
	qk, qv := vx.String("query.key"), vx.String("query.value")
	hasQuery := vx.Choose(2) == 1
	want := &url.URL{User: url.UserPassword(cfg.Username, cfg.Password), Host: fmt.Sprintf("%s:%s", cfg.Host, cfg.Port), Path: cfg.Database, Scheme: "postgres"}
	if hasQuery {
		cfg.Query = map[string]string{qk: qv}
		want.RawQuery = fmt.Sprintf("%s=%s", qk, qv)
	}
	s, err := New(nil, metrics.New(prometheus.NewRegistry()), cfg)
	vx.Assert(err == nil && s != nil && s.db != nil && len(s.workers) == n, "C16:postgres-store-constructs-one-worker-per-configured-worker")
	if err != nil || s == nil {
		return
	}
	vx.Assert(vx.SqlOpens() == 1 && vx.SqlOpenDriver(0) == "postgres", "C06:one-postgres-database-is-opened")
	if vx.SqlOpens() == 1 {
		vx.Assert(vx.SqlOpenDSN(0) == want.String(), "C06:opened-with-exactly-the-configured-connection-parameters")
	}
	for i, w := range s.workers {
		vx.Assert(w != nil && w.db == s.db && w.config == cfg && w.i == i && w.flush != nil && cap(w.flush) >= 1, "C12:every-worker-on-the-shared-handle-with-its-own-flush-signal")
		for j := 0; j < i; j++ {
			vx.Assert(s.workers[j].flush != w.flush, "C12:flush-signals-not-shared-between-workers")
		}
	}
	vx.Assert(vx.SqlPool("SetMaxOpenConns") == -1 || vx.SqlPool("SetMaxOpenConns") == 0 || vx.SqlPool("SetMaxOpenConns") >= n, "C12:pool-holds-a-connection-per-worker")
	vx.Reach("done")
}
