package coroutines

import (
	"github.com/prometheus/client_golang/prometheus"
	"github.com/resonatehq/gocoro"
	i_api "github.com/resonatehq/resonate/internal/api"
	"github.com/resonatehq/resonate/internal/kernel/bus"
	"github.com/resonatehq/resonate/internal/metrics"
	"github.com/resonatehq/resonate/internal/kernel/t_aio"
	"github.com/resonatehq/resonate/internal/kernel/t_api"
	"github.com/resonatehq/resonate/internal/util"
	"github.com/resonatehq/resonate/internal/app/subsystems/aio/store/postgres"
	"github.com/resonatehq/resonate/internal/app/subsystems/aio/store/sqlite"
	"github.com/resonatehq/resonate/internal/kernel/system"
	"github.com/resonatehq/resonate/internal/vx"
)

// vhSetup: symbolic world for a coroutine harness. backend 0 = sqlite, 1 = postgres.
func vhSetup(flags int) vx.Coro {
	if vx.Opt("backend", 0) == 1 {
		vx.UseStore(postgres.VXWorker(vx.DB("postgres")))
	} else {
		vx.UseStore(sqlite.VXWorker(vx.DB("sqlite")))
	}
	vx.SetConfig(&system.Config{Url: vx.String("config.url"), PromiseBatchSize: vx.Opt("batch", 2), ScheduleBatchSize: vx.Opt("batch", 2),
		TaskBatchSize: vx.Opt("batch", 2), TaskEnqueueDelay: vx.DurationMs("config.taskEnqueueDelay", 0, 1<<32), SignalTimeout: vx.DurationMs("config.signalTimeout", 0, 1<<32)})
	vx.AutoO2("O2")
	c := vx.Coroutine(flags)
	vx.Havoc()
	return c
}

func vhB2I(b bool) int64 { return vx.IteInt64(b, 1, 0) }

// VXSetup / VXDispatch: used by front-end harnesses (grpc) to run the real request coroutine
// of a kernel request under havoc semantics, as System.AddOnRequest would.
func VXSetup(flags int) vx.Coro { return vhSetup(flags) }

func VXDispatch(c gocoro.Coroutine[*t_aio.Submission, *t_aio.Completion, any], r *t_api.Request) (*t_api.Response, error) {
	// System.AddOnRequest's wrapper
	util.Assert(r.Tags != nil, "request tags must be non nil")
	util.Assert(r.Tags["id"] != "", "id tag must be set")
	// the coroutine cmd/serve registers for this kind (read from the real registration block)
	if f, ok := vx.ServeRegistered(int(r.Kind)).(func(gocoro.Coroutine[*t_aio.Submission, *t_aio.Completion, any], *t_api.Request) (*t_api.Response, error)); ok {
		return f(c, r)
	}
	if r.Kind == t_api.Echo {
		return Echo(c, r) // only registered by the DST command
	}
	panic("no registered coroutine for request kind")
}

// ---- the real kernel path for one request: real api queue -> real System.Tick -> real AddOnRequest
// wrapper -> the coroutine cmd/serve registers -> real api.EnqueueCQE -> callback.

type vxAIO struct{}

func (a *vxAIO) String() string                                                        { return "vx" }
func (a *vxAIO) Start() error                                                          { return nil }
func (a *vxAIO) Stop() error                                                           { return nil }
func (a *vxAIO) Shutdown()                                                             {}
func (a *vxAIO) Errors() <-chan error                                                  { return nil }
func (a *vxAIO) Signal(<-chan interface{}) <-chan interface{}                          { return nil }
func (a *vxAIO) Flush(int64)                                                           {}
func (a *vxAIO) Dispatch(*t_aio.Submission, func(*t_aio.Completion, error))            {}
func (a *vxAIO) EnqueueSQE(*bus.SQE[t_aio.Submission, t_aio.Completion])               {}
func (a *vxAIO) EnqueueCQE(*bus.CQE[t_aio.Submission, t_aio.Completion])               {}
func (a *vxAIO) DequeueCQE(int) []*bus.CQE[t_aio.Submission, t_aio.Completion]         { return nil }

// VXProcess submits sqe to a real kernel (api + System) and runs one tick. It returns what the
// submission's callback received and how often it was called.
func VXProcess(c vx.Coro, sqe *bus.SQE[t_api.Request, t_api.Response]) (res *t_api.Response, err error, answers int) {
	vx.IgnoreGo() // coroutineMetrics' goroutine only awaits the promise and decrements a gauge
	m := metrics.New(prometheus.NewRegistry())
	a := i_api.New(1, m)
	cfg := &system.Config{Url: vx.String("config.url"), CoroutineMaxSize: 1, SubmissionBatchSize: 1, CompletionBatchSize: 1,
		PromiseBatchSize: vx.Opt("batch", 2), ScheduleBatchSize: vx.Opt("batch", 2), TaskBatchSize: vx.Opt("batch", 2), TaskEnqueueDelay: vx.DurationMs("config.taskEnqueueDelay2", 0, 1<<32), SignalTimeout: vx.DurationMs("config.signalTimeout2", 0, 1<<32)}
	s := system.New(a, &vxAIO{}, cfg, m)
	kind := sqe.Submission.Kind
	if f, ok := vx.ServeRegistered(int(kind)).(func(gocoro.Coroutine[*t_aio.Submission, *t_aio.Completion, any], *t_api.Request) (*t_api.Response, error)); ok {
		s.AddOnRequest(kind, f)
	} else if kind == t_api.Echo {
		s.AddOnRequest(kind, Echo) // only registered by the DST command
	}
	cb := sqe.Callback
	sqe.Callback = func(r *t_api.Response, e error) {
		answers++
		res, err = r, e
		cb(r, e)
	}
	a.EnqueueSQE(sqe)
	s.Tick(vx.Tick())
	return
}
