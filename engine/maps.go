package main

import (
	"go/types"

	"golang.org/x/tools/go/ssa"
)

func (ex *Exec) makeMap(t types.Type) Value {
	ex.nobj++
	if isStringMap(t) {
		return &MapV{m: ex.newSymMap()}
	}
	mt := t.Underlying().(*types.Map)
	return &MapV{m: &MapObj{id: ex.nobj, kt: mt.Key(), vt: mt.Elem()}}
}

func (ex *Exec) newSymMap() *MapObj {
	tt := ex.tt
	ex.nobj++
	return &MapObj{id: ex.nobj, sym: true,
		has:  tt.ConstArr(SArrSB, tt.Bool(false)),
		val:  tt.ConstArr(SArrSS, tt.Str("")),
		keys: []*Term{}}
}

// opaqueSymMap makes a map[string]string with unknown (non-enumerable) content.
func (ex *Exec) opaqueSymMap(has, val *Term) *MapObj {
	ex.nobj++
	return &MapObj{id: ex.nobj, sym: true, has: has, val: val, opaq: true}
}

func (ex *Exec) mapUpdate(mv, k, v Value) {
	m := mv.(*MapV).m
	if m == nil {
		panic(ex.goPanic("assignment to entry in nil map"))
	}
	if len(ex.W.watches) > 0 {
		ex.noteMapWrite(m)
	}
	tt := ex.tt
	if m.sym {
		kt, vt := k.(*Term), v.(*Term)
		m.src = nil
		m.has = tt.Store(m.has, kt, tt.Bool(true))
		m.val = tt.Store(m.val, kt, vt)
		if !m.opaq {
			found := false
			for _, e := range m.keys {
				eq := tt.Eq(e, kt)
				if eq.IsFalse() {
					continue
				}
				if ex.branch(eq, "mapkey-eq") {
					found = true
					break
				}
			}
			if !found {
				m.keys = append(m.keys, kt)
			}
		}
		return
	}
	for i, e := range m.ks {
		eq := ex.eqValues(e, k)
		if eq.IsTrue() {
			m.vs[i] = v
			return
		}
		if !eq.IsFalse() {
			if ex.branch(eq, "gmap-update-key") {
				m.vs[i] = v
				return
			}
		}
	}
	m.ks = append(m.ks, k)
	m.vs = append(m.vs, v)
}

func (ex *Exec) mapDelete(mv, k Value) {
	m := mv.(*MapV).m
	if m == nil {
		return
	}
	tt := ex.tt
	if m.sym {
		kt := k.(*Term)
		m.src = nil
		m.has = tt.Store(m.has, kt, tt.Bool(false))
		if !m.opaq {
			var nk []*Term
			for _, e := range m.keys {
				eq := tt.Eq(e, kt)
				if eq.IsFalse() {
					nk = append(nk, e)
					continue
				}
				if !ex.branch(eq, "mapkey-del") {
					nk = append(nk, e)
				}
			}
			m.keys = nk
		}
		return
	}
	for i, e := range m.ks {
		if ex.eqValues(e, k).IsTrue() {
			m.ks = append(m.ks[:i:i], m.ks[i+1:]...)
			m.vs = append(m.vs[:i:i], m.vs[i+1:]...)
			return
		}
	}
}

func (ex *Exec) mapGet(m *MapObj, k Value, vt types.Type) (Value, *Term) {
	tt := ex.tt
	if m == nil {
		return ex.zero(vt), tt.Bool(false)
	}
	if m.sym {
		kt := k.(*Term)
		h := tt.Select(m.has, kt)
		return tt.Ite(h, tt.Select(m.val, kt), tt.Str("")), h
	}
	for i, e := range m.ks {
		eq := ex.eqValues(e, k)
		if eq.IsTrue() {
			return m.vs[i], tt.Bool(true)
		}
		if !eq.IsFalse() {
			if ex.branch(eq, "gmap-key") {
				return m.vs[i], tt.Bool(true)
			}
		}
	}
	return ex.zero(vt), tt.Bool(false)
}

func (ex *Exec) lookup(fr *Frame, x *ssa.Lookup) Value {
	v := ex.get(fr, x.X)
	k := ex.get(fr, x.Index)
	if mv, ok := v.(*MapV); ok {
		vt := x.X.Type().Underlying().(*types.Map).Elem()
		r, okb := ex.mapGet(mv.m, k, vt)
		if x.CommaOk {
			return &TupleV{vs: []Value{r, okb}}
		}
		return r
	}
	if s, ok := v.(*Term); ok { // string index
		i := ex.concreteInt(k, "string index")
		if c, ok := s.StrVal(); ok {
			if i < 0 || i >= len(c) {
				panic(ex.goPanic("string index out of range"))
			}
			return ex.tt.BV(uint64(c[i]), 8)
		}
		if cp, _ := constPrefix(s); i >= 0 && i < len(cp) {
			return ex.tt.BV(uint64(cp[i]), 8)
		}
	}
	panic(ex.unsupported("lookup on %T", v))
}

type rangeIter struct {
	m    *MapObj
	keys []*Term
	gks  []Value
	gvs  []Value
	str  string
	isStr bool
	pos  int
}

func (ex *Exec) rangeInit(v Value) Value {
	switch x := v.(type) {
	case *MapV:
		it := &rangeIter{m: x.m}
		if x.m != nil {
			if x.m.sym {
				if x.m.opaq {
					panic(ex.unsupported("range over opaque symbolic map"))
				}
				it.keys = append([]*Term{}, x.m.keys...)
			} else {
				it.gks = append([]Value{}, x.m.ks...)
				it.gvs = append([]Value{}, x.m.vs...)
			}
		}
		return &OpaqueV{kind: "rangeiter", data: it}
	case *Term:
		if s, ok := x.StrVal(); ok {
			return &OpaqueV{kind: "rangeiter", data: &rangeIter{str: s, isStr: true}}
		}
	}
	panic(ex.unsupported("range over %T", v))
}

func (ex *Exec) rangeNext(itv Value, x *ssa.Next) Value {
	tt := ex.tt
	it := itv.(*OpaqueV).data.(*rangeIter)
	tup := x.Type().(*types.Tuple)
	if it.isStr {
		if it.pos >= len(it.str) {
			return &TupleV{vs: []Value{tt.Bool(false), tt.BV(0, 64), tt.BV(0, 32)}}
		}
		r := &TupleV{vs: []Value{tt.Bool(true), tt.BV(uint64(it.pos), 64), tt.BV(uint64(it.str[it.pos]), 32)}}
		it.pos++
		return r
	}
	zk := func() Value {
		if _, ok := tup.At(1).Type().(*types.Basic); ok && tup.At(1).Type().(*types.Basic).Kind() == types.Invalid {
			return nil
		}
		return ex.zero(tup.At(1).Type())
	}
	zv := func() Value {
		if b, ok := tup.At(2).Type().(*types.Basic); ok && b.Kind() == types.Invalid {
			return nil
		}
		return ex.zero(tup.At(2).Type())
	}
	if it.m == nil {
		return &TupleV{vs: []Value{tt.Bool(false), zk(), zv()}}
	}
	if it.m.sym {
		if it.pos >= len(it.keys) {
			return &TupleV{vs: []Value{tt.Bool(false), zk(), zv()}}
		}
		k := it.keys[it.pos]
		it.pos++
		return &TupleV{vs: []Value{tt.Bool(true), k, tt.Select(it.m.val, k)}}
	}
	if it.pos >= len(it.gks) {
		return &TupleV{vs: []Value{tt.Bool(false), zk(), zv()}}
	}
	k, v := it.gks[it.pos], it.gvs[it.pos]
	it.pos++
	return &TupleV{vs: []Value{tt.Bool(true), k, v}}
}

// ---------------------------------------------------------------- builtins

func init() {
	intercepts["builtin:len"] = func(ex *Exec, fr *Frame, args []Value, site ssa.Instruction) Value {
		tt := ex.tt
		switch x := args[0].(type) {
		case *SliceV:
			return tt.BV(uint64(x.len), 64)
		case *BytesV:
			return ex.strLenBV(x.s)
		case *Term:
			return ex.strLenBV(x)
		case *MapV:
			if x.m == nil {
				return tt.BV(0, 64)
			}
			if x.m.sym {
				if x.m.opaq {
					panic(ex.unsupported("len of opaque map"))
				}
				return tt.BV(uint64(len(x.m.keys)), 64)
			}
			return tt.BV(uint64(len(x.m.ks)), 64)
		case *ArrayV:
			return tt.BV(uint64(len(x.es)), 64)
		case *PtrV:
			if a, ok := ex.peek(ex.ptr(x)).(*ArrayV); ok {
				return tt.BV(uint64(len(a.es)), 64)
			}
		case *OpaqueV:
			if c, ok := x.data.(*ChanObj); ok {
				return tt.BV(uint64(len(c.buf)), 64)
			}
			if x.kind == "chan-nil" {
				return tt.BV(0, 64)
			}
		}
		panic(ex.unsupported("len of %T", args[0]))
	}
	intercepts["builtin:cap"] = func(ex *Exec, fr *Frame, args []Value, site ssa.Instruction) Value {
		tt := ex.tt
		switch x := args[0].(type) {
		case *SliceV:
			return tt.BV(uint64(x.cap), 64)
		case *OpaqueV:
			if c, ok := x.data.(*ChanObj); ok {
				return tt.BV(uint64(c.cap), 64)
			}
		}
		panic(ex.unsupported("cap of %T", args[0]))
	}
	intercepts["builtin:append"] = func(ex *Exec, fr *Frame, args []Value, site ssa.Instruction) Value {
		return ex.appendOp(args[0], args[1])
	}
	intercepts["builtin:delete"] = func(ex *Exec, fr *Frame, args []Value, site ssa.Instruction) Value {
		ex.mapDelete(args[0], args[1])
		return nil
	}
	intercepts["builtin:copy"] = func(ex *Exec, fr *Frame, args []Value, site ssa.Instruction) Value {
		d, ok1 := args[0].(*SliceV)
		s, ok2 := args[1].(*SliceV)
		if !ok1 || !ok2 {
			panic(ex.unsupported("copy on %T,%T", args[0], args[1]))
		}
		n := d.len
		if s.len < n {
			n = s.len
		}
		tmp := make([]Value, n)
		for i := 0; i < n; i++ {
			tmp[i] = copyVal(s.arr.v.(*ArrayV).es[s.off+i])
		}
		for i := 0; i < n; i++ {
			d.arr.v.(*ArrayV).es[d.off+i] = tmp[i]
		}
		return ex.tt.BV(uint64(n), 64)
	}
	intercepts["builtin:close"] = func(ex *Exec, fr *Frame, args []Value, site ssa.Instruction) Value {
		ex.chanClose(args[0])
		return nil
	}
	intercepts["builtin:print"] = func(ex *Exec, fr *Frame, args []Value, site ssa.Instruction) Value { return nil }
	intercepts["builtin:println"] = intercepts["builtin:print"]
	intercepts["builtin:ssa:wrapnilchk"] = func(ex *Exec, fr *Frame, args []Value, site ssa.Instruction) Value {
		if ex.isNilValue(args[0]).IsTrue() {
			panic(ex.goPanic("value method called using nil pointer"))
		}
		return args[0]
	}
	intercepts["builtin:min"] = func(ex *Exec, fr *Frame, args []Value, site ssa.Instruction) Value {
		r := args[0].(*Term)
		for _, a := range args[1:] {
			r = ex.tt.Ite(ex.tt.SLt(a.(*Term), r), a.(*Term), r)
		}
		return r
	}
	intercepts["builtin:max"] = func(ex *Exec, fr *Frame, args []Value, site ssa.Instruction) Value {
		r := args[0].(*Term)
		for _, a := range args[1:] {
			r = ex.tt.Ite(ex.tt.SLt(r, a.(*Term)), a.(*Term), r)
		}
		return r
	}
}

func (ex *Exec) strLenBV(s *Term) *Term {
	tt := ex.tt
	if c, ok := s.StrVal(); ok {
		return tt.BV(uint64(len(c)), 64)
	}
	// constant prefix + symbolic rest: len = k + len(rest)
	if cp, _ := constPrefix(s); cp != "" {
		if rest, ok := stripPrefix(tt, s, cp); ok {
			return tt.Add(tt.BV(uint64(len(cp)), 64), ex.strLenBV(rest))
		}
	}
	// the length of a symbolic string is an uninterpreted value in [0, 2^62) that is 0 exactly for ""
	// (sound over-approximation; avoids the string-length / bit-vector theory combination)
	if l, ok := ex.W.lenOf[s.id]; ok {
		return l
	}
	l := tt.Var("len", SBV64)
	ex.W.lenOf[s.id] = l
	ex.addPC(tt.And(tt.SLe(tt.BV(0, 64), l), tt.SLt(l, tt.BV(1<<62, 64)), tt.Eq(tt.Eq(l, tt.BV(0, 64)), tt.Eq(s, tt.Str("")))))
	return l
}

func (ex *Exec) appendOp(a, b Value) Value {
	tt := ex.tt
	// byte slices
	if ab, ok := a.(*BytesV); ok {
		switch bb := b.(type) {
		case *BytesV:
			if bb.isNil.IsTrue() || func() bool { s, ok := bb.s.StrVal(); return ok && s == "" }() {
				return ab
			}
			return &BytesV{isNil: tt.Bool(false), s: tt.Concat(ab.s, bb.s)}
		case *Term: // append([]byte, string...)
			return &BytesV{isNil: tt.And(ab.isNil, tt.Eq(bb, tt.Str(""))), s: tt.Concat(ab.s, bb)}
		}
		panic(ex.unsupported("append bytes with %T", b))
	}
	as, ok := a.(*SliceV)
	if !ok {
		panic(ex.unsupported("append to %T", a))
	}
	bs, ok := b.(*SliceV)
	if !ok {
		panic(ex.unsupported("append of %T", b))
	}
	if bs.len == 0 {
		return as
	}
	n := as.len + bs.len
	src := make([]Value, bs.len)
	for i := 0; i < bs.len; i++ {
		src[i] = copyVal(bs.arr.v.(*ArrayV).es[bs.off+i])
	}
	if as.arr != nil && n <= as.cap {
		arr := as.arr.v.(*ArrayV)
		for i, v := range src {
			arr.es[as.off+as.len+i] = v
		}
		return &SliceV{arr: as.arr, off: as.off, len: n, cap: as.cap}
	}
	nc := as.cap * 2
	if nc < n {
		nc = n
	}
	arr := &ArrayV{es: make([]Value, nc)}
	for i := 0; i < as.len; i++ {
		arr.es[i] = copyVal(as.arr.v.(*ArrayV).es[as.off+i])
	}
	for i, v := range src {
		arr.es[as.len+i] = v
	}
	for i := n; i < nc; i++ {
		arr.es[i] = nil // never read: beyond len; filled on demand
	}
	return &SliceV{arr: ex.newObj(arr, nil), len: n, cap: nc}
}

// ---------------------------------------------------------------- channels (bounded, non-blocking only)

type ChanObj struct {
	cap    int
	buf    []Value
	closed bool
	sends  int
}

func (ex *Exec) chanOf(v Value) *ChanObj {
	if iv, ok := v.(*IfaceV); ok && iv.typ != nil {
		v = iv.v
	}
	if o, ok := v.(*OpaqueV); ok {
		if c, ok := o.data.(*ChanObj); ok {
			return c
		}
		if o.kind == "chan-nil" {
			return nil
		}
	}
	panic(ex.unsupported("channel operand %T", v))
}

func (ex *Exec) chanSend(cv, v Value, blocking bool) bool {
	c := ex.chanOf(cv)
	if c == nil {
		if blocking {
			panic(ex.unsupported("blocking send on nil channel"))
		}
		return false
	}
	if c.closed {
		panic(ex.goPanic("send on closed channel"))
	}
	if len(c.buf) >= c.cap {
		if blocking {
			panic(&pathEnd{kind: "blocked", msg: "send would block", pos: ex.posStr()})
		}
		return false
	}
	c.buf = append(c.buf, v)
	c.sends++
	return true
}

func (ex *Exec) chanRecv(cv Value, blocking bool) (Value, bool) {
	c := ex.chanOf(cv)
	if c == nil {
		panic(&pathEnd{kind: "blocked", msg: "receive on nil channel", pos: ex.posStr()})
	}
	if len(c.buf) > 0 {
		v := c.buf[0]
		c.buf = c.buf[1:]
		return v, true
	}
	if c.closed {
		return nil, false
	}
	if blocking {
		panic(&pathEnd{kind: "blocked", msg: "receive would block", pos: ex.posStr()})
	}
	return nil, false
}

func (ex *Exec) chanClose(cv Value) {
	c := ex.chanOf(cv)
	if c == nil {
		panic(ex.goPanic("close of nil channel"))
	}
	if c.closed {
		panic(ex.goPanic("close of closed channel"))
	}
	c.closed = true
}

func (ex *Exec) selectOp(fr *Frame, x *ssa.Select) Value {
	tt := ex.tt
	// environment hook: other goroutines (event producers) may act before the select is evaluated
	if ex.W.onSelect != nil && !ex.W.inOnSelect && (x.Blocking || !ex.W.onSelectBlockingOnly) {
		ex.W.inOnSelect = true
		ex.callValue(nil, ex.W.onSelect, nil, nil)
		ex.W.inOnSelect = false
	}
	// result tuple: (index int, recvOk bool, recv values...)
	nrecv := 0
	for _, st := range x.States {
		if st.Dir == types.RecvOnly {
			nrecv++
		}
	}
	res := &TupleV{vs: make([]Value, 2+nrecv)}
	res.vs[0] = tt.BV(^uint64(0), 64)
	res.vs[1] = tt.Bool(false)
	ri := 0
	recvIdx := make([]int, len(x.States))
	for i, st := range x.States {
		if st.Dir == types.RecvOnly {
			recvIdx[i] = 2 + ri
			et := st.Chan.Type().Underlying().(*types.Chan).Elem()
			res.vs[2+ri] = ex.zero(et)
			ri++
		}
	}
	// ready cases: the first ready case, or (vx.NondetSelect) any ready case - Go picks uniformly at random
	var ready []int
	for i, st := range x.States {
		c := ex.chanOf(ex.get(fr, st.Chan))
		if c == nil {
			continue
		}
		if st.Dir == types.SendOnly {
			if c.closed {
				panic(ex.goPanic("send on closed channel"))
			}
			if len(c.buf) < c.cap {
				ready = append(ready, i)
			}
		} else if len(c.buf) > 0 || c.closed {
			ready = append(ready, i)
		}
	}
	if len(ready) > 0 {
		i := ready[0]
		if ex.W.nondetSelect && len(ready) > 1 {
			i = ready[ex.choose(len(ready), nil, "select-ready")]
		}
		st := x.States[i]
		c := ex.chanOf(ex.get(fr, st.Chan))
		if st.Dir == types.SendOnly {
			c.buf = append(c.buf, ex.get(fr, st.Send))
			c.sends++
			res.vs[0] = tt.BV(uint64(i), 64)
			return res
		}
		v, ok := ex.chanRecv(ex.get(fr, st.Chan), false)
		if ok {
			res.vs[recvIdx[i]] = v
		}
		res.vs[0] = tt.BV(uint64(i), 64)
		res.vs[1] = tt.Bool(ok)
		return res
	}
	if !x.Blocking {
		return res // default case: index -1
	}
	panic(&pathEnd{kind: "blocked", msg: "select would block", pos: ex.posStr()})
}
