package test

// Translator self-test (DESIGN 2.12): the repository's own store suite (55 concrete
// transactions with expected results) is pushed through the engine's encoding of BOTH
// backends' handlers + SQL; every result must equal the expected one. This validates the SSA
// executor, the SQL parser and the statement semantics on every command kind with the
// repository's own oracle, and is the only place where postgres.go is "run".

import (
	"github.com/resonatehq/resonate/internal/app/subsystems/aio/store/postgres"
	"github.com/resonatehq/resonate/internal/app/subsystems/aio/store/sqlite"
	"github.com/resonatehq/resonate/internal/kernel/t_aio"
	"github.com/resonatehq/resonate/internal/vx"
	"github.com/resonatehq/resonate/pkg/lock"
	"github.com/resonatehq/resonate/pkg/promise"
	"github.com/resonatehq/resonate/pkg/schedule"
	"github.com/resonatehq/resonate/pkg/task"
)

type vhStore interface {
	Execute([]*t_aio.Transaction) ([][]*t_aio.Result, error)
}

func vhJSONEq(a, b []byte) bool { return vx.And(vx.BytesNil(a) == vx.BytesNil(b), vx.BytesStr(a) == vx.BytesStr(b)) }

func vhP(a, b []*promise.PromiseRecord) bool {
	if len(a) != len(b) {
		return false
	}
	ok := true
	for i := range a {
		x, y := a[i], b[i]
		ok = vx.And(ok, x.Id == y.Id, x.State == y.State, x.Timeout == y.Timeout, vhJSONEq(x.ParamHeaders, y.ParamHeaders), vx.BytesEq(x.ParamData, y.ParamData),
			vhJSONEq(x.ValueHeaders, y.ValueHeaders), vx.BytesEq(x.ValueData, y.ValueData), vhJSONEq(x.Tags, y.Tags), vx.Int64PtrEq(x.CreatedOn, y.CreatedOn), vx.Int64PtrEq(x.CompletedOn, y.CompletedOn),
			vx.StrPtrEq((*string)(x.IdempotencyKeyForCreate), (*string)(y.IdempotencyKeyForCreate)), vx.StrPtrEq((*string)(x.IdempotencyKeyForComplete), (*string)(y.IdempotencyKeyForComplete)), x.SortId == y.SortId)
	}
	return ok
}

func vhS(a, b []*schedule.ScheduleRecord) bool {
	if len(a) != len(b) {
		return false
	}
	ok := true
	for i := range a {
		x, y := a[i], b[i]
		ok = vx.And(ok, x.Id == y.Id, x.Description == y.Description, x.Cron == y.Cron, vhJSONEq(x.Tags, y.Tags), x.PromiseId == y.PromiseId, x.PromiseTimeout == y.PromiseTimeout,
			vhJSONEq(x.PromiseParamHeaders, y.PromiseParamHeaders), vx.BytesEq(x.PromiseParamData, y.PromiseParamData), vhJSONEq(x.PromiseTags, y.PromiseTags),
			vx.Int64PtrEq(x.LastRunTime, y.LastRunTime), x.NextRunTime == y.NextRunTime, vx.StrPtrEq((*string)(x.IdempotencyKey), (*string)(y.IdempotencyKey)), x.CreatedOn == y.CreatedOn, x.SortId == y.SortId)
	}
	return ok
}

func vhT(a, b []*task.TaskRecord) bool {
	if len(a) != len(b) {
		return false
	}
	ok := true
	for i := range a {
		x, y := a[i], b[i]
		ok = vx.And(ok, x.Id == y.Id, vx.StrPtrEq(x.ProcessId, y.ProcessId), x.State == y.State, x.RootPromiseId == y.RootPromiseId, vx.BytesEq(x.Recv, y.Recv), x.Timeout == y.Timeout,
			x.Counter == y.Counter, x.Attempt == y.Attempt, x.Ttl == y.Ttl, x.ExpiresAt == y.ExpiresAt, vx.Int64PtrEq(x.CreatedOn, y.CreatedOn), vx.Int64PtrEq(x.CompletedOn, y.CompletedOn))
	}
	return ok
}

func vhL(a, b []*lock.LockRecord) bool {
	if len(a) != len(b) {
		return false
	}
	ok := true
	for i := range a {
		x, y := a[i], b[i]
		ok = vx.And(ok, x.ResourceId == y.ResourceId, x.ExecutionId == y.ExecutionId, x.ProcessId == y.ProcessId, x.Ttl == y.Ttl, x.ExpiresAt == y.ExpiresAt)
	}
	return ok
}

func vhQP(a, b *t_aio.QueryPromisesResult) bool {
	return a != nil && b != nil && vx.And(a.RowsReturned == b.RowsReturned, a.LastSortId == b.LastSortId, vhP(a.Records, b.Records))
}
func vhQS(a, b *t_aio.QuerySchedulesResult) bool {
	return a != nil && b != nil && vx.And(a.RowsReturned == b.RowsReturned, a.LastSortId == b.LastSortId, vhS(a.Records, b.Records))
}
func vhQT(a, b *t_aio.QueryTasksResult) bool {
	return a != nil && b != nil && vx.And(a.RowsReturned == b.RowsReturned, vhT(a.Records, b.Records))
}
func vhQL(a, b *t_aio.QueryLocksResult) bool {
	return a != nil && b != nil && vx.And(a.RowsReturned == b.RowsReturned, vhL(a.Records, b.Records))
}

func vhSameResult(a, b *t_aio.Result) bool {
	if a.Kind != b.Kind {
		return false
	}
	switch a.Kind {
	case t_aio.ReadPromise:
		return vhQP(a.ReadPromise, b.ReadPromise)
	case t_aio.ReadPromises:
		// no ORDER BY: the model returns the rows in an arbitrary order (any order an engine may pick)
		x, y := a.ReadPromises, b.ReadPromises
		if x == nil || y == nil || len(x.Records) != len(y.Records) {
			return false
		}
		ok := x.RowsReturned == y.RowsReturned
		for _, e := range y.Records {
			found := false
			for _, g := range x.Records {
				found = vx.Or(found, vhP([]*promise.PromiseRecord{g}, []*promise.PromiseRecord{e}))
			}
			ok = vx.And(ok, found)
		}
		return ok
	case t_aio.SearchPromises:
		return vhQP(a.SearchPromises, b.SearchPromises)
	case t_aio.CreatePromise:
		return a.CreatePromise.RowsAffected == b.CreatePromise.RowsAffected
	case t_aio.UpdatePromise:
		return a.UpdatePromise.RowsAffected == b.UpdatePromise.RowsAffected
	case t_aio.CreateCallback:
		return a.CreateCallback.RowsAffected == b.CreateCallback.RowsAffected
	case t_aio.DeleteCallbacks:
		return a.DeleteCallbacks.RowsAffected == b.DeleteCallbacks.RowsAffected
	case t_aio.ReadSchedule:
		return vhQS(a.ReadSchedule, b.ReadSchedule)
	case t_aio.ReadSchedules:
		return vhQS(a.ReadSchedules, b.ReadSchedules)
	case t_aio.SearchSchedules:
		return vhQS(a.SearchSchedules, b.SearchSchedules)
	case t_aio.CreateSchedule:
		return a.CreateSchedule.RowsAffected == b.CreateSchedule.RowsAffected
	case t_aio.UpdateSchedule:
		return a.UpdateSchedule.RowsAffected == b.UpdateSchedule.RowsAffected
	case t_aio.DeleteSchedule:
		return a.DeleteSchedule.RowsAffected == b.DeleteSchedule.RowsAffected
	case t_aio.ReadLock:
		return vhQL(a.ReadLock, b.ReadLock)
	case t_aio.AcquireLock:
		return a.AcquireLock.RowsAffected == b.AcquireLock.RowsAffected
	case t_aio.ReleaseLock:
		return a.ReleaseLock.RowsAffected == b.ReleaseLock.RowsAffected
	case t_aio.HeartbeatLocks:
		return a.HeartbeatLocks.RowsAffected == b.HeartbeatLocks.RowsAffected
	case t_aio.TimeoutLocks:
		return a.TimeoutLocks.RowsAffected == b.TimeoutLocks.RowsAffected
	case t_aio.ReadTask:
		return vhQT(a.ReadTask, b.ReadTask)
	case t_aio.ReadTasks:
		return vhQT(a.ReadTasks, b.ReadTasks)
	case t_aio.ReadEnqueueableTasks:
		// GROUP BY with bare columns: SQLite returns an arbitrary representative per root; compare roots served
		x, y := a.ReadEnqueueableTasks, b.ReadEnqueueableTasks
		if x == nil || y == nil || len(x.Records) != len(y.Records) {
			return false
		}
		ok := x.RowsReturned == y.RowsReturned
		for i := range y.Records {
			ok = vx.And(ok, x.Records[i].RootPromiseId == y.Records[i].RootPromiseId, x.Records[i].State == y.Records[i].State)
		}
		return ok
	case t_aio.CreateTask:
		return a.CreateTask.RowsAffected == b.CreateTask.RowsAffected
	case t_aio.CreateTasks:
		return a.CreateTasks.RowsAffected == b.CreateTasks.RowsAffected
	case t_aio.CompleteTasks:
		return a.CompleteTasks.RowsAffected == b.CompleteTasks.RowsAffected
	case t_aio.UpdateTask:
		return a.UpdateTask.RowsAffected == b.UpdateTask.RowsAffected
	case t_aio.HeartbeatTasks:
		return a.HeartbeatTasks.RowsAffected == b.HeartbeatTasks.RowsAffected
	case t_aio.CreatePromiseAndTask:
		return a.CreatePromiseAndTask.PromiseRowsAffected == b.CreatePromiseAndTask.PromiseRowsAffected && a.CreatePromiseAndTask.TaskRowsAffected == b.CreatePromiseAndTask.TaskRowsAffected
	}
	return false
}

func VH_Selftest() {
	i := vx.Choose(len(TestCases))
	c := TestCases[i]
	vx.Slots("promises", 6)
	vx.Slots("callbacks", 6)
	vx.Slots("schedules", 6)
	vx.Slots("locks", 6)
	vx.Slots("tasks", 8)
	var st vhStore
	if vx.Opt("backend", 0) == 1 {
		st = postgres.VXWorker(vx.DB("postgres"))
	} else {
		st = sqlite.VXWorker(vx.DB("sqlite"))
	}
	vx.PanicOK(c.panic)
	results, err := st.Execute([]*t_aio.Transaction{{Commands: c.commands}})
	vx.Assert(!c.panic, "selftest:expected-panic:"+c.name)
	vx.Assert(err == nil, "selftest:no-error:"+c.name)
	if err != nil {
		return
	}
	vx.Assert(len(results) == 1 && len(results[0]) == len(c.expected), "selftest:result-count:"+c.name)
	for j := range c.expected {
		vx.Assert(vhSameResult(results[0][j], c.expected[j]), "selftest:result:"+c.name)
	}
	vx.Reach("case-done")
}
