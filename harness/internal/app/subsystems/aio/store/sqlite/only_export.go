package sqlite

import (
	"database/sql"

	"github.com/prometheus/client_golang/prometheus"
	"github.com/resonatehq/resonate/internal/metrics"
)

// VXWorker gives harnesses a store worker over the symbolic database. The worker is built by the REAL constructor
// (over the database/sql.Open contract, which hands back the symbolic handle the harness has already opened), so
// whatever the constructor initialises is initialised exactly as in the server.
func VXWorker(db *sql.DB) *SqliteStoreWorker {
	s, err := New(nil, metrics.New(prometheus.NewRegistry()), &Config{Size: 1, BatchSize: 1, Path: "resonate.db", TxTimeout: 1000000000})
	if err != nil || s == nil || s.worker == nil {
		panic("sqlite store constructor failed")
	}
	s.worker.db = db
	s.worker.config = &Config{}
	return s.worker
}
