package main

// Long-lived SMT solver process with push/pop, lazy declarations and
// define-fun naming of shared sub-terms.

import (
	"bufio"
	"fmt"
	"io"
	"os"
	"os/exec"
	"strings"
	"sync/atomic"
	"time"
)

type SolverStats struct {
	Queries   int64
	Sat       int64
	Unsat     int64
	Unknown   int64
	TimeNanos int64
}

var gStats SolverStats
var slowLog = os.Getenv("VX_SLOW") != ""

type Solver struct {
	kind    string // z3 | z3-new | cvc5
	cmd     *exec.Cmd
	in      io.WriteCloser
	out     *bufio.Reader
	seq     int
	timeout int // ms per query
	// emission state
	tt       *TermTable
	defined  []map[int]bool // per scope: term ids already defined/declared
	nAx      []int          // per scope: number of axioms asserted
	declUF   []map[string]bool // per scope
	log      io.Writer
	lastErr  string
	what     string
	dead     bool
}

func NewSolver(kind string, timeoutMs int) (*Solver, error) {
	var cmd *exec.Cmd
	switch kind {
	case "z3":
		cmd = exec.Command("z3", "-in", "-smt2")
	case "z3-new":
		cmd = exec.Command("z3-new", "-in", "-smt2")
	case "cvc5":
		cmd = exec.Command("cvc5", "--incremental", "--strings-exp", "--lang=smt2", fmt.Sprintf("--tlimit-per=%d", timeoutMs), "--produce-models")
	default:
		return nil, fmt.Errorf("unknown solver %s", kind)
	}
	in, err := cmd.StdinPipe()
	if err != nil {
		return nil, err
	}
	outp, err := cmd.StdoutPipe()
	if err != nil {
		return nil, err
	}
	cmd.Stderr = cmd.Stdout
	if err := cmd.Start(); err != nil {
		return nil, err
	}
	s := &Solver{kind: kind, cmd: cmd, in: in, out: bufio.NewReaderSize(outp, 1<<20), timeout: timeoutMs}
	return s, nil
}

func (s *Solver) Close() {
	if s.cmd != nil && s.cmd.Process != nil {
		s.in.Close()
		s.cmd.Process.Kill()
		s.cmd.Wait()
	}
}

func (s *Solver) send(text string) {
	if s.log != nil {
		io.WriteString(s.log, text)
	}
	if _, err := io.WriteString(s.in, text); err != nil {
		s.dead = true
	}
}

// Begin resets the solver for a new path using term table tt.
func (s *Solver) Begin(tt *TermTable) {
	s.tt = tt
	if s.kind == "cvc5" {
		s.send("(reset)\n(set-logic ALL)\n(set-option :produce-models true)\n")
	} else {
		s.send(fmt.Sprintf("(reset)\n(set-option :timeout %d)\n(set-option :model.completion true)\n", s.timeout))
	}
	s.defined = []map[int]bool{{}}
	s.nAx = []int{0}
	s.declUF = []map[string]bool{{}}
}

func (s *Solver) Push() {
	s.send("(push 1)\n")
	s.defined = append(s.defined, map[int]bool{})
	s.declUF = append(s.declUF, map[string]bool{})
	s.nAx = append(s.nAx, s.nAx[len(s.nAx)-1])
}

func (s *Solver) Pop() {
	s.send("(pop 1)\n")
	top := len(s.defined) - 1
	s.defined = s.defined[:top]
	s.declUF = s.declUF[:top]
	s.nAx = s.nAx[:top]
}

func (s *Solver) ufDeclared(n string) bool {
	for _, m := range s.declUF {
		if m[n] {
			return true
		}
	}
	return false
}

func (s *Solver) isDefined(id int) bool {
	for _, m := range s.defined {
		if m[id] {
			return true
		}
	}
	return false
}

// ref returns the textual reference for t, emitting definitions as needed.
func (s *Solver) ref(t *Term, sb *strings.Builder) string {
	if t.op != "var" {
		if txt, ok := t.leafText(); ok {
			return txt
		}
	}
	name := fmt.Sprintf("t%d", t.id)
	if t.op == "var" {
		name = "|" + t.s + "|"
	}
	if s.isDefined(t.id) {
		return name
	}
	if t.op == "var" {
		fmt.Fprintf(sb, "(declare-const %s %s)\n", name, t.sort)
		s.defined[len(s.defined)-1][t.id] = true
		return name
	}
	if strings.HasPrefix(t.op, "uf:") {
		un := t.op[3:]
		if !s.ufDeclared(un) {
			d := s.tt.ufs[un]
			as := make([]string, len(d.args))
			for i, a := range d.args {
				as[i] = string(a)
			}
			fmt.Fprintf(sb, "(declare-fun |%s| (%s) %s)\n", un, strings.Join(as, " "), d.ret)
			s.declUF[len(s.declUF)-1][un] = true
		}
	}
	refs := make([]string, len(t.args))
	for i, a := range t.args {
		refs[i] = s.ref(a, sb)
	}
	fmt.Fprintf(sb, "(define-fun %s () %s (%s %s))\n", name, t.sort, t.opText(), strings.Join(refs, " "))
	s.defined[len(s.defined)-1][t.id] = true
	return name
}

// Assert adds t to the current scope.
func (s *Solver) Assert(t *Term) {
	var sb strings.Builder
	r := s.ref(t, &sb)
	fmt.Fprintf(&sb, "(assert %s)\n", r)
	s.send(sb.String())
}

func (s *Solver) flushAxioms() {
	top := len(s.nAx) - 1
	for s.nAx[top] < len(s.tt.axioms) {
		a := s.tt.axioms[s.nAx[top]]
		s.nAx[top]++
		s.Assert(a)
	}
}

// Check runs check-sat in the current scope: "sat", "unsat" or "unknown".
func (s *Solver) Check() string {
	s.flushAxioms()
	t0 := time.Now()
	s.seq++
	marker := fmt.Sprintf("DONE%d", s.seq)
	s.send(fmt.Sprintf("(check-sat)\n(echo \"%s\")\n", marker))
	res := "unknown"
	s.lastErr = ""
	for {
		line, err := s.out.ReadString('\n')
		if err != nil {
			s.dead = true
			s.lastErr = "solver died: " + err.Error()
			res = "unknown"
			break
		}
		line = strings.TrimSpace(line)
		if line == marker || line == "\""+marker+"\"" {
			break
		}
		switch {
		case line == "sat" || line == "unsat" || line == "unknown":
			res = line
		case strings.HasPrefix(line, "(error"):
			s.lastErr = line
		}
	}
	if s.lastErr != "" {
		res = "unknown"
	}
	if slowLog && time.Since(t0) > 500*time.Millisecond {
		fmt.Fprintf(os.Stderr, "SLOW %.2fs %s %s\n", time.Since(t0).Seconds(), res, s.what)
	}
	atomic.AddInt64(&gStats.Queries, 1)
	atomic.AddInt64(&gStats.TimeNanos, int64(time.Since(t0)))
	switch res {
	case "sat":
		atomic.AddInt64(&gStats.Sat, 1)
	case "unsat":
		atomic.AddInt64(&gStats.Unsat, 1)
	default:
		atomic.AddInt64(&gStats.Unknown, 1)
	}
	return res
}

// CheckWith: push, assert extra, check, optionally get model values, pop.
func (s *Solver) CheckWith(extra *Term, want []*Term) (string, map[int]string) {
	s.Push()
	defer s.Pop()
	if extra != nil {
		s.Assert(extra)
	}
	r := s.Check()
	if r != "sat" || len(want) == 0 {
		return r, nil
	}
	return r, s.Values(want)
}

// Values queries the model for the given terms (after a sat answer).
func (s *Solver) Values(ts []*Term) map[int]string {
	out := map[int]string{}
	for i := 0; i < len(ts); i += 40 {
		j := i + 40
		if j > len(ts) {
			j = len(ts)
		}
		var sb strings.Builder
		refs := make([]string, 0, j-i)
		for _, t := range ts[i:j] {
			refs = append(refs, s.ref(t, &sb))
		}
		s.seq++
		marker := fmt.Sprintf("DONE%d", s.seq)
		fmt.Fprintf(&sb, "(get-value (%s))\n(echo \"%s\")\n", strings.Join(refs, " "), marker)
		s.send(sb.String())
		var acc strings.Builder
		for {
			line, err := s.out.ReadString('\n')
			if err != nil {
				s.dead = true
				return out
			}
			tl := strings.TrimSpace(line)
			if tl == marker || tl == "\""+marker+"\"" {
				break
			}
			acc.WriteString(line)
		}
		vals := parseGetValue(acc.String())
		for k, t := range ts[i:j] {
			if k < len(vals) {
				out[t.id] = vals[k]
			}
		}
	}
	return out
}

// parseGetValue parses "((ref val) (ref val) ...)" and returns the value texts.
func parseGetValue(s string) []string {
	toks := sexpTokens(s)
	pos := 0
	var parse func() interface{}
	parse = func() interface{} {
		if pos >= len(toks) {
			return nil
		}
		t := toks[pos]
		pos++
		if t == "(" {
			var l []interface{}
			for pos < len(toks) && toks[pos] != ")" {
				l = append(l, parse())
			}
			pos++
			return l
		}
		return t
	}
	top, ok := parse().([]interface{})
	if !ok {
		return nil
	}
	var out []string
	for _, p := range top {
		pl, ok := p.([]interface{})
		if !ok || len(pl) != 2 {
			out = append(out, "?")
			continue
		}
		out = append(out, sexpText(pl[1]))
	}
	return out
}

func sexpText(x interface{}) string {
	switch v := x.(type) {
	case string:
		return v
	case []interface{}:
		parts := make([]string, len(v))
		for i, e := range v {
			parts[i] = sexpText(e)
		}
		return "(" + strings.Join(parts, " ") + ")"
	}
	return "?"
}

func sexpTokens(s string) []string {
	var toks []string
	i := 0
	for i < len(s) {
		c := s[i]
		switch {
		case c == '(' || c == ')':
			toks = append(toks, string(c))
			i++
		case c == ' ' || c == '\n' || c == '\t' || c == '\r':
			i++
		case c == '"':
			j := i + 1
			for j < len(s) {
				if s[j] == '"' {
					if j+1 < len(s) && s[j+1] == '"' {
						j += 2
						continue
					}
					break
				}
				j++
			}
			toks = append(toks, s[i:j+1])
			i = j + 1
		case c == '|':
			j := strings.IndexByte(s[i+1:], '|')
			if j < 0 {
				j = len(s) - i - 2
			}
			toks = append(toks, s[i:i+j+2])
			i += j + 2
		default:
			j := i
			for j < len(s) && !strings.ContainsRune("() \n\t\r", rune(s[j])) {
				j++
			}
			toks = append(toks, s[i:j])
			i = j
		}
	}
	return toks
}

// decodeSMTString turns an SMT-LIB string literal (with quotes) into Go bytes.
func decodeSMTString(lit string) string {
	if len(lit) < 2 || lit[0] != '"' {
		return lit
	}
	body := lit[1 : len(lit)-1]
	body = strings.ReplaceAll(body, `""`, `"`)
	var sb strings.Builder
	for i := 0; i < len(body); i++ {
		if body[i] == '\\' && i+1 < len(body) && body[i+1] == 'u' {
			// \u{X..} or \uXXXX
			if i+2 < len(body) && body[i+2] == '{' {
				j := strings.IndexByte(body[i:], '}')
				if j > 0 {
					var v int
					fmt.Sscanf(body[i+3:i+j], "%x", &v)
					if v < 256 {
						sb.WriteByte(byte(v))
					} else {
						sb.WriteRune(rune(v))
					}
					i += j
					continue
				}
			} else if i+5 < len(body) {
				var v int
				if _, err := fmt.Sscanf(body[i+2:i+6], "%x", &v); err == nil {
					if v < 256 {
						sb.WriteByte(byte(v))
					} else {
						sb.WriteRune(rune(v))
					}
					i += 5
					continue
				}
			}
		}
		if body[i] == '\\' && i+1 < len(body) && body[i+1] == 'x' && i+3 < len(body) {
			var v int
			if _, err := fmt.Sscanf(body[i+2:i+4], "%x", &v); err == nil {
				sb.WriteByte(byte(v))
				i += 3
				continue
			}
		}
		sb.WriteByte(body[i])
	}
	return sb.String()
}
