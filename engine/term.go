package main

// Hash-consed SMT terms with constructor-level simplification.
// One TermTable per explored path (names are deterministic: creation order).

import (
	"fmt"
	"math/big"
	"sort"
	"strconv"
	"strings"
)

type Sort string

const (
	SBool   Sort = "Bool"
	SString Sort = "String"
	SInt    Sort = "Int"
	SBV64   Sort = "(_ BitVec 64)"
	SBV32   Sort = "(_ BitVec 32)"
	SBV16   Sort = "(_ BitVec 16)"
	SBV8    Sort = "(_ BitVec 8)"
	SArrSB  Sort = "(Array String Bool)"
	SArrSS  Sort = "(Array String String)"
)

func BVSort(w int) Sort { return Sort(fmt.Sprintf("(_ BitVec %d)", w)) }
func (s Sort) Width() int {
	if strings.HasPrefix(string(s), "(_ BitVec ") {
		n, _ := strconv.Atoi(strings.TrimSuffix(strings.TrimPrefix(string(s), "(_ BitVec "), ")"))
		return n
	}
	return 0
}

type Term struct {
	id   int
	op   string // "var","bv","bool","str","int", or SMT operator, or "uf:<name>"
	args []*Term
	sort Sort
	s    string // var name / string constant
	n    uint64 // bv constant (masked to width) / int constant
	tt   *TermTable
}

type UFDecl struct {
	name string
	args []Sort
	ret  Sort
}

type TermTable struct {
	tab    map[string]*Term
	next   int
	nvar   int
	vars   []*Term           // declared consts in creation order
	ufs    map[string]UFDecl // declared uninterpreted functions
	ufList []string
	axioms []*Term // codec axiom instances (always asserted)
	validStr map[int]string // string vars that are valid encodings by construction ("map")
	pins     map[string]string // replay: pinned model values by variable name
	pinned   []*Term
}

func NewTermTable() *TermTable {
	return &TermTable{tab: map[string]*Term{}, ufs: map[string]UFDecl{}, validStr: map[int]string{}}
}

func (tt *TermTable) mk(op string, sort Sort, s string, n uint64, args ...*Term) *Term {
	var sb strings.Builder
	sb.WriteString(op)
	sb.WriteByte('|')
	sb.WriteString(string(sort))
	sb.WriteByte('|')
	sb.WriteString(s)
	sb.WriteByte('|')
	sb.WriteString(strconv.FormatUint(n, 10))
	for _, a := range args {
		sb.WriteByte(',')
		sb.WriteString(strconv.Itoa(a.id))
	}
	k := sb.String()
	if t, ok := tt.tab[k]; ok {
		return t
	}
	t := &Term{id: tt.next, op: op, args: args, sort: sort, s: s, n: n, tt: tt}
	tt.next++
	tt.tab[k] = t
	return t
}

// ---- leaves

func (tt *TermTable) Var(prefix string, sort Sort) *Term {
	name := fmt.Sprintf("%s!%d", sanitize(prefix), tt.nvar)
	tt.nvar++
	t := tt.mk("var", sort, name, 0)
	tt.vars = append(tt.vars, t)
	if v, ok := tt.pins[name]; ok {
		if c := tt.parseValue(v, sort); c != nil {
			tt.pinned = append(tt.pinned, tt.Eq(t, c))
		}
	}
	return t
}

func sanitize(s string) string {
	var sb strings.Builder
	for _, r := range s {
		if r >= 'a' && r <= 'z' || r >= 'A' && r <= 'Z' || r >= '0' && r <= '9' || r == '_' || r == '.' {
			sb.WriteRune(r)
		} else {
			sb.WriteByte('_')
		}
	}
	return sb.String()
}

func mask(w int) uint64 {
	if w >= 64 {
		return ^uint64(0)
	}
	return (uint64(1) << uint(w)) - 1
}

func (tt *TermTable) BV(v uint64, w int) *Term { return tt.mk("bv", BVSort(w), "", v&mask(w)) }
func (tt *TermTable) Bool(b bool) *Term {
	if b {
		return tt.mk("bool", SBool, "", 1)
	}
	return tt.mk("bool", SBool, "", 0)
}
func (tt *TermTable) Str(s string) *Term  { return tt.mk("str", SString, s, 0) }
func (tt *TermTable) Int(v int64) *Term   { return tt.mk("int", SInt, "", uint64(v)) }
func (t *Term) IsConst() bool             { return t.op == "bv" || t.op == "bool" || t.op == "str" || t.op == "int" }
func (t *Term) IsTrue() bool              { return t.op == "bool" && t.n == 1 }
func (t *Term) IsFalse() bool             { return t.op == "bool" && t.n == 0 }
func (t *Term) BVVal() (uint64, bool)     { return t.n, t.op == "bv" }
func (t *Term) StrVal() (string, bool)    { return t.s, t.op == "str" }
func (t *Term) SInt64() int64 {
	w := t.sort.Width()
	v := t.n
	if w < 64 && v&(1<<uint(w-1)) != 0 {
		v |= ^mask(w)
	}
	return int64(v)
}

// ---- boolean

func (tt *TermTable) Not(a *Term) *Term {
	if a.op == "bool" {
		return tt.Bool(a.n == 0)
	}
	if a.op == "not" {
		return a.args[0]
	}
	return tt.mk("not", SBool, "", 0, a)
}

func (tt *TermTable) And(as ...*Term) *Term {
	var out []*Term
	seen := map[int]bool{}
	for _, a := range as {
		if a.IsTrue() {
			continue
		}
		if a.IsFalse() {
			return a
		}
		if a.op == "and" {
			for _, b := range a.args {
				if !seen[b.id] {
					seen[b.id] = true
					out = append(out, b)
				}
			}
			continue
		}
		if !seen[a.id] {
			seen[a.id] = true
			out = append(out, a)
		}
	}
	for _, a := range out {
		if a.op == "not" && seen[a.args[0].id] {
			return tt.Bool(false)
		}
	}
	if len(out) == 0 {
		return tt.Bool(true)
	}
	if len(out) == 1 {
		return out[0]
	}
	return tt.mk("and", SBool, "", 0, out...)
}

func (tt *TermTable) Or(as ...*Term) *Term {
	var out []*Term
	seen := map[int]bool{}
	for _, a := range as {
		if a.IsFalse() {
			continue
		}
		if a.IsTrue() {
			return a
		}
		if a.op == "or" {
			for _, b := range a.args {
				if !seen[b.id] {
					seen[b.id] = true
					out = append(out, b)
				}
			}
			continue
		}
		if !seen[a.id] {
			seen[a.id] = true
			out = append(out, a)
		}
	}
	for _, a := range out {
		if a.op == "not" && seen[a.args[0].id] {
			return tt.Bool(true)
		}
	}
	if len(out) == 0 {
		return tt.Bool(false)
	}
	if len(out) == 1 {
		return out[0]
	}
	return tt.mk("or", SBool, "", 0, out...)
}

func (tt *TermTable) Implies(a, b *Term) *Term { return tt.Or(tt.Not(a), b) }

func (tt *TermTable) Ite(c, a, b *Term) *Term {
	if c.IsTrue() {
		return a
	}
	if c.IsFalse() {
		return b
	}
	if a == b {
		return a
	}
	if a.sort != b.sort {
		panic(fmt.Sprintf("ite sort mismatch %s vs %s", a.sort, b.sort))
	}
	if a.sort == SBool {
		if a.IsTrue() && b.IsFalse() {
			return c
		}
		if a.IsFalse() && b.IsTrue() {
			return tt.Not(c)
		}
		if a.IsTrue() {
			return tt.Or(c, b)
		}
		if a.IsFalse() {
			return tt.And(tt.Not(c), b)
		}
		if b.IsTrue() {
			return tt.Or(tt.Not(c), a)
		}
		if b.IsFalse() {
			return tt.And(c, a)
		}
	}
	return tt.mk("ite", a.sort, "", 0, c, a, b)
}

func (tt *TermTable) Eq(a, b *Term) *Term {
	if a == b {
		return tt.Bool(true)
	}
	if a.sort != b.sort {
		panic(fmt.Sprintf("eq sort mismatch %s vs %s (%s, %s)", a.sort, b.sort, a, b))
	}
	if a.IsConst() && b.IsConst() {
		return tt.Bool(a.s == b.s && a.n == b.n)
	}
	if a.sort == SBool {
		if a.IsTrue() {
			return b
		}
		if b.IsTrue() {
			return a
		}
		if a.IsFalse() {
			return tt.Not(b)
		}
		if b.IsFalse() {
			return tt.Not(a)
		}
	}
	// string prefix-structure: "c1"++x = "c2"++y with differing constant prefixes
	if a.sort == SString {
		if r, ok := tt.strEqSimplify(a, b); ok {
			return r
		}
	}
	if a.id > b.id {
		a, b = b, a
	}
	return tt.mk("=", SBool, "", 0, a, b)
}

func constPrefix(t *Term) (string, bool) { // returns leading constant and whether whole term is constant
	if t.op == "str" {
		return t.s, true
	}
	if t.op == "str.++" && t.args[0].op == "str" {
		return t.args[0].s, false
	}
	return "", false
}

func (tt *TermTable) strEqSimplify(a, b *Term) (*Term, bool) {
	pa, wa := constPrefix(a)
	pb, wb := constPrefix(b)
	if wa && wb {
		return tt.Bool(pa == pb), true
	}
	n := len(pa)
	if len(pb) < n {
		n = len(pb)
	}
	if pa[:n] != pb[:n] {
		return tt.Bool(false), true
	}
	if wa && len(pb) > len(pa) {
		return tt.Bool(false), true
	}
	if wb && len(pa) > len(pb) {
		return tt.Bool(false), true
	}
	// equal constant prefix and the same number of remaining parts: strip
	if !wa && !wb && pa == pb && pa != "" && len(a.args) == 2 && len(b.args) == 2 {
		return tt.Eq(a.args[1], b.args[1]), true
	}
	return nil, false
}

func (tt *TermTable) Distinct(as ...*Term) *Term {
	var cs []*Term
	for i := 0; i < len(as); i++ {
		for j := i + 1; j < len(as); j++ {
			cs = append(cs, tt.Not(tt.Eq(as[i], as[j])))
		}
	}
	return tt.And(cs...)
}

// ---- bit-vectors

func (tt *TermTable) bin(op string, a, b *Term) *Term {
	if a.sort != b.sort {
		panic(fmt.Sprintf("%s sort mismatch %s vs %s", op, a.sort, b.sort))
	}
	w := a.sort.Width()
	if a.op == "bv" && b.op == "bv" {
		x, y := a.n, b.n
		sx, sy := a.SInt64(), b.SInt64()
		switch op {
		case "bvadd":
			return tt.BV(x+y, w)
		case "bvsub":
			return tt.BV(x-y, w)
		case "bvmul":
			return tt.BV(x*y, w)
		case "bvand":
			return tt.BV(x&y, w)
		case "bvor":
			return tt.BV(x|y, w)
		case "bvxor":
			return tt.BV(x^y, w)
		case "bvshl":
			if y >= uint64(w) {
				return tt.BV(0, w)
			}
			return tt.BV(x<<y, w)
		case "bvlshr":
			if y >= uint64(w) {
				return tt.BV(0, w)
			}
			return tt.BV(x>>y, w)
		case "bvashr":
			if y >= uint64(w) {
				y = uint64(w - 1)
			}
			return tt.BV(uint64(sx>>y), w)
		case "bvsdiv":
			if y != 0 {
				return tt.BV(uint64(sx/sy), w)
			}
		case "bvudiv":
			if y != 0 {
				return tt.BV(x/y, w)
			}
		case "bvsrem":
			if y != 0 {
				return tt.BV(uint64(sx%sy), w)
			}
		case "bvurem":
			if y != 0 {
				return tt.BV(x%y, w)
			}
		}
	}
	switch op {
	case "bvadd", "bvor", "bvxor":
		if a.op == "bv" && a.n == 0 {
			return b
		}
		if b.op == "bv" && b.n == 0 {
			return a
		}
	case "bvsub":
		if b.op == "bv" && b.n == 0 {
			return a
		}
	case "bvand":
		if a.op == "bv" && a.n == 0 {
			return a
		}
		if b.op == "bv" && b.n == 0 {
			return b
		}
		if a == b {
			return a
		}
	case "bvmul":
		if a.op == "bv" && a.n == 1 {
			return b
		}
		if b.op == "bv" && b.n == 1 {
			return a
		}
	}
	return tt.mk(op, a.sort, "", 0, a, b)
}

func (tt *TermTable) BVBin(op string, a, b *Term) *Term { return tt.bin(op, a, b) }
func (tt *TermTable) Add(a, b *Term) *Term             { return tt.bin("bvadd", a, b) }
func (tt *TermTable) Sub(a, b *Term) *Term             { return tt.bin("bvsub", a, b) }

func (tt *TermTable) BVNeg(a *Term) *Term {
	if a.op == "bv" {
		return tt.BV(-a.n, a.sort.Width())
	}
	return tt.mk("bvneg", a.sort, "", 0, a)
}
func (tt *TermTable) BVNot(a *Term) *Term {
	if a.op == "bv" {
		return tt.BV(^a.n, a.sort.Width())
	}
	return tt.mk("bvnot", a.sort, "", 0, a)
}

func (tt *TermTable) Cmp(op string, a, b *Term) *Term { // bvslt bvsle bvult bvule
	if a.sort != b.sort {
		panic(fmt.Sprintf("%s sort mismatch %s vs %s", op, a.sort, b.sort))
	}
	if a.op == "bv" && b.op == "bv" {
		switch op {
		case "bvslt":
			return tt.Bool(a.SInt64() < b.SInt64())
		case "bvsle":
			return tt.Bool(a.SInt64() <= b.SInt64())
		case "bvult":
			return tt.Bool(a.n < b.n)
		case "bvule":
			return tt.Bool(a.n <= b.n)
		}
	}
	if a == b {
		return tt.Bool(op == "bvsle" || op == "bvule")
	}
	return tt.mk(op, SBool, "", 0, a, b)
}
func (tt *TermTable) SLt(a, b *Term) *Term { return tt.Cmp("bvslt", a, b) }
func (tt *TermTable) SLe(a, b *Term) *Term { return tt.Cmp("bvsle", a, b) }

// Resize converts a bit-vector to width w (sign- or zero-extending, or truncating).
func (tt *TermTable) Resize(a *Term, w int, signed bool) *Term {
	aw := a.sort.Width()
	if aw == w {
		return a
	}
	if a.op == "bv" {
		if signed {
			return tt.BV(uint64(a.SInt64()), w)
		}
		return tt.BV(a.n, w)
	}
	if w < aw {
		return tt.mk(fmt.Sprintf("(_ extract %d 0)", w-1), BVSort(w), "", 0, a)
	}
	if signed {
		return tt.mk(fmt.Sprintf("(_ sign_extend %d)", w-aw), BVSort(w), "", 0, a)
	}
	return tt.mk(fmt.Sprintf("(_ zero_extend %d)", w-aw), BVSort(w), "", 0, a)
}

// ---- strings

func (tt *TermTable) Concat(as ...*Term) *Term {
	var flat []*Term
	for _, a := range as {
		if a.op == "str.++" {
			flat = append(flat, a.args...)
		} else {
			flat = append(flat, a)
		}
	}
	var out []*Term
	for _, a := range flat {
		if a.op == "str" && a.s == "" {
			continue
		}
		if a.op == "str" && len(out) > 0 && out[len(out)-1].op == "str" {
			out[len(out)-1] = tt.Str(out[len(out)-1].s + a.s)
			continue
		}
		out = append(out, a)
	}
	if len(out) == 0 {
		return tt.Str("")
	}
	if len(out) == 1 {
		return out[0]
	}
	// keep binary right-nested form with constant prefix first: args[0] ++ rest
	if len(out) > 2 {
		rest := tt.mkConcat(out[1:])
		return tt.mk("str.++", SString, "", 0, out[0], rest)
	}
	return tt.mk("str.++", SString, "", 0, out...)
}

func (tt *TermTable) mkConcat(as []*Term) *Term {
	if len(as) == 1 {
		return as[0]
	}
	if len(as) == 2 {
		return tt.mk("str.++", SString, "", 0, as[0], as[1])
	}
	return tt.mk("str.++", SString, "", 0, as[0], tt.mkConcat(as[1:]))
}

func (tt *TermTable) StrLen(a *Term) *Term {
	if a.op == "str" {
		return tt.Int(int64(len(a.s)))
	}
	return tt.mk("str.len", SInt, "", 0, a)
}

func (tt *TermTable) PrefixOf(p, s *Term) *Term {
	if p.op == "str" && s.op == "str" {
		return tt.Bool(strings.HasPrefix(s.s, p.s))
	}
	if p.op == "str" {
		if cp, whole := constPrefix(s); !whole && len(cp) >= len(p.s) {
			return tt.Bool(strings.HasPrefix(cp, p.s))
		}
	}
	return tt.mk("str.prefixof", SBool, "", 0, p, s)
}

func (tt *TermTable) StrContains(s, sub *Term) *Term {
	if s.op == "str" && sub.op == "str" {
		return tt.Bool(strings.Contains(s.s, sub.s))
	}
	return tt.mk("str.contains", SBool, "", 0, s, sub)
}

func (tt *TermTable) StrLt(a, b *Term) *Term {
	if a.op == "str" && b.op == "str" {
		return tt.Bool(a.s < b.s)
	}
	return tt.mk("str.<", SBool, "", 0, a, b)
}

// ---- ints (used for ranks / counts only)

func (tt *TermTable) IntAdd(as ...*Term) *Term {
	var c int64
	var out []*Term
	for _, a := range as {
		if a.op == "int" {
			c += int64(a.n)
		} else {
			out = append(out, a)
		}
	}
	if len(out) == 0 {
		return tt.Int(c)
	}
	if c != 0 {
		out = append(out, tt.Int(c))
	}
	if len(out) == 1 {
		return out[0]
	}
	return tt.mk("+", SInt, "", 0, out...)
}
func (tt *TermTable) IntLt(a, b *Term) *Term {
	if a.op == "int" && b.op == "int" {
		return tt.Bool(int64(a.n) < int64(b.n))
	}
	return tt.mk("<", SBool, "", 0, a, b)
}
func (tt *TermTable) IntLe(a, b *Term) *Term {
	if a.op == "int" && b.op == "int" {
		return tt.Bool(int64(a.n) <= int64(b.n))
	}
	return tt.mk("<=", SBool, "", 0, a, b)
}
func (tt *TermTable) B2I(b *Term) *Term { return tt.Ite(b, tt.Int(1), tt.Int(0)) }

// Int2BV converts a small non-negative Int term to BV64 (via ite over 0..max).
func (tt *TermTable) Int2BV(a *Term, max int) *Term {
	if a.op == "int" {
		return tt.BV(a.n, 64)
	}
	r := tt.BV(uint64(max), 64)
	for k := max - 1; k >= 0; k-- {
		r = tt.Ite(tt.Eq(a, tt.Int(int64(k))), tt.BV(uint64(k), 64), r)
	}
	return r
}

// ---- arrays (String -> Bool / String)

func (tt *TermTable) ConstArr(sort Sort, v *Term) *Term { return tt.mk("constarr", sort, "", 0, v) }
func (tt *TermTable) Select(a, k *Term) *Term {
	es := SString
	if a.sort == SArrSB {
		es = SBool
	}
	// read-over-write with syntactic/constant keys
	cur := a
	for {
		if cur.op == "store" {
			e := tt.Eq(cur.args[1], k)
			if e.IsTrue() {
				return cur.args[2]
			}
			if e.IsFalse() {
				cur = cur.args[0]
				continue
			}
			break
		}
		if cur.op == "constarr" {
			return cur.args[0]
		}
		break
	}
	return tt.mk("select", es, "", 0, cur, k)
}
func (tt *TermTable) Store(a, k, v *Term) *Term { return tt.mk("store", a.sort, "", 0, a, k, v) }

// ---- uninterpreted functions

func (tt *TermTable) UF(name string, ret Sort, args ...*Term) *Term {
	if _, ok := tt.ufs[name]; !ok {
		d := UFDecl{name: name, ret: ret}
		for _, a := range args {
			d.args = append(d.args, a.sort)
		}
		tt.ufs[name] = d
		tt.ufList = append(tt.ufList, name)
	}
	return tt.mk("uf:"+name, ret, "", 0, args...)
}

// ---- printing

func smtString(s string) string {
	var sb strings.Builder
	sb.WriteByte('"')
	for _, r := range []byte(s) {
		switch {
		case r == '"':
			sb.WriteString(`""`)
		case r == '\\':
			sb.WriteString(`\u{5c}`)
		case r >= 32 && r < 127:
			sb.WriteByte(r)
		default:
			fmt.Fprintf(&sb, `\u{%x}`, r)
		}
	}
	sb.WriteByte('"')
	return sb.String()
}

func (t *Term) leafText() (string, bool) {
	switch t.op {
	case "var":
		return "|" + t.s + "|", true
	case "bv":
		w := t.sort.Width()
		if w%4 == 0 {
			return fmt.Sprintf("#x%0*x", w/4, t.n), true
		}
		return fmt.Sprintf("(_ bv%d %d)", t.n, w), true
	case "bool":
		if t.n == 1 {
			return "true", true
		}
		return "false", true
	case "str":
		return smtString(t.s), true
	case "int":
		v := int64(t.n)
		if v < 0 {
			return fmt.Sprintf("(- %d)", -v), true
		}
		return strconv.FormatInt(v, 10), true
	}
	return "", false
}

// String renders the term fully inline (for diagnostics; may be large).
func (t *Term) String() string {
	if s, ok := t.leafText(); ok {
		return s
	}
	var sb strings.Builder
	t.write(&sb, 0)
	return sb.String()
}

func (t *Term) write(sb *strings.Builder, depth int) {
	if s, ok := t.leafText(); ok {
		sb.WriteString(s)
		return
	}
	if depth > 12 {
		sb.WriteString("...")
		return
	}
	sb.WriteByte('(')
	sb.WriteString(t.opText())
	for _, a := range t.args {
		sb.WriteByte(' ')
		a.write(sb, depth+1)
	}
	sb.WriteByte(')')
}

func (t *Term) opText() string {
	if strings.HasPrefix(t.op, "uf:") {
		return "|" + t.op[3:] + "|"
	}
	if t.op == "constarr" {
		return fmt.Sprintf("(as const %s)", t.sort)
	}
	return t.op
}

// collectVars returns all var leaves reachable from ts, sorted by id.
func collectVars(ts ...*Term) []*Term {
	seen := map[int]bool{}
	var out []*Term
	var rec func(t *Term)
	rec = func(t *Term) {
		if seen[t.id] {
			return
		}
		seen[t.id] = true
		if t.op == "var" {
			out = append(out, t)
		}
		for _, a := range t.args {
			rec(a)
		}
	}
	for _, t := range ts {
		rec(t)
	}
	sort.Slice(out, func(i, j int) bool { return out[i].id < out[j].id })
	return out
}

var _ = big.NewInt

// parseValue reads an SMT-LIB value of the given sort (as printed by get-value).
func (tt *TermTable) parseValue(v string, sort Sort) *Term {
	switch {
	case sort == SBool:
		if v == "true" {
			return tt.Bool(true)
		}
		if v == "false" {
			return tt.Bool(false)
		}
	case sort == SString:
		if strings.HasPrefix(v, "\"") {
			return tt.Str(decodeSMTString(v))
		}
	case sort == SInt:
		v = strings.TrimSpace(strings.Trim(v, "()"))
		neg := false
		if strings.HasPrefix(v, "-") {
			neg = true
			v = strings.TrimSpace(v[1:])
		}
		if n, err := strconv.ParseInt(v, 10, 64); err == nil {
			if neg {
				n = -n
			}
			return tt.Int(n)
		}
	case sort.Width() > 0:
		if strings.HasPrefix(v, "#x") {
			if n, err := strconv.ParseUint(v[2:], 16, 64); err == nil {
				return tt.BV(n, sort.Width())
			}
		}
		if strings.HasPrefix(v, "#b") {
			if n, err := strconv.ParseUint(v[2:], 2, 64); err == nil {
				return tt.BV(n, sort.Width())
			}
		}
	}
	return nil
}
