package main

// bytes.Buffer and json.Encoder with the aliasing that matters for "client data is returned as supplied":
// Buffer.Bytes() returns a slice that shares the buffer's storage. The engine's byte slices are values
// (nil flag + content term), so sharing is modelled at the moment it becomes visible: every slice handed out by
// Bytes() (and slices derived from it) is remembered with its buffer, and when the buffer is reset, truncated or
// written again, the CONTENT OF EVERY REMEMBERED SLICE BECOMES AN ARBITRARY STRING (the bytes were overwritten in
// place; what they are now depends on the later writes). Holders of such a slice - a queued message, a response
// under construction - then fail whatever the harness states about that content.

import (
	"fmt"
	"go/types"

	"golang.org/x/tools/go/ssa"
)

type bufCell struct {
	content    *Term
	aliases    []*BytesV
	n          int
	resetSince bool // reset/truncated since the last write: the next write overwrites the bytes of earlier slices
}

func (c *bufCell) pendingClobber() { c.resetSince = true }

func (ex *Exec) bufOf(v Value) *bufCell {
	p, ok := v.(*PtrV)
	if !ok || p.obj == nil {
		panic(ex.goPanic("nil *bytes.Buffer"))
	}
	if ex.W.bufCells == nil {
		ex.W.bufCells = map[string]*bufCell{}
	}
	k := fmt.Sprintf("%d%v", p.obj.id, p.path)
	c := ex.W.bufCells[k]
	if c == nil {
		c = &bufCell{content: ex.tt.Str("")}
		ex.W.bufCells[k] = c
	}
	return c
}

// clobber: the storage is about to be overwritten; slices that share it no longer hold what they held.
func (ex *Exec) clobber(c *bufCell, grows bool) {
	if len(c.aliases) == 0 {
		return
	}
	ex.H.noteStub("bytes.Buffer: slices obtained from Bytes() share the buffer's storage; after Reset/Truncate/Write their content is arbitrary")
	for _, a := range c.aliases {
		c.n++
		a.s = ex.tt.Var(fmt.Sprintf("overwritten.buffer.bytes.%d", c.n), SString)
	}
	c.aliases = nil
}

func (ex *Exec) bufWrite(c *bufCell, s *Term) {
	// appending to a buffer that was not reset since Bytes() may reallocate or not; in both cases earlier bytes stay,
	// so only a write at or below an alias's extent clobbers it. Aliases are taken of the whole content, so an
	// append leaves them intact unless the buffer was reset in between (clobbered there).
	c.content = ex.tt.Concat(c.content, s)
}

func init() {
	b := "(*bytes.Buffer)."
	intercepts[b+"Reset"] = func(ex *Exec, fr *Frame, a []Value, s ssa.Instruction) Value {
		c := ex.bufOf(a[0])
		// Reset keeps the storage: the next write lands on the bytes earlier slices still point at
		c.content = ex.tt.Str("")
		c.pendingClobber()
		return nil
	}
	intercepts[b+"Truncate"] = func(ex *Exec, fr *Frame, a []Value, s ssa.Instruction) Value {
		c := ex.bufOf(a[0])
		n, ok := a[1].(*Term).BVVal()
		if !ok || n != 0 {
			panic(ex.unsupported("bytes.Buffer.Truncate to a length other than 0"))
		}
		c.content = ex.tt.Str("")
		c.pendingClobber()
		return nil
	}
	write := func(ex *Exec, c *bufCell, s *Term) {
		if c.resetSince {
			ex.clobber(c, false)
			c.resetSince = false
		}
		ex.bufWrite(c, s)
	}
	intercepts[b+"Write"] = func(ex *Exec, fr *Frame, a []Value, s ssa.Instruction) Value {
		c := ex.bufOf(a[0])
		bv := ex.bytesOf(a[1])
		write(ex, c, bv.s)
		return &TupleV{vs: []Value{ex.strLenBV(bv.s), nilErr()}}
	}
	intercepts[b+"WriteString"] = func(ex *Exec, fr *Frame, a []Value, s ssa.Instruction) Value {
		c := ex.bufOf(a[0])
		write(ex, c, a[1].(*Term))
		return &TupleV{vs: []Value{ex.strLenBV(a[1].(*Term)), nilErr()}}
	}
	intercepts[b+"WriteByte"] = func(ex *Exec, fr *Frame, a []Value, s ssa.Instruction) Value {
		c := ex.bufOf(a[0])
		bt := a[1].(*Term)
		if n, ok := bt.BVVal(); ok {
			write(ex, c, ex.tt.Str(string(rune(n))))
		} else {
			write(ex, c, ex.tt.Var("buffer.byte", SString))
		}
		return nilErr()
	}
	intercepts[b+"Bytes"] = func(ex *Exec, fr *Frame, a []Value, s ssa.Instruction) Value {
		c := ex.bufOf(a[0])
		bv := &BytesV{isNil: ex.tt.Bool(false), s: c.content, buf: c}
		c.aliases = append(c.aliases, bv)
		return bv
	}
	intercepts[b+"String"] = func(ex *Exec, fr *Frame, a []Value, s ssa.Instruction) Value {
		if p, ok := a[0].(*PtrV); ok && p.obj == nil {
			return ex.tt.Str("<nil>")
		}
		return ex.bufOf(a[0]).content // a string is a copy
	}
	intercepts[b+"Len"] = func(ex *Exec, fr *Frame, a []Value, s ssa.Instruction) Value {
		return ex.strLenBV(ex.bufOf(a[0]).content)
	}
	intercepts["bytes.NewBuffer"] = func(ex *Exec, fr *Frame, a []Value, s ssa.Instruction) Value {
		t := s.(ssa.Value).Type().(*types.Pointer).Elem()
		p := ex.newStruct(t)
		c := ex.bufOf(p)
		c.content = ex.bytesOf(a[0]).s
		return p
	}
	intercepts["bytes.NewBufferString"] = func(ex *Exec, fr *Frame, a []Value, s ssa.Instruction) Value {
		t := s.(ssa.Value).Type().(*types.Pointer).Elem()
		p := ex.newStruct(t)
		ex.bufOf(p).content = a[0].(*Term)
		return p
	}
	// json.Encoder over a *bytes.Buffer: Encode appends the Marshal encoding and a newline
	intercepts["encoding/json.NewEncoder"] = func(ex *Exec, fr *Frame, a []Value, s ssa.Instruction) Value {
		iv, ok := a[0].(*IfaceV)
		if !ok || iv.typ == nil {
			panic(ex.goPanic("json.NewEncoder(nil)"))
		}
		if typeKey(iv.typ) != "*bytes.Buffer" && iv.typ.String() != "*bytes.Buffer" {
			panic(ex.unsupported("json.NewEncoder over %s", iv.typ))
		}
		return ex.opaquePtr("json.Encoder", ex.bufOf(iv.v))
	}
	intercepts["(*encoding/json.Encoder).SetEscapeHTML"] = func(ex *Exec, fr *Frame, a []Value, s ssa.Instruction) Value { return nil }
	intercepts["(*encoding/json.Encoder).SetIndent"] = func(ex *Exec, fr *Frame, a []Value, s ssa.Instruction) Value {
		panic(ex.unsupported("json.Encoder.SetIndent"))
	}
	intercepts["(*encoding/json.Encoder).Encode"] = func(ex *Exec, fr *Frame, a []Value, s ssa.Instruction) Value {
		c := ex.opaqueOf(a[0], "json.Encoder").data.(*bufCell)
		r := intercepts["encoding/json.Marshal"](ex, fr, []Value{a[1]}, s).(*TupleV)
		if ev, ok := r.vs[1].(*IfaceV); ok && ev.typ != nil {
			return r.vs[1]
		}
		write(ex, c, ex.tt.Concat(r.vs[0].(*BytesV).s, ex.tt.Str("\n")))
		return nilErr()
	}
	// bytes.TrimSuffix / TrimSpace / TrimRight on the tail the encoder adds: the result shares the storage
	trimNL := func(ex *Exec, bv *BytesV, suf string) Value {
		tt := ex.tt
		var out *Term
		if bv.s.op == "str" {
			x := bv.s.s
			if len(x) >= len(suf) && x[len(x)-len(suf):] == suf {
				x = x[:len(x)-len(suf)]
			}
			out = tt.Str(x)
		} else if parts := flattenConcat(bv.s); len(parts) > 0 && parts[len(parts)-1].op == "str" && len(parts[len(parts)-1].s) >= len(suf) &&
			parts[len(parts)-1].s[len(parts[len(parts)-1].s)-len(suf):] == suf {
			last := parts[len(parts)-1].s
			np := append(append([]*Term{}, parts[:len(parts)-1]...), tt.Str(last[:len(last)-len(suf)]))
			out = tt.Concat(np...)
		} else {
			panic(ex.unsupported("bytes.TrimSuffix on a value whose tail is not known"))
		}
		nb := &BytesV{isNil: bv.isNil, s: out, buf: bv.buf}
		if bv.buf != nil {
			bv.buf.aliases = append(bv.buf.aliases, nb)
		}
		return nb
	}
	intercepts["bytes.TrimSuffix"] = func(ex *Exec, fr *Frame, a []Value, s ssa.Instruction) Value {
		suf := ex.bytesOf(a[1])
		if suf.s.op != "str" {
			panic(ex.unsupported("bytes.TrimSuffix with a symbolic suffix"))
		}
		return trimNL(ex, ex.bytesOf(a[0]), suf.s.s)
	}
	intercepts["bytes.TrimRight"] = func(ex *Exec, fr *Frame, a []Value, s ssa.Instruction) Value {
		cut := a[1].(*Term)
		if cut.op != "str" || cut.s != "\n" {
			panic(ex.unsupported("bytes.TrimRight with a cutset other than newline"))
		}
		return trimNL(ex, ex.bytesOf(a[0]), "\n")
	}
}

func flattenConcat(t *Term) []*Term {
	if t.op != "str.++" {
		return []*Term{t}
	}
	var out []*Term
	for _, a := range t.args {
		out = append(out, flattenConcat(a)...)
	}
	return out
}
