package sqlite

// Multi-row reads: the sweep selects (C04/C07/C08/C10/C11) and search with cursors (C14).

import (
	"github.com/resonatehq/resonate/internal/kernel/t_aio"
	"github.com/resonatehq/resonate/internal/vx"
	"github.com/resonatehq/resonate/pkg/promise"
	"github.com/resonatehq/resonate/pkg/task"
)

func vhMin(a, b int64) int64 { return vx.IteInt64(a < b, a, b) }

// VH_R_ReadPromises: the time-out sweep's select returns only pending overdue rows, as many as the limit allows.
func VH_R_ReadPromises() {
	w := vhWorker()
	vx.Havoc()
	s0 := vx.Snap()
	t, limit := vx.Int64("time"), vx.Int("limit")
	vx.Assume(vx.And(limit >= 1, limit <= 3))
	res, ok := vhExec1(w, &t_aio.Command{Kind: t_aio.ReadPromises, ReadPromises: &t_aio.ReadPromisesCommand{Time: t, Limit: limit}})
	if !ok {
		vx.Assert(false, "no-error")
		return
	}
	recs := res.ReadPromises.Records
	var overdue int64
	for i := 0; i < vx.NSlots("promises"); i++ {
		a := vx.Slot(s0, "promises", i)
		overdue += vhB2I(vx.And(a.Present(), a.Int("state") == 1, a.Int("timeout") <= t))
	}
	vx.Assert(vx.And(int64(len(recs)) == vhMin(int64(limit), overdue), res.ReadPromises.RowsReturned == int64(len(recs))), "C11:sweep-selects-min-of-batch-and-overdue")
	for k := range recs {
		row := vx.Lookup(s0, "promises", recs[k].Id)
		vx.Assert(vx.And(row.Present(), row.Int("state") == 1, row.Int("timeout") <= t, int64(recs[k].State) == 1, recs[k].Timeout == row.Int("timeout"),
			recs[k].SortId == row.Int("sort_id"), vx.BytesStr(recs[k].Tags) == row.Str("tags"), vx.BytesEq(recs[k].ParamData, row.Bytes("param_data"))), "C04:sweep-selects-only-pending-overdue")
		for j := k + 1; j < len(recs); j++ {
			vx.Assert(recs[k].Id != recs[j].Id, "C11:no-row-twice")
		}
	}
	vx.Reach("done")
}

// VH_R_ReadTasks: the lease sweep's select.
func VH_R_ReadTasks() {
	w := vhWorker()
	vx.Havoc()
	s0 := vx.Snap()
	t, limit := vx.Int64("time"), vx.Int("limit")
	vx.Assume(vx.And(limit >= 1, limit <= 3))
	res, ok := vhExec1(w, &t_aio.Command{Kind: t_aio.ReadTasks, ReadTasks: &t_aio.ReadTasksCommand{States: []task.State{task.Enqueued, task.Claimed}, Time: t, Limit: limit}})
	if !ok {
		vx.Assert(false, "no-error")
		return
	}
	recs := res.ReadTasks.Records
	var due int64
	for i := 0; i < vx.NSlots("tasks"); i++ {
		a := vx.Slot(s0, "tasks", i)
		due += vhB2I(vx.And(a.Present(), vx.Or(a.Int("state") == 2, a.Int("state") == 4), vx.Or(a.Int("expires_at") <= t, a.Int("timeout") <= t)))
	}
	vx.Assert(vx.And(int64(len(recs)) == vhMin(int64(limit), due), res.ReadTasks.RowsReturned == int64(len(recs))), "C11:sweep-selects-min-of-batch-and-overdue")
	for k := range recs {
		row := vx.Lookup(s0, "tasks", recs[k].Id)
		vx.Assert(vx.And(row.Present(), vx.Or(row.Int("state") == 2, row.Int("state") == 4), vx.Or(row.Int("expires_at") <= t, row.Int("timeout") <= t),
			int64(recs[k].State) == row.Int("state"), int64(recs[k].Counter) == row.Int("counter"), recs[k].Timeout == row.Int("timeout"), recs[k].ExpiresAt == row.Int("expires_at"),
			int64(recs[k].Attempt) == row.Int("attempt")), "C07:sweep-selects-only-expired-leases")
		for j := k + 1; j < len(recs); j++ {
			vx.Assert(recs[k].Id != recs[j].Id, "C11:no-row-twice")
		}
	}
	vx.Reach("done")
}

// VH_R_Enqueueable: the dispatch select.
func VH_R_Enqueueable() {
	w := vhWorker()
	vx.Havoc()
	s0 := vx.Snap()
	limit := vx.Int("limit")
	vx.Assume(vx.And(limit >= 1, limit <= 3))
	res, ok := vhExec1(w, &t_aio.Command{Kind: t_aio.ReadEnqueueableTasks, ReadEnquableTasks: &t_aio.ReadEnqueueableTasksCommand{Time: vx.Int64("time"), Limit: limit}})
	if !ok {
		vx.Assert(false, "no-error")
		return
	}
	recs := res.ReadEnqueueableTasks.Records
	// number of distinct roots that have a dispatchable task
	var roots int64
	for i := 0; i < vx.NSlots("tasks"); i++ {
		a := vx.Slot(s0, "tasks", i)
		ok := vx.And(a.Present(), a.Int("state") == 1)
		first := true
		for j := 0; j < vx.NSlots("tasks"); j++ {
			b := vx.Slot(s0, "tasks", j)
			same := vx.And(b.Present(), b.Str("root_promise_id") == a.Str("root_promise_id"))
			ok = vx.And(ok, vx.Not(vx.And(same, vx.Or(b.Int("state") == 2, b.Int("state") == 4))))
			if j < i {
				first = vx.And(first, vx.Not(vx.And(same, b.Int("state") == 1)))
			}
		}
		roots += vhB2I(vx.And(ok, first))
	}
	vx.Assert(int64(len(recs)) == vhMin(int64(limit), roots), "C11:dispatch-selects-min-of-batch-and-dispatchable-roots")
	for k := range recs {
		row := vx.Lookup(s0, "tasks", recs[k].Id)
		vx.Assert(vx.And(row.Present(), row.Int("state") == 1, int64(recs[k].State) == 1, int64(recs[k].Counter) == row.Int("counter"), recs[k].RootPromiseId == row.Str("root_promise_id"),
			vx.BytesStr(recs[k].Mesg) == row.Str("mesg"), vx.BytesStr(recs[k].Recv) == row.Str("recv"), recs[k].Timeout == row.Int("timeout")), "C08:selects-only-unclaimed-tasks")
		for i := 0; i < vx.NSlots("tasks"); i++ {
			o := vx.Slot(s0, "tasks", i)
			vx.Assert(vx.Not(vx.And(o.Present(), o.Str("root_promise_id") == recs[k].RootPromiseId, vx.Or(o.Int("state") == 2, o.Int("state") == 4))), "C08:none-whose-root-has-enqueued-or-claimed-task")
		}
		for j := k + 1; j < len(recs); j++ {
			vx.Assert(recs[k].RootPromiseId != recs[j].RootPromiseId, "C08:at-most-one-per-root")
		}
	}
	vx.Reach("done")
}

// VH_R_ReadSchedules: the firing sweep's select (ordered by next run time).
func VH_R_ReadSchedules() {
	w := vhWorker()
	vx.Havoc()
	s0 := vx.Snap()
	t, limit := vx.Int64("time"), vx.Int("limit")
	vx.Assume(vx.And(limit >= 1, limit <= 3))
	res, ok := vhExec1(w, &t_aio.Command{Kind: t_aio.ReadSchedules, ReadSchedules: &t_aio.ReadSchedulesCommand{NextRunTime: t, Limit: limit}})
	if !ok {
		vx.Assert(false, "no-error")
		return
	}
	recs := res.ReadSchedules.Records
	var due int64
	for i := 0; i < vx.NSlots("schedules"); i++ {
		a := vx.Slot(s0, "schedules", i)
		due += vhB2I(vx.And(a.Present(), a.Int("next_run_time") <= t))
	}
	vx.Assert(int64(len(recs)) == vhMin(int64(limit), due), "C11:sweep-selects-min-of-batch-and-overdue")
	for k := range recs {
		row := vx.Lookup(s0, "schedules", recs[k].Id)
		vx.Assert(vx.And(row.Present(), row.Int("next_run_time") <= t, recs[k].NextRunTime == row.Int("next_run_time"), recs[k].Cron == row.Str("cron"),
			recs[k].PromiseId == row.Str("promise_id"), recs[k].PromiseTimeout == row.Int("promise_timeout"), vx.BytesStr(recs[k].PromiseTags) == row.Str("promise_tags"),
			vx.BytesEq(recs[k].PromiseParamData, row.Bytes("promise_param_data"))), "C10:selects-only-due-schedules")
		if k+1 < len(recs) {
			vx.Assert(recs[k].NextRunTime <= recs[k+1].NextRunTime, "C10:oldest-occurrence-first")
		}
		// no due schedule that was left out is older than one that was returned
		for i := 0; i < vx.NSlots("schedules"); i++ {
			o := vx.Slot(s0, "schedules", i)
			returned := false
			for j := range recs {
				returned = vx.Or(returned, o.Str("id") == recs[j].Id)
			}
			vx.Assert(vx.Implies(vx.And(o.Present(), o.Int("next_run_time") <= t, !returned), o.Int("next_run_time") >= recs[k].NextRunTime), "C11:no-starvation-oldest-first")
		}
	}
	vx.Reach("done")
}

// ---------------------------------------------------------------- search (C14)

func vhSearchStates(mask int64) []promise.State {
	var out []promise.State
	for _, s := range []promise.State{promise.Pending, promise.Resolved, promise.Rejected, promise.Canceled, promise.Timedout} {
		if mask&int64(s) != 0 {
			out = append(out, s)
		}
	}
	return out
}

func VH_R_SearchPromises() {
	w := vhWorker()
	vx.Havoc()
	s0 := vx.Snap()
	pat := vx.String("pattern")
	vx.Assume(pat != "")
	mask := vx.Int64("mask")
	vx.Assume(vx.And(mask > 0, mask < 32))
	states := vhSearchStates(mask)
	tags := vx.Tags("tags", vx.Opt("ntags", 1))
	limit := vx.Int("limit")
	vx.Assume(vx.And(limit >= 1, limit <= 3))
	cursor := vx.Int64Ptr("sortId")
	res, ok := vhExec1(w, &t_aio.Command{Kind: t_aio.SearchPromises, SearchPromises: &t_aio.SearchPromisesCommand{Id: pat, States: states, Tags: tags, Limit: limit, SortId: cursor}})
	if !ok {
		vx.Reach("error") // postgres: cursor outside 32 bits
		return
	}
	recs := res.SearchPromises.Records
	like := vx.LikePattern(pat)
	matches := func(a vx.Row) bool {
		m := vx.And(a.Present(), vx.Like(a.Str("id"), like), a.Int("state")&mask != 0, vx.Or(cursor == nil, a.Int("sort_id") < vx.Int64PtrVal(cursor)))
		for k, v := range tags {
			m = vx.And(m, vx.MapHas(a.Map("tags"), k), vx.MapGet(a.Map("tags"), k) == v)
		}
		return m
	}
	var total int64
	for i := 0; i < vx.NSlots("promises"); i++ {
		total += vhB2I(matches(vx.Slot(s0, "promises", i)))
	}
	vx.Assert(vx.And(int64(len(recs)) == vhMin(int64(limit), total), res.SearchPromises.RowsReturned == int64(len(recs))), "C14:page-is-min-of-limit-and-matches")
	for k := range recs {
		row := vx.Lookup(s0, "promises", recs[k].Id)
		vx.Assert(vx.And(matches(row), recs[k].SortId == row.Int("sort_id"), int64(recs[k].State) == row.Int("state"), vx.BytesStr(recs[k].Tags) == row.Str("tags")), "C14:returns-only-matching-rows")
		if k+1 < len(recs) {
			vx.Assert(recs[k].SortId > recs[k+1].SortId, "C14:newest-first")
		}
		for i := 0; i < vx.NSlots("promises"); i++ {
			o := vx.Slot(s0, "promises", i)
			returned := false
			for j := range recs {
				returned = vx.Or(returned, o.Str("id") == recs[j].Id)
			}
			vx.Assert(vx.Implies(vx.And(matches(o), !returned), o.Int("sort_id") < recs[k].SortId), "C14:nothing-newer-left-out")
		}
	}
	if len(recs) > 0 {
		vx.Assert(res.SearchPromises.LastSortId == recs[len(recs)-1].SortId, "C14:last-sort-id")
		vx.Reach("nonempty")
	}
	vx.Reach("done")
}

func VH_R_SearchSchedules() {
	w := vhWorker()
	vx.Havoc()
	s0 := vx.Snap()
	pat := vx.String("pattern")
	vx.Assume(pat != "")
	tags := vx.Tags("tags", vx.Opt("ntags", 1))
	limit := vx.Int("limit")
	vx.Assume(vx.And(limit >= 1, limit <= 3))
	cursor := vx.Int64Ptr("sortId")
	res, ok := vhExec1(w, &t_aio.Command{Kind: t_aio.SearchSchedules, SearchSchedules: &t_aio.SearchSchedulesCommand{Id: pat, Tags: tags, Limit: limit, SortId: cursor}})
	if !ok {
		vx.Reach("error")
		return
	}
	recs := res.SearchSchedules.Records
	like := vx.LikePattern(pat)
	matches := func(a vx.Row) bool {
		m := vx.And(a.Present(), vx.Like(a.Str("id"), like), vx.Or(cursor == nil, a.Int("sort_id") < vx.Int64PtrVal(cursor)))
		for k, v := range tags {
			m = vx.And(m, vx.MapHas(a.Map("tags"), k), vx.MapGet(a.Map("tags"), k) == v)
		}
		return m
	}
	var total int64
	for i := 0; i < vx.NSlots("schedules"); i++ {
		total += vhB2I(matches(vx.Slot(s0, "schedules", i)))
	}
	vx.Assert(vx.And(int64(len(recs)) == vhMin(int64(limit), total), res.SearchSchedules.RowsReturned == int64(len(recs))), "C14:page-is-min-of-limit-and-matches")
	for k := range recs {
		row := vx.Lookup(s0, "schedules", recs[k].Id)
		vx.Assert(vx.And(matches(row), recs[k].SortId == row.Int("sort_id"), recs[k].Cron == row.Str("cron"), recs[k].NextRunTime == row.Int("next_run_time")), "C14:returns-only-matching-rows")
		if k+1 < len(recs) {
			vx.Assert(recs[k].SortId > recs[k+1].SortId, "C14:newest-first")
		}
		for i := 0; i < vx.NSlots("schedules"); i++ {
			o := vx.Slot(s0, "schedules", i)
			returned := false
			for j := range recs {
				returned = vx.Or(returned, o.Str("id") == recs[j].Id)
			}
			vx.Assert(vx.Implies(vx.And(matches(o), !returned), o.Int("sort_id") < recs[k].SortId), "C14:nothing-newer-left-out")
		}
	}
	if len(recs) > 0 {
		vx.Assert(res.SearchSchedules.LastSortId == recs[len(recs)-1].SortId, "C14:last-sort-id")
		vx.Reach("nonempty")
	}
	vx.Reach("done")
}

// VH_R_TwoPages: induction step for following a cursor: two consecutive pages with arbitrary
// interference in between are disjoint, ordered, and page 2 misses no row that matched throughout.
func VH_R_TwoPages() {
	w := vhWorker()
	vx.Havoc()
	s0 := vx.Snap()
	pat := vx.String("pattern")
	vx.Assume(pat != "")
	mask := vx.Int64("mask")
	vx.Assume(vx.Or(mask == 1, mask == 30, mask == 31))
	states := vhSearchStates(mask)
	limit := vx.Int("limit")
	vx.Assume(vx.And(limit >= 1, limit <= 2))
	res1, ok := vhExec1(w, &t_aio.Command{Kind: t_aio.SearchPromises, SearchPromises: &t_aio.SearchPromisesCommand{Id: pat, States: states, Tags: map[string]string{}, Limit: limit}})
	if !ok || len(res1.SearchPromises.Records) != limit {
		return
	}
	cursor := res1.SearchPromises.LastSortId
	vx.EnvStep()
	s1 := vx.Snap()
	res2, ok := vhExec1(w, &t_aio.Command{Kind: t_aio.SearchPromises, SearchPromises: &t_aio.SearchPromisesCommand{Id: pat, States: states, Tags: map[string]string{}, Limit: limit, SortId: &cursor}})
	if !ok {
		return
	}
	vx.Reach("two-pages")
	p1, p2 := res1.SearchPromises.Records, res2.SearchPromises.Records
	for i := range p1 {
		for j := range p2 {
			vx.Assert(vx.And(p1[i].Id != p2[j].Id, p1[i].SortId > p2[j].SortId), "C14:pages-disjoint-and-ordered")
		}
	}
	like := vx.LikePattern(pat)
	for k := 0; k < vx.NSlots("promises"); k++ {
		a, b := vx.Slot(s0, "promises", k), vx.Slot(s1, "promises", k)
		throughout := vx.And(a.Present(), b.Present(), vx.Like(a.Str("id"), like), a.Int("state")&mask != 0, b.Int("state")&mask != 0)
		in1, in2 := false, false
		for i := range p1 {
			in1 = vx.Or(in1, p1[i].Id == a.Str("id"))
		}
		for j := range p2 {
			in2 = vx.Or(in2, p2[j].Id == a.Str("id"))
		}
		beyond := false // older than everything page 2 returned while page 2 was full
		if len(p2) == limit {
			beyond = a.Int("sort_id") < p2[len(p2)-1].SortId
		}
		vx.Assert(vx.Implies(throughout, vx.Or(in1, in2, beyond)), "C14:continuously-matching-row-not-skipped")
		vx.Assert(vx.Not(vx.And(in1, in2)), "C14:no-row-twice")
	}
}
