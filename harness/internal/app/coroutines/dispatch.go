package coroutines

// C08: tasks are born with their promise; dispatch is disciplined.

import (
	"github.com/resonatehq/resonate/internal/kernel/system"
	"github.com/resonatehq/resonate/internal/kernel/t_api"
	"github.com/resonatehq/resonate/internal/vx"
)

// VH_D_CreateRouted: a promise is stored together with its invocation task iff the router matched.
func VH_D_CreateRouted() {
	c := vhSetup(vx.HavocMode | vx.Faults(vx.Opt("faults", 1)))
	req := vhCreateReq()
	res, err := CreatePromise(c, &t_api.Request{Kind: t_api.CreatePromise, Tags: map[string]string{}, CreatePromise: req})
	if err != nil || res.CreatePromise.Status != t_api.StatusCreated {
		vx.Reach("not-created")
		return
	}
	vx.Reach("created")
	n := vx.NYields()
	pre, post := vx.YieldPre(n-1), vx.YieldPost(n-1)
	tid := "__invoke:" + req.Id
	t0, t1 := vx.Lookup(pre, "tasks", tid), vx.Lookup(post, "tasks", tid)
	outcome := vx.YieldOutcome(n - 2)
	if outcome == "match" {
		vx.Reach("routed")
		vx.Assert(vx.And(!t0.Present(), t1.Present()), "C08:routed-promise-gets-its-task-in-the-same-step")
		vx.Assert(vx.And(t1.Int("state") == 1, t1.Int("counter") == 1, t1.Int("timeout") == req.Timeout, t1.Str("root_promise_id") == req.Id,
			vx.BytesEq(t1.Bytes("recv"), vx.YieldRecv(n-2)), t1.MesgType() == "invoke", t1.MesgRoot() == req.Id, t1.MesgLeaf() == req.Id, t1.Null("process_id")), "C08:invocation-task-addressed-as-routed")
	} else {
		vx.Reach("unrouted")
		vx.Assert(vx.SameTable(pre, post, "tasks"), "C08:unrouted-promise-gets-no-task")
		// known finding D11: a router *error* (not a non-match) is treated as "unrouted" and the promise is stored without the task
		vx.Assert(outcome != "error", "C08:router-error-must-not-create-an-unrouted-promise")
	}
}

// VH_D_CreateWithTask: create-promise-and-task is refused rather than half-done.
func VH_D_CreateWithTask() {
	c := vhSetup(vx.HavocMode | vx.Faults(vx.Opt("faults", 1)))
	req := vhCreateReq()
	pid, ttl := vx.String("processId"), vx.Int("ttl")
	vx.Assume(vx.And(pid != "", ttl >= 0, ttl < 1<<31))
	r := &t_api.Request{Kind: t_api.CreatePromiseAndTask, Tags: map[string]string{}, CreatePromiseAndTask: &t_api.CreatePromiseAndTaskRequest{Promise: req,
		Task: &t_api.CreateTaskRequest{PromiseId: req.Id, ProcessId: pid, Ttl: ttl, Timeout: req.Timeout}}}
	res, err := CreatePromiseAndTask(c, r)
	n := vx.NYields()
	if err != nil {
		vx.Reach("error")
		// an unroutable request (no match / router error) is refused and leaves no trace
		if n >= 2 && vx.YieldKind(n-1) == "router" && vx.YieldOutcome(n-1) != "match" {
			vx.Reach("refused-unroutable")
			for i := 0; i < n; i++ {
				if vx.YieldKind(i) == "store" {
					vx.Assert(vx.SameDB(vx.YieldPre(i), vx.YieldPost(i)), "C08:create-with-task-refused-leaves-no-trace")
				}
			}
		}
		return
	}
	st := res.CreatePromiseAndTask.Status
	if st != t_api.StatusCreated {
		vx.Reach("exists")
		vx.Assert(res.CreatePromiseAndTask.Task == nil, "C08:no-task-for-existing-promise")
		for i := 0; i < n; i++ {
			if vx.YieldKind(i) == "store" {
				a, b := vx.Lookup(vx.YieldPre(i), "tasks", "__invoke:"+req.Id), vx.Lookup(vx.YieldPost(i), "tasks", "__invoke:"+req.Id)
				vx.Assert(vx.Implies(!a.Present(), !b.Present()), "C03:repeat-creates-no-further-task")
			}
		}
		return
	}
	vx.Reach("created")
	pre, post := vx.YieldPre(n-1), vx.YieldPost(n-1)
	tid := "__invoke:" + req.Id
	t0, t1 := vx.Lookup(pre, "tasks", tid), vx.Lookup(post, "tasks", tid)
	p1 := vx.Lookup(post, "promises", req.Id)
	tc := vx.YieldTime(n - 1)
	vx.Assert(vx.YieldOutcome(n-2) == "match", "C08:create-with-task-only-when-routed")
	vx.Assert(vx.And(!t0.Present(), t1.Present(), p1.Present(), !vx.Lookup(pre, "promises", req.Id).Present()), "C08:promise-and-task-in-one-step")
	vx.Assert(vx.And(t1.Int("state") == 4, t1.Int("counter") == 1, t1.Str("process_id") == pid, t1.Int("ttl") == int64(ttl), t1.Int("timeout") == req.Timeout,
		vx.BytesEq(t1.Bytes("recv"), vx.YieldRecv(n-2)), t1.Str("root_promise_id") == req.Id, t1.MesgType() == "invoke"), "C08:task-claimed-by-creator")
	vx.Assert(t1.Int("expires_at")-int64(ttl) <= tc, "C07:lease-starts-no-later-than-the-write")
	tk := res.CreatePromiseAndTask.Task
	vx.Assert(vx.And(tk.Id == tid, tk.Counter == 1, int64(tk.State) == 4, tk.ExpiresAt == t1.Int("expires_at"), tk.Ttl == ttl), "C08:task-response")
}

// VH_D_Enqueue: one dispatch cycle.
func VH_D_Enqueue() {
	c := vhSetup(vx.HavocMode | vx.Faults(vx.Opt("faults", 0)))
	cfg, _ := c.Get("config").(*system.Config)
	_, err := EnqueueTasks(cfg, map[string]string{})(c)
	vx.Assert(err == nil, "C11:sweep-returns")
	n := vx.NYields()
	if n < 1 || vx.YieldFault(0) != "" {
		return
	}
	read := vx.YieldPost(0)
	// every hand-off names a task that was Init with that counter when selected, whose root had no enqueued/claimed sibling
	var last int = -1
	for i := 1; i < n; i++ {
		if vx.YieldKind(i) == "store" {
			last = i
		}
		if vx.YieldKind(i) != "sender" {
			continue
		}
		vx.Reach("hand-off")
		s := vx.YieldSub(i).Sender
		row := vx.Lookup(read, "tasks", s.Task.Id)
		vx.Assert(vx.And(row.Present(), row.Int("state") == 1, int64(s.Task.Counter) == row.Int("counter")), "C08:dispatches-only-unclaimed-tasks-with-current-counter")
		url := cfg.Url
		cnt := vx.Itoa(int64(s.Task.Counter))
		vx.Assert(vx.And(s.ClaimHref == url+"/tasks/claim/"+s.Task.Id+"/"+cnt, s.CompleteHref == url+"/tasks/complete/"+s.Task.Id+"/"+cnt,
			s.HeartbeatHref == url+"/tasks/heartbeat/"+s.Task.Id+"/"+cnt), "C08:message-names-task-id-and-counter")
		// the promise that travels with the hand-off (the notification's payload) is the task's own root promise as
		// stored when this cycle read it (second store round trip), or absent when the root is not stored
		// (the state of the latest store round trip before the hand-off: the cycle's promise read)
		pr := 0
		for j := 1; j < i; j++ {
			if vx.YieldKind(j) == "store" {
				pr = j
			}
		}
		if vx.YieldFault(pr) == "" {
			prow := vx.Lookup(vx.YieldPost(pr), "promises", row.Str("root_promise_id"))
			if s.Promise == nil {
				vx.Assert(!prow.Present(), "C19:notification-carries-the-stored-root-promise")
			} else {
				vx.Assert(vx.And(prow.Present(), s.Promise.Id == row.Str("root_promise_id"), vhBodyIsRow(s.Promise, prow)), "C19:notification-carries-the-stored-root-promise")
			}
		}
		vx.Assert(vx.And(s.Task.RootPromiseId == row.Str("root_promise_id"), s.Task.Timeout == row.Int("timeout"), vx.BytesEq(s.Task.Recv, row.Bytes("recv"))), "C19:message-carries-the-stored-task")
		for k := 0; k < vx.NSlots("tasks"); k++ {
			o := vx.Slot(read, "tasks", k)
			vx.Assert(vx.Not(vx.And(o.Present(), o.Str("root_promise_id") == row.Str("root_promise_id"), vx.Or(o.Int("state") == 2, o.Int("state") == 4))), "C08:no-dispatch-while-sibling-enqueued-or-claimed")
		}
		for j := i + 1; j < n; j++ {
			if vx.YieldKind(j) == "sender" {
				o := vx.Lookup(read, "tasks", vx.YieldSub(j).Sender.Task.Id)
				vx.Assert(o.Str("root_promise_id") != row.Str("root_promise_id"), "C08:at-most-one-task-per-root")
			}
		}
	}
	if last < 0 || vx.YieldFault(last) == "before" || last < 2 {
		return
	}
	vx.Reach("final-write")
	pre, post := vx.YieldPre(last), vx.YieldPost(last)
	for k := 0; k < vx.NSlots("tasks"); k++ {
		a, b := vx.Slot(pre, "tasks", k), vx.Slot(post, "tasks", k)
		r := vx.Slot(read, "tasks", k)
		changed := vx.Not(vx.SameRow(a, b))
		vx.Assert(vx.Implies(changed, vx.And(a.Present(), a.Int("state") == 1, r.Present(), r.Int("state") == 1, a.Int("counter") == r.Int("counter"), b.Int("counter") == a.Int("counter"))), "C08:writes-only-unchanged-init-tasks")
		// find this row's hand-off outcome
		sent, ok, isNotify := false, false, r.MesgType() == "notify"
		for i := 1; i < last; i++ {
			if vx.YieldKind(i) == "sender" {
				mine := vx.YieldSub(i).Sender.Task.Id == r.Str("id")
				sent = vx.Or(sent, mine)
				ok = vx.Or(ok, vx.And(mine, vx.YieldOutcome(i) == "success"))
			}
		}
		vx.Assert(vx.Implies(vx.And(changed, b.Int("state") == 2), vx.And(sent, ok, !isNotify)), "C08:enqueued-only-after-successful-hand-off")
		vx.Assert(vx.Implies(vx.And(changed, sent, !ok, !isNotify), vx.And(b.Int("state") == 1, b.Int("attempt") == r.Int("attempt")+1)), "C08:failed-hand-off-is-retried")
		vx.Assert(vx.Implies(vx.And(changed, sent, isNotify), b.Int("state") == 8), "C08:notification-finished-after-first-attempt")
		vx.Assert(vx.Implies(vx.And(changed, !sent), vx.And(b.Int("state") == 16, r.Int("timeout") <= vx.YieldTime(last))), "C08:overdue-task-timed-out-without-hand-off")
	}
}
