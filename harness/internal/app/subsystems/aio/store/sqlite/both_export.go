package sqlite

import "database/sql"

// VXWorker gives harnesses in other packages a store worker over the symbolic database.
func VXWorker(db *sql.DB) *SqliteStoreWorker {
	return &SqliteStoreWorker{config: &Config{}, db: db}
}
