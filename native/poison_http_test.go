// target: internal/app/plugins/http
package http

import "testing"

// D17: a physical receiver {"type":"http","data":null} decodes to a nil *Data.
func TestVN_D17_HttpNullData(t *testing.T) {
	w := &HttpWorker{}
	defer func() {
		if r := recover(); r != nil {
			t.Fatalf("http worker panicked on data null: %v", r)
		}
	}()
	if ok, err := w.Process([]byte("null"), []byte("{}")); ok || err == nil {
		t.Fatalf("expected a failed delivery, got ok=%v err=%v", ok, err)
	}
}
