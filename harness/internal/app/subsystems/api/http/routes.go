package http

// C20 / C13: the preconditions of the gin contract stub, checked on the real server construction:
// ids travel in catch-all path parameters and the engine is configured so that gin hands path
// parameters to the handlers decoded with path (not query) semantics.

import (
	"github.com/gin-gonic/gin"
	"github.com/resonatehq/resonate/internal/vx"
)

func VH_H_Routes() {
	sub, err := New(&vhKernel{}, &Config{Addr: ":0"})
	vx.Assert(err == nil && sub != nil, "C20:http-server-constructs")
	h := sub.(*Http)
	e, ok := h.server.Handler.(*gin.Engine)
	vx.Assert(ok && e != nil, "C20:http-handler-is-the-gin-engine")
	// gin v1.10 decodes path parameters with url.QueryUnescape ('+' becomes ' ') exactly when it routes
	// on the raw path and unescapes the values itself
	vx.Assert(!(e.UseRawPath && e.UnescapePathValues), "C20:path-ids-not-decoded-with-query-semantics")
	vx.Assert(!e.RemoveExtraSlash, "C20:path-ids-keep-repeated-slashes")
	// promise and schedule ids may contain slashes: they must travel in a catch-all parameter named id
	// (extractId strips the leading slash gin keeps); task ids in links are single segments
	want := map[string]bool{"GET /promises/*id": false, "PATCH /promises/*id": false, "GET /schedules/*id": false, "DELETE /schedules/*id": false}
	n := 0
	for _, r := range e.Routes() {
		n++
		k := r.Method + " " + r.Path
		if _, ok := want[k]; ok {
			want[k] = true
		}
	}
	vx.Assert(n >= 4, "C20:routes-registered")
	vx.Assert(want["GET /promises/*id"] && want["PATCH /promises/*id"], "C20:promise-ids-travel-in-a-catch-all-parameter")
	vx.Assert(want["GET /schedules/*id"] && want["DELETE /schedules/*id"], "C20:schedule-ids-travel-in-a-catch-all-parameter")
}
