package aio

import (
	"errors"
	"fmt"
	"sort"
	"strconv"
	"strings"
	"sync"
	"sync/atomic"
	"time"

	"github.com/resonatehq/resonate/internal/vx"
)

type vhE struct{ code int }

func (e *vhE) Error() string { return "e" }

func VH_Probe_Mutex() {
	var mu sync.Mutex
	mu.Lock()
	x := vx.Int("x")
	mu.Unlock()
	var rw sync.RWMutex
	rw.RLock()
	rw.RUnlock()
	rw.Lock()
	defer rw.Unlock()
	vx.Assert(x == x, "p")
}
func VH_Probe_Once() {
	var o sync.Once
	n := 0
	o.Do(func() { n++ })
	o.Do(func() { n++ })
	vx.Assert(n == 1, "p")
}
func VH_Probe_Pool() {
	p := sync.Pool{New: func() any { return new(int) }}
	v := p.Get().(*int)
	*v = 3
	p.Put(v)
	w := p.Get().(*int)
	vx.Assert(w != nil, "p")
}
func VH_Probe_Atomic() {
	var n int64
	atomic.AddInt64(&n, 2)
	vx.Assert(atomic.LoadInt64(&n) == 2, "p")
	var a atomic.Int64
	a.Add(3)
	a.Store(a.Load() + 1)
	vx.Assert(a.Load() == 4, "p")
	var b atomic.Bool
	b.Store(true)
	vx.Assert(b.Load(), "p")
}
func VH_Probe_Builder() {
	var sb strings.Builder
	sb.WriteString(vx.String("a"))
	sb.WriteByte(':')
	sb.WriteString("x")
	vx.Assert(strings.HasSuffix(sb.String(), ":x"), "p")
}
func VH_Probe_Strconv() {
	n := vx.Int("n")
	s := strconv.Itoa(n)
	m, err := strconv.Atoi(s)
	vx.Assert(err == nil && m == n, "p")
	q := strconv.FormatInt(int64(n), 10)
	vx.Assert(q == s, "p2")
	_, err = strconv.ParseInt(vx.String("s"), 10, 64)
	_ = err
}
func VH_Probe_Strings() {
	s := vx.String("s")
	_ = strings.ToUpper(s)
	_ = strings.ToLower(s)
	_ = strings.TrimSpace(s)
	_ = strings.Fields(s)
	_ = strings.Repeat("a", 3)
	_ = strings.Title("x")
	_, _, _ = strings.Cut(s, ":")
	_ = strings.SplitN(s, ":", 2)
	_ = strings.Count(s, "a")
	_ = strings.ContainsAny(s, "ab")
	_ = strings.ContainsRune(s, 'a')
	_ = strings.IndexByte(s, 'a')
	_ = strings.TrimLeft(s, "/")
	_ = strings.TrimRight(s, "/")
	_ = strings.TrimFunc(s, func(r rune) bool { return r == ' ' })
	_ = strings.Compare(s, "a")
	vx.Assert(true, "p")
}
func VH_Probe_Errors() {
	var e error = &vhE{code: 1}
	w := fmt.Errorf("wrap: %w", e)
	var t *vhE
	vx.Assert(errors.As(w, &t) && t.code == 1, "p")
	vx.Assert(errors.Is(w, e), "p2")
	vx.Assert(errors.Unwrap(w) == e, "p3")
}
func VH_Probe_Time() {
	t0 := time.Now()
	d := time.Since(t0)
	_ = d
	_ = t0.UnixMilli()
	_ = time.Duration(vx.Int64("d")) * time.Millisecond
	t1 := time.UnixMilli(vx.Int64("ms"))
	_ = t1
	vx.Assert(true, "p")
}
func VH_Probe_Sort() {
	xs := []int{vx.Int("a"), vx.Int("b"), vx.Int("c")}
	sort.Ints(xs)
	vx.Assert(xs[0] <= xs[1] && xs[1] <= xs[2], "p")
	ss := []string{"b", "a"}
	sort.Strings(ss)
	vx.Assert(ss[0] == "a", "p2")
}
func VH_Probe_Builtins() {
	a, b := vx.Int("a"), vx.Int("b")
	vx.Assert(min(a, b) <= max(a, b), "p")
	m := map[string]int{"a": 1}
	clear(m)
	vx.Assert(len(m) == 0, "p2")
	xs := []int{1, 2, 3}
	xs = append(xs[:1], xs[2:]...)
	vx.Assert(len(xs) == 2 && xs[1] == 3, "p3")
	ys := make([]int, 2)
	n := copy(ys, xs)
	vx.Assert(n == 2 && ys[1] == 3, "p4")
}
func VH_Probe_Sprintf() {
	s := fmt.Sprintf("%s/%d/%v/%q", vx.String("s"), vx.Int("n"), vx.Bool("b"), "q")
	_ = s
	f := vx.String("f")
	_ = fmt.Sprint(f, 1)
	_ = fmt.Sprintf("%08d", vx.Int("n"))
	_ = fmt.Sprintf("%x", vx.Int("n"))
	vx.Assert(true, "p")
}
func VH_Probe_Closures() {
	fs := []func() int{}
	for i := 0; i < 3; i++ {
		fs = append(fs, func() int { return i })
	}
	vx.Assert(fs[0]() == 0 && fs[2]() == 2, "p")
	defer func() {
		r := recover()
		vx.Assert(r != nil, "p2")
	}()
	panic("x")
}
func VH_Probe_Generic() {
	vx.Assert(vhMax(vx.Int("a"), 3) >= 3, "p")
	type pair[T any] struct{ a, b T }
	p := pair[string]{"x", "y"}
	vx.Assert(p.a == "x", "p2")
}
func vhMax[T int | int64](a, b T) T {
	if a > b {
		return a
	}
	return b
}
func VH_Probe_Switch() {
	var x any = vx.Int("a")
	switch v := x.(type) {
	case int:
		vx.Assert(v == v, "p")
	case string:
		vx.Assert(false, "p2")
	}
	s := vx.String("s")
	switch s {
	case "a", "b":
		vx.Reach("ab")
	default:
		vx.Reach("other")
	}
	for i, r := range "héllo" {
		_ = i
		_ = r
	}
	bs := []byte(s)
	_ = len(bs)
	_ = string(bs)
}
func VH_Probe_Chan() {
	ch := make(chan int, 2)
	ch <- 1
	ch <- 2
	close(ch)
	n := 0
	for v := range ch {
		n += v
	}
	vx.Assert(n == 3, "p")
	done := make(chan struct{})
	close(done)
	select {
	case <-done:
		vx.Reach("closed")
	default:
		vx.Assert(false, "p2")
	}
	var wg sync.WaitGroup
	wg.Add(1)
	wg.Done()
	wg.Wait()
}
