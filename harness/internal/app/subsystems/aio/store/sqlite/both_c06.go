package sqlite

// C06 / C16: Execute is all-or-nothing. A failure injected at ANY database/sql call
// (BeginTx, Prepare, Exec, RowsAffected, Query, Scan, Commit) of a multi-transaction batch
// leaves the database exactly as it was and is reported as an error; a result is returned only
// if the commit succeeded; store.Process hands every submission of the batch that error.

import (
	"github.com/resonatehq/resonate/internal/app/subsystems/aio/store"
	"github.com/resonatehq/resonate/internal/kernel/bus"
	"github.com/resonatehq/resonate/internal/kernel/t_aio"
	"github.com/resonatehq/resonate/internal/vx"
	"github.com/resonatehq/resonate/pkg/promise"
)

func vhBatch() []*t_aio.Transaction {
	id := vx.String("id")
	t := vx.Int64("time")
	complete := &t_aio.Transaction{Commands: []*t_aio.Command{
		{Kind: t_aio.UpdatePromise, UpdatePromise: &t_aio.UpdatePromiseCommand{Id: id, State: promise.Resolved, Value: promise.Value{Headers: map[string]string{}, Data: []byte{}}, CompletedOn: t}},
		{Kind: t_aio.CompleteTasks, CompleteTasks: &t_aio.CompleteTasksCommand{RootPromiseId: id, CompletedOn: t}},
		{Kind: t_aio.CreateTasks, CreateTasks: &t_aio.CreateTasksCommand{PromiseId: id, CreatedOn: t}},
		{Kind: t_aio.DeleteCallbacks, DeleteCallbacks: &t_aio.DeleteCallbacksCommand{PromiseId: id}},
	}}
	other := &t_aio.Transaction{Commands: []*t_aio.Command{
		{Kind: t_aio.ReadPromise, ReadPromise: &t_aio.ReadPromiseCommand{Id: vx.String("id2")}},
		{Kind: t_aio.AcquireLock, AcquireLock: &t_aio.AcquireLockCommand{ResourceId: vx.String("rid"), ExecutionId: vx.String("eid"), ProcessId: vx.String("pid"), Ttl: 1, ExpiresAt: t}},
	}}
	return []*t_aio.Transaction{complete, other}
}

func VH_C06_ExecuteAtomic() {
	w := vhWorker()
	vx.Havoc()
	s0 := vx.Snap()
	vx.SqlFaults(1)
	res, err := w.Execute(vhBatch())
	s1 := vx.Snap()
	opened, committed, rolled := vx.TxStats()
	if err != nil {
		vx.Reach("failed")
		vx.Assert(res == nil, "C06:no-result-with-an-error")
		vx.Assert(vx.SameDB(s0, s1), "C06:failed-batch-leaves-no-trace")
		vx.Assert(committed == 0, "C06:failed-batch-not-committed")
		return
	}
	vx.Reach("committed")
	vx.Assert(vx.FaultsTaken() == 0, "C06:acknowledged-only-if-every-call-succeeded")
	vx.Assert(opened == 1 && committed == 1 && rolled == 0, "C06:one-transaction-committed")
	vx.Assert(len(res) == 2 && len(res[0]) == 4 && len(res[1]) == 2, "C16:one-result-per-command-in-order")
	vx.Assert(res[0][0].Kind == t_aio.UpdatePromise && res[0][3].Kind == t_aio.DeleteCallbacks && res[1][0].Kind == t_aio.ReadPromise && res[1][1].Kind == t_aio.AcquireLock, "C16:results-in-submission-order")
}

// VH_C06_ProcessError: store.Process answers every submission of a failed batch with the error,
// and with its own results (index aligned) otherwise.
func VH_C06_ProcessError() {
	w := vhWorker()
	vx.Havoc()
	s0 := vx.Snap()
	vx.SqlFaults(1)
	b := vhBatch()
	var c0, c1 int
	sqes := []*bus.SQE[t_aio.Submission, t_aio.Completion]{
		{Id: "a", Submission: &t_aio.Submission{Kind: t_aio.Store, Tags: map[string]string{"k": "a"}, Store: &t_aio.StoreSubmission{Transaction: b[0]}}, Callback: func(*t_aio.Completion, error) { c0++ }},
		{Id: "b", Submission: &t_aio.Submission{Kind: t_aio.Store, Tags: map[string]string{"k": "b"}, Store: &t_aio.StoreSubmission{Transaction: b[1]}}, Callback: func(*t_aio.Completion, error) { c1++ }},
	}
	cqes := store.Process(w, sqes)
	s1 := vx.Snap()
	vx.Assert(len(cqes) == 2 && cqes[0].Id == "a" && cqes[1].Id == "b", "C12:one-completion-per-submission-aligned")
	cqes[0].Callback(cqes[0].Completion, cqes[0].Error)
	cqes[1].Callback(cqes[1].Completion, cqes[1].Error)
	vx.Assert(c0 == 1 && c1 == 1, "C12:each-completion-carries-its-own-callback")
	if cqes[0].Error != nil || cqes[1].Error != nil {
		vx.Reach("failed")
		vx.Assert(cqes[0].Error != nil && cqes[1].Error != nil && cqes[0].Completion == nil && cqes[1].Completion == nil, "C16:failing-command-fails-every-submission-of-the-batch")
		vx.Assert(vx.SameDB(s0, s1), "C06:failed-batch-leaves-no-trace")
		return
	}
	vx.Reach("committed")
	vx.Assert(vx.FaultsTaken() == 0, "C06:acknowledged-only-if-every-call-succeeded")
	vx.Assert(cqes[0].Error == nil && cqes[1].Error == nil && len(cqes[0].Completion.Store.Results) == 4 && len(cqes[1].Completion.Store.Results) == 2, "C16:each-submission-gets-its-own-results")
	vx.Assert(cqes[0].Completion.Tags["k"] == "a" && cqes[1].Completion.Tags["k"] == "b", "C12:completion-carries-the-submissions-tags")
}
