package coroutines

// C17: translation validation. For every store command kind the two real handlers
// (sqlite, postgres) run on the SAME symbolic database and the SAME symbolic command;
// they must agree on error/no-error, on the result and on the database they leave.

import (
	"github.com/resonatehq/resonate/internal/app/subsystems/aio/store/postgres"
	"github.com/resonatehq/resonate/internal/app/subsystems/aio/store/sqlite"
	"github.com/resonatehq/resonate/internal/kernel/t_aio"
	"github.com/resonatehq/resonate/internal/vx"
	"github.com/resonatehq/resonate/pkg/idempotency"
	"github.com/resonatehq/resonate/pkg/message"
	"github.com/resonatehq/resonate/pkg/promise"
	"github.com/resonatehq/resonate/pkg/task"
)

type vhExecer interface {
	Execute([]*t_aio.Transaction) ([][]*t_aio.Result, error)
}

func vhRun(w vhExecer, cmd *t_aio.Command) (*t_aio.Result, bool) {
	res, err := w.Execute([]*t_aio.Transaction{{Commands: []*t_aio.Command{cmd}}})
	if err != nil {
		return nil, false
	}
	return res[0][0], true
}

// vhEquiv runs cmd on both backends from the same state.
func vhEquiv(cmd *t_aio.Command) (r1, r2 *t_aio.Result, ok bool) {
	db := vx.DB("postgres") // the Postgres schema carries the column widths; SQLite ignores them
	sq, pg := sqlite.VXWorker(db), postgres.VXWorker(db)
	vx.Havoc()
	s0 := vx.Snap()
	vx.SetDialect("sqlite")
	r1, ok1 := vhRun(sq, cmd)
	s1 := vx.Snap()
	vx.Restore(s0)
	vx.SetDialect("postgres")
	r2, ok2 := vhRun(pg, cmd)
	s2 := vx.Snap()
	vx.Assert(ok1 == ok2, "C17:same-error-or-success")
	if !ok1 || !ok2 {
		vx.Reach("error")
		return nil, nil, false
	}
	vx.Reach("both-ok")
	vx.Assert(vx.SameDB(s1, s2), "C17:same-database-afterwards")
	vx.Assert(r1.Kind == r2.Kind, "C17:same-result-kind")
	return r1, r2, true
}

func vhSameP(a, b *t_aio.QueryPromisesResult) bool {
	ok := vx.And(a.RowsReturned == b.RowsReturned, a.LastSortId == b.LastSortId, len(a.Records) == len(b.Records))
	if len(a.Records) != len(b.Records) {
		return false
	}
	for i := range a.Records {
		x, y := a.Records[i], b.Records[i]
		ok = vx.And(ok, x.Id == y.Id, x.State == y.State, x.Timeout == y.Timeout, x.SortId == y.SortId, vx.BytesEq(x.ParamData, y.ParamData), vx.BytesEq(x.ValueData, y.ValueData),
			vx.BytesStr(x.Tags) == vx.BytesStr(y.Tags), vx.BytesStr(x.ParamHeaders) == vx.BytesStr(y.ParamHeaders), vx.Int64PtrEq(x.CompletedOn, y.CompletedOn), vx.Int64PtrEq(x.CreatedOn, y.CreatedOn),
			vx.StrPtrEq((*string)(x.IdempotencyKeyForCreate), (*string)(y.IdempotencyKeyForCreate)), vx.StrPtrEq((*string)(x.IdempotencyKeyForComplete), (*string)(y.IdempotencyKeyForComplete)))
	}
	return ok
}

func vhSameT(a, b *t_aio.QueryTasksResult) bool {
	ok := vx.And(a.RowsReturned == b.RowsReturned, len(a.Records) == len(b.Records))
	if len(a.Records) != len(b.Records) {
		return false
	}
	for i := range a.Records {
		x, y := a.Records[i], b.Records[i]
		ok = vx.And(ok, x.Id == y.Id, x.State == y.State, x.Counter == y.Counter, x.Attempt == y.Attempt, x.Ttl == y.Ttl, x.ExpiresAt == y.ExpiresAt, x.Timeout == y.Timeout,
			x.RootPromiseId == y.RootPromiseId, vx.BytesEq(x.Recv, y.Recv), vx.BytesEq(x.Mesg, y.Mesg), vx.StrPtrEq(x.ProcessId, y.ProcessId), vx.Int64PtrEq(x.CompletedOn, y.CompletedOn))
	}
	return ok
}

func vhSameS(a, b *t_aio.QuerySchedulesResult) bool {
	ok := vx.And(a.RowsReturned == b.RowsReturned, a.LastSortId == b.LastSortId, len(a.Records) == len(b.Records))
	if len(a.Records) != len(b.Records) {
		return false
	}
	for i := range a.Records {
		x, y := a.Records[i], b.Records[i]
		ok = vx.And(ok, x.Id == y.Id, x.Cron == y.Cron, x.NextRunTime == y.NextRunTime, x.SortId == y.SortId, x.PromiseId == y.PromiseId, x.PromiseTimeout == y.PromiseTimeout,
			vx.Int64PtrEq(x.LastRunTime, y.LastRunTime), vx.BytesStr(x.Tags) == vx.BytesStr(y.Tags), vx.BytesStr(x.PromiseTags) == vx.BytesStr(y.PromiseTags))
	}
	return ok
}

func vhMesg() *message.Mesg {
	return &message.Mesg{Type: message.Type(vx.String("mtype")), Root: vx.String("root"), Leaf: vx.String("leaf")}
}

func vhNonNilBytes(n string) []byte {
	b := vx.Bytes(n)
	vx.Assume(!vx.BytesNil(b))
	return b
}

// vhCursor: a cursor position; sort ids are SERIAL (32 bit) in Postgres, so real cursors are in that range.
func vhCursor() *int64 {
	p := vx.Int64Ptr("sortId")
	vx.Assume(vx.Or(p == nil, vx.And(vx.Int64PtrVal(p) >= 0, vx.Int64PtrVal(p) < 1<<31)))
	return p
}

func vhLimit() int {
	l := vx.Int("limit")
	vx.Assume(vx.And(l >= 1, l <= 2))
	return l
}

func VH_E_ReadPromise() {
	if a, b, ok := vhEquiv(&t_aio.Command{Kind: t_aio.ReadPromise, ReadPromise: &t_aio.ReadPromiseCommand{Id: vx.String("id")}}); ok {
		vx.Assert(vhSameP(a.ReadPromise, b.ReadPromise), "C17:same-result")
	}
}

func VH_E_ReadPromises() {
	if a, b, ok := vhEquiv(&t_aio.Command{Kind: t_aio.ReadPromises, ReadPromises: &t_aio.ReadPromisesCommand{Time: vx.Int64("time"), Limit: 3}}); ok {
		// without ORDER BY the engines may return the rows in any order: compare as sets through the row count
		vx.Assert(a.ReadPromises.RowsReturned == b.ReadPromises.RowsReturned, "C17:same-result")
	}
}

func VH_E_SearchPromises() {
	pat := vx.String("pattern")
	vx.Assume(pat != "")
	cmd := &t_aio.SearchPromisesCommand{Id: pat, States: []promise.State{promise.Pending, promise.Timedout}, Tags: vx.Tags("tags", vx.Opt("ntags", 1)), Limit: vhLimit(), SortId: vhCursor()}
	if a, b, ok := vhEquiv(&t_aio.Command{Kind: t_aio.SearchPromises, SearchPromises: cmd}); ok {
		vx.Assert(vhSameP(a.SearchPromises, b.SearchPromises), "C17:same-result")
	}
}

func VH_E_CreatePromise() {
	cmd := &t_aio.CreatePromiseCommand{Id: vx.String("id"), Param: promise.Value{Headers: vx.Tags("phdr", 1), Data: vhNonNilBytes("pdata")}, Timeout: vx.Int64("timeout"),
		IdempotencyKey: (*idempotency.Key)(vx.StringPtr("ikey")), Tags: vx.Tags("tags", 1), CreatedOn: vx.Int64("createdOn")}
	if a, b, ok := vhEquiv(&t_aio.Command{Kind: t_aio.CreatePromise, CreatePromise: cmd}); ok {
		vx.Assert(a.CreatePromise.RowsAffected == b.CreatePromise.RowsAffected, "C17:same-result")
	}
}

func VH_E_UpdatePromise() {
	state := vx.Int64("state")
	vx.Assume(vx.Or(state == 2, state == 4, state == 8, state == 16))
	cmd := &t_aio.UpdatePromiseCommand{Id: vx.String("id"), State: promise.State(state), Value: promise.Value{Headers: vx.Tags("vhdr", 1), Data: vhNonNilBytes("vdata")},
		IdempotencyKey: (*idempotency.Key)(vx.StringPtr("ikey")), CompletedOn: vx.Int64("completedOn")}
	if a, b, ok := vhEquiv(&t_aio.Command{Kind: t_aio.UpdatePromise, UpdatePromise: cmd}); ok {
		vx.Assert(a.UpdatePromise.RowsAffected == b.UpdatePromise.RowsAffected, "C17:same-result")
	}
}

func VH_E_CreateCallback() {
	cmd := &t_aio.CreateCallbackCommand{Id: vx.String("id"), PromiseId: vx.String("promiseId"), Recv: vhNonNilBytes("recv"), Mesg: vhMesg(), Timeout: vx.Int64("timeout"), CreatedOn: vx.Int64("createdOn")}
	if a, b, ok := vhEquiv(&t_aio.Command{Kind: t_aio.CreateCallback, CreateCallback: cmd}); ok {
		vx.Assert(a.CreateCallback.RowsAffected == b.CreateCallback.RowsAffected, "C17:same-result")
	}
}

func VH_E_DeleteCallbacks() {
	if a, b, ok := vhEquiv(&t_aio.Command{Kind: t_aio.DeleteCallbacks, DeleteCallbacks: &t_aio.DeleteCallbacksCommand{PromiseId: vx.String("promiseId")}}); ok {
		vx.Assert(a.DeleteCallbacks.RowsAffected == b.DeleteCallbacks.RowsAffected, "C17:same-result")
	}
}

func VH_E_ReadSchedule() {
	if a, b, ok := vhEquiv(&t_aio.Command{Kind: t_aio.ReadSchedule, ReadSchedule: &t_aio.ReadScheduleCommand{Id: vx.String("id")}}); ok {
		vx.Assert(vhSameS(a.ReadSchedule, b.ReadSchedule), "C17:same-result")
	}
}

func VH_E_ReadSchedules() {
	if a, b, ok := vhEquiv(&t_aio.Command{Kind: t_aio.ReadSchedules, ReadSchedules: &t_aio.ReadSchedulesCommand{NextRunTime: vx.Int64("time"), Limit: vhLimit()}}); ok {
		vx.Assert(a.ReadSchedules.RowsReturned == b.ReadSchedules.RowsReturned, "C17:same-result")
	}
}

func VH_E_SearchSchedules() {
	pat := vx.String("pattern")
	vx.Assume(pat != "")
	cmd := &t_aio.SearchSchedulesCommand{Id: pat, Tags: vx.Tags("tags", vx.Opt("ntags", 1)), Limit: vhLimit(), SortId: vhCursor()}
	if a, b, ok := vhEquiv(&t_aio.Command{Kind: t_aio.SearchSchedules, SearchSchedules: cmd}); ok {
		vx.Assert(vhSameS(a.SearchSchedules, b.SearchSchedules), "C17:same-result")
	}
}

func VH_E_CreateSchedule() {
	cmd := &t_aio.CreateScheduleCommand{Id: vx.String("id"), Description: vx.String("desc"), Cron: vx.String("cron"), Tags: vx.Tags("tags", 1), PromiseId: vx.String("promiseId"),
		PromiseTimeout: vx.Int64("ptimeout"), PromiseParam: promise.Value{Headers: vx.Tags("phdr", 1), Data: vhNonNilBytes("pdata")}, PromiseTags: vx.Tags("ptags", 1),
		NextRunTime: vx.Int64("next"), IdempotencyKey: (*idempotency.Key)(vx.StringPtr("ikey")), CreatedOn: vx.Int64("createdOn")}
	if a, b, ok := vhEquiv(&t_aio.Command{Kind: t_aio.CreateSchedule, CreateSchedule: cmd}); ok {
		vx.Assert(a.CreateSchedule.RowsAffected == b.CreateSchedule.RowsAffected, "C17:same-result")
	}
}

func VH_E_UpdateSchedule() {
	cmd := &t_aio.UpdateScheduleCommand{Id: vx.String("id"), LastRunTime: vx.Int64Ptr("last"), NextRunTime: vx.Int64("next")}
	if a, b, ok := vhEquiv(&t_aio.Command{Kind: t_aio.UpdateSchedule, UpdateSchedule: cmd}); ok {
		vx.Assert(a.UpdateSchedule.RowsAffected == b.UpdateSchedule.RowsAffected, "C17:same-result")
	}
}

func VH_E_DeleteSchedule() {
	if a, b, ok := vhEquiv(&t_aio.Command{Kind: t_aio.DeleteSchedule, DeleteSchedule: &t_aio.DeleteScheduleCommand{Id: vx.String("id")}}); ok {
		vx.Assert(a.DeleteSchedule.RowsAffected == b.DeleteSchedule.RowsAffected, "C17:same-result")
	}
}

func VH_E_ReadLock() {
	if a, b, ok := vhEquiv(&t_aio.Command{Kind: t_aio.ReadLock, ReadLock: &t_aio.ReadLockCommand{ResourceId: vx.String("resourceId")}}); ok {
		x, y := a.ReadLock, b.ReadLock
		same := vx.And(x.RowsReturned == y.RowsReturned, len(x.Records) == len(y.Records))
		if len(x.Records) == 1 && len(y.Records) == 1 {
			p, q := x.Records[0], y.Records[0]
			same = vx.And(same, p.ResourceId == q.ResourceId, p.ExecutionId == q.ExecutionId, p.ProcessId == q.ProcessId, p.Ttl == q.Ttl, p.ExpiresAt == q.ExpiresAt)
		}
		vx.Assert(same, "C17:same-result")
	}
}

func VH_E_AcquireLock() {
	cmd := &t_aio.AcquireLockCommand{ResourceId: vx.String("resourceId"), ExecutionId: vx.String("executionId"), ProcessId: vx.String("processId"), Ttl: vx.Int64("ttl"), ExpiresAt: vx.Int64("expiresAt")}
	if a, b, ok := vhEquiv(&t_aio.Command{Kind: t_aio.AcquireLock, AcquireLock: cmd}); ok {
		vx.Assert(a.AcquireLock.RowsAffected == b.AcquireLock.RowsAffected, "C17:same-result")
	}
}

func VH_E_ReleaseLock() {
	if a, b, ok := vhEquiv(&t_aio.Command{Kind: t_aio.ReleaseLock, ReleaseLock: &t_aio.ReleaseLockCommand{ResourceId: vx.String("resourceId"), ExecutionId: vx.String("executionId")}}); ok {
		vx.Assert(a.ReleaseLock.RowsAffected == b.ReleaseLock.RowsAffected, "C17:same-result")
	}
}

func VH_E_HeartbeatLocks() {
	if a, b, ok := vhEquiv(&t_aio.Command{Kind: t_aio.HeartbeatLocks, HeartbeatLocks: &t_aio.HeartbeatLocksCommand{ProcessId: vx.String("processId"), Time: vx.Int64("time")}}); ok {
		vx.Assert(a.HeartbeatLocks.RowsAffected == b.HeartbeatLocks.RowsAffected, "C17:same-result")
	}
}

func VH_E_TimeoutLocks() {
	if a, b, ok := vhEquiv(&t_aio.Command{Kind: t_aio.TimeoutLocks, TimeoutLocks: &t_aio.TimeoutLocksCommand{Timeout: vx.Int64("time")}}); ok {
		vx.Assert(a.TimeoutLocks.RowsAffected == b.TimeoutLocks.RowsAffected, "C17:same-result")
	}
}

func VH_E_ReadTask() {
	if a, b, ok := vhEquiv(&t_aio.Command{Kind: t_aio.ReadTask, ReadTask: &t_aio.ReadTaskCommand{Id: vx.String("id")}}); ok {
		vx.Assert(vhSameT(a.ReadTask, b.ReadTask), "C17:same-result")
	}
}

func VH_E_ReadTasks() {
	if a, b, ok := vhEquiv(&t_aio.Command{Kind: t_aio.ReadTasks, ReadTasks: &t_aio.ReadTasksCommand{States: []task.State{task.Enqueued, task.Claimed}, Time: vx.Int64("time"), Limit: 4}}); ok {
		vx.Assert(a.ReadTasks.RowsReturned == b.ReadTasks.RowsReturned, "C17:same-result")
	}
}

func VH_E_ReadEnqueueableTasks() {
	if a, b, ok := vhEquiv(&t_aio.Command{Kind: t_aio.ReadEnqueueableTasks, ReadEnquableTasks: &t_aio.ReadEnqueueableTasksCommand{Time: vx.Int64("time"), Limit: 4}}); ok {
		// SQLite returns an arbitrary representative per root (bare columns under GROUP BY), Postgres the oldest (DISTINCT ON .. ORDER BY sort_id):
		// a documented dialect difference; the number of roots served must agree
		vx.Assert(a.ReadEnqueueableTasks.RowsReturned == b.ReadEnqueueableTasks.RowsReturned, "C17:same-result")
	}
}

func VH_E_CreateTask() {
	pid := vx.String("processId")
	st, pidp := task.Init, (*string)(nil)
	if vx.Choose(2) == 1 {
		st, pidp = task.Claimed, &pid
	}
	cmd := &t_aio.CreateTaskCommand{Id: vx.String("id"), Recv: vhNonNilBytes("recv"), Mesg: vhMesg(), Timeout: vx.Int64("timeout"), ProcessId: pidp, State: st, Ttl: vx.Int("ttl"),
		ExpiresAt: vx.Int64("expiresAt"), CreatedOn: vx.Int64("createdOn")}
	if a, b, ok := vhEquiv(&t_aio.Command{Kind: t_aio.CreateTask, CreateTask: cmd}); ok {
		vx.Assert(a.CreateTask.RowsAffected == b.CreateTask.RowsAffected, "C17:same-result")
	}
}

func VH_E_CreateTasks() {
	if a, b, ok := vhEquiv(&t_aio.Command{Kind: t_aio.CreateTasks, CreateTasks: &t_aio.CreateTasksCommand{PromiseId: vx.String("promiseId"), CreatedOn: vx.Int64("createdOn")}}); ok {
		vx.Assert(a.CreateTasks.RowsAffected == b.CreateTasks.RowsAffected, "C17:same-result")
	}
}

func VH_E_CompleteTasks() {
	if a, b, ok := vhEquiv(&t_aio.Command{Kind: t_aio.CompleteTasks, CompleteTasks: &t_aio.CompleteTasksCommand{RootPromiseId: vx.String("root"), CompletedOn: vx.Int64("completedOn")}}); ok {
		vx.Assert(a.CompleteTasks.RowsAffected == b.CompleteTasks.RowsAffected, "C17:same-result")
	}
}

func VH_E_UpdateTask() {
	st := vx.Int64("state")
	vx.Assume(vx.Or(st == 1, st == 2, st == 4, st == 8, st == 16))
	cmd := &t_aio.UpdateTaskCommand{Id: vx.String("id"), ProcessId: vx.StringPtr("processId"), State: task.State(st), Counter: vx.Int("counter"), Attempt: vx.Int("attempt"), Ttl: vx.Int("ttl"),
		ExpiresAt: vx.Int64("expiresAt"), CompletedOn: vx.Int64Ptr("completedOn"), CurrentStates: []task.State{task.Init, task.Enqueued}, CurrentCounter: vx.Int("curCounter")}
	if a, b, ok := vhEquiv(&t_aio.Command{Kind: t_aio.UpdateTask, UpdateTask: cmd}); ok {
		vx.Assert(a.UpdateTask.RowsAffected == b.UpdateTask.RowsAffected, "C17:same-result")
	}
}

func VH_E_HeartbeatTasks() {
	if a, b, ok := vhEquiv(&t_aio.Command{Kind: t_aio.HeartbeatTasks, HeartbeatTasks: &t_aio.HeartbeatTasksCommand{ProcessId: vx.String("processId"), Time: vx.Int64("time")}}); ok {
		vx.Assert(a.HeartbeatTasks.RowsAffected == b.HeartbeatTasks.RowsAffected, "C17:same-result")
	}
}

func VH_E_CreatePromiseAndTask() {
	id := vx.String("id")
	pc := &t_aio.CreatePromiseCommand{Id: id, Param: promise.Value{Headers: vx.Tags("phdr", 1), Data: vhNonNilBytes("pdata")}, Timeout: vx.Int64("timeout"),
		IdempotencyKey: (*idempotency.Key)(vx.StringPtr("ikey")), Tags: vx.Tags("tags", 1), CreatedOn: vx.Int64("createdOn")}
	tc := &t_aio.CreateTaskCommand{Id: "__invoke:" + id, Recv: vhNonNilBytes("recv"), Mesg: &message.Mesg{Type: message.Invoke, Root: id, Leaf: id}, Timeout: pc.Timeout, State: task.Init, CreatedOn: pc.CreatedOn}
	if a, b, ok := vhEquiv(&t_aio.Command{Kind: t_aio.CreatePromiseAndTask, CreatePromiseAndTask: &t_aio.CreatePromiseAndTaskCommand{PromiseCommand: pc, TaskCommand: tc}}); ok {
		vx.Assert(vx.And(a.CreatePromiseAndTask.PromiseRowsAffected == b.CreatePromiseAndTask.PromiseRowsAffected, a.CreatePromiseAndTask.TaskRowsAffected == b.CreatePromiseAndTask.TaskRowsAffected), "C17:same-result")
	}
}

// VH_E_Schema: both CREATE TABLE scripts declare the same tables and columns; every column that
// receives a 64-bit Go value is 64 bits wide in both.
func VH_E_Schema() {
	vx.Assert(vx.SchemaDiff() == "", "C17:same-schema")
	vx.Reach("done")
}

// ---- batches: both backends cache one prepared statement per command kind for the duration of an Execute
// call; two commands of (possibly different) kinds in one transaction must still each run their own statement.

func vhBatchCmd(i int, sfx string) *t_aio.Command {
	switch i {
	case 0:
		return &t_aio.Command{Kind: t_aio.HeartbeatLocks, HeartbeatLocks: &t_aio.HeartbeatLocksCommand{ProcessId: vx.String("processId" + sfx), Time: vx.Int64("time" + sfx)}}
	case 1:
		return &t_aio.Command{Kind: t_aio.HeartbeatTasks, HeartbeatTasks: &t_aio.HeartbeatTasksCommand{ProcessId: vx.String("processId" + sfx), Time: vx.Int64("time" + sfx)}}
	case 2:
		return &t_aio.Command{Kind: t_aio.ReleaseLock, ReleaseLock: &t_aio.ReleaseLockCommand{ResourceId: vx.String("resourceId" + sfx), ExecutionId: vx.String("executionId" + sfx)}}
	case 3:
		return &t_aio.Command{Kind: t_aio.TimeoutLocks, TimeoutLocks: &t_aio.TimeoutLocksCommand{Timeout: vx.Int64("time" + sfx)}}
	case 4:
		return &t_aio.Command{Kind: t_aio.DeleteSchedule, DeleteSchedule: &t_aio.DeleteScheduleCommand{Id: vx.String("id" + sfx)}}
	case 5:
		return &t_aio.Command{Kind: t_aio.CompleteTasks, CompleteTasks: &t_aio.CompleteTasksCommand{RootPromiseId: vx.String("root" + sfx), CompletedOn: vx.Int64("completedOn" + sfx)}}
	case 6:
		return &t_aio.Command{Kind: t_aio.DeleteCallbacks, DeleteCallbacks: &t_aio.DeleteCallbacksCommand{PromiseId: vx.String("promiseId" + sfx)}}
	}
	return &t_aio.Command{Kind: t_aio.ReadLock, ReadLock: &t_aio.ReadLockCommand{ResourceId: vx.String("resourceId" + sfx)}}
}

func vhAffected(r *t_aio.Result) int64 {
	switch r.Kind {
	case t_aio.HeartbeatLocks:
		return r.HeartbeatLocks.RowsAffected
	case t_aio.HeartbeatTasks:
		return r.HeartbeatTasks.RowsAffected
	case t_aio.ReleaseLock:
		return r.ReleaseLock.RowsAffected
	case t_aio.TimeoutLocks:
		return r.TimeoutLocks.RowsAffected
	case t_aio.DeleteSchedule:
		return r.DeleteSchedule.RowsAffected
	case t_aio.CompleteTasks:
		return r.CompleteTasks.RowsAffected
	case t_aio.DeleteCallbacks:
		return r.DeleteCallbacks.RowsAffected
	case t_aio.ReadLock:
		return r.ReadLock.RowsReturned
	}
	return -1
}

func VH_E_Batch() {
	n := 8
	k1, k2 := vx.Choose(n), vx.Choose(n)
	cmds := []*t_aio.Command{vhBatchCmd(k1, ".a"), vhBatchCmd(k2, ".b")}
	db := vx.DB("postgres")
	sq, pg := sqlite.VXWorker(db), postgres.VXWorker(db)
	vx.Havoc()
	s0 := vx.Snap()
	vx.SetDialect("sqlite")
	r1, e1 := sq.Execute([]*t_aio.Transaction{{Commands: cmds}})
	s1 := vx.Snap()
	vx.Restore(s0)
	vx.SetDialect("postgres")
	r2, e2 := pg.Execute([]*t_aio.Transaction{{Commands: cmds}})
	s2 := vx.Snap()
	vx.Assert((e1 == nil) == (e2 == nil), "C17:batch-same-error-or-success")
	if e1 != nil || e2 != nil {
		vx.Reach("error")
		return
	}
	vx.Reach("both-ok")
	vx.Assert(vx.SameDB(s1, s2), "C17:batch-same-database-afterwards")
	vx.Assert(len(r1) == 1 && len(r2) == 1 && len(r1[0]) == 2 && len(r2[0]) == 2, "C17:batch-one-result-per-command")
	for i := 0; i < 2; i++ {
		vx.Assert(r1[0][i].Kind == cmds[i].Kind && r2[0][i].Kind == cmds[i].Kind, "C17:batch-result-kind-is-command-kind")
		vx.Assert(vhAffected(r1[0][i]) == vhAffected(r2[0][i]), "C17:batch-same-result")
	}
}
