package store

// C16 (isolation between workers): store.Process is shared by all workers of a store and several of them run it
// at once (Postgres: config.Workers goroutines). Two invocations are interleaved the way two goroutines can be:
// worker A runs up to its Execute call, worker B then runs a whole batch of its own, and A continues
// (one context switch in, one out, at the blocking call). Whatever Process keeps outside its own frame,
// A's Execute still receives exactly A's transactions, in order, and every submission of A is answered with
// the results of its own transaction - and likewise for B.
// Bound: two workers, batches of 1..2 submissions, switches only at the Execute call.

import (
	"github.com/resonatehq/resonate/internal/kernel/bus"
	"github.com/resonatehq/resonate/internal/kernel/t_aio"
	"github.com/resonatehq/resonate/internal/vx"
)

type vhStore struct {
	during func()
	got    []*t_aio.Transaction
	res    [][]*t_aio.Result
}

func (s *vhStore) Execute(ts []*t_aio.Transaction) ([][]*t_aio.Result, error) {
	if s.during != nil {
		f := s.during
		s.during = nil
		f() // another worker's batch runs while this one is inside Execute
	}
	for _, t := range ts {
		s.got = append(s.got, t)
		s.res = append(s.res, []*t_aio.Result{{Kind: t_aio.ReadPromise}})
	}
	return s.res, nil
}

func vhBatch(n int, name string) []*bus.SQE[t_aio.Submission, t_aio.Completion] {
	var out []*bus.SQE[t_aio.Submission, t_aio.Completion]
	for i := 0; i < n; i++ {
		out = append(out, &bus.SQE[t_aio.Submission, t_aio.Completion]{Id: name, Submission: &t_aio.Submission{Kind: t_aio.Store, Tags: map[string]string{},
			Store: &t_aio.StoreSubmission{Transaction: &t_aio.Transaction{Commands: []*t_aio.Command{{Kind: t_aio.ReadPromise, ReadPromise: &t_aio.ReadPromiseCommand{Id: name}}}}}}})
	}
	return out
}

func vhOwn(st *vhStore, sqes []*bus.SQE[t_aio.Submission, t_aio.Completion], cqes []*bus.CQE[t_aio.Submission, t_aio.Completion], label string) {
	ok := len(st.got) == len(sqes) && len(cqes) == len(sqes)
	if ok {
		for i := range sqes {
			if st.got[i] != sqes[i].Submission.Store.Transaction {
				ok = false
			}
		}
	}
	vx.Assert(ok, "C16:"+label+"-executes-exactly-its-own-transactions")
	if !ok {
		return
	}
	for i := range sqes {
		c := cqes[i]
		vx.Assert(c != nil && c.Error == nil && c.Completion != nil && c.Completion.Store != nil && len(c.Completion.Store.Results) == 1 && c.Completion.Store.Results[0] == st.res[i][0],
			"C16:"+label+"-submission-answered-with-its-own-results")
	}
}

func VH_C16_ProcessTwoWorkers() {
	// an earlier, finished batch first (so that anything Process retains between calls is warm)
	if vx.Choose(2) == 1 {
		w := &vhStore{}
		Process(w, vhBatch(1+vx.Choose(2), "warm"))
	}
	a, b := &vhStore{}, &vhStore{}
	sa, sb := vhBatch(1+vx.Choose(2), "a"), vhBatch(1+vx.Choose(2), "b")
	var cb []*bus.CQE[t_aio.Submission, t_aio.Completion]
	a.during = func() { cb = Process(b, sb) }
	ca := Process(a, sa)
	vhOwn(a, sa, ca, "interrupted-worker")
	vhOwn(b, sb, cb, "interleaved-worker")
	vx.Reach("done")
}
