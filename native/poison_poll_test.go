// target: internal/app/plugins/poll
package poll

import (
	"testing"

	"github.com/resonatehq/resonate/internal/aio"
	"github.com/resonatehq/resonate/pkg/message"
)

// D17: a physical receiver {"type":"poll","data":null} decodes to a nil *Data.
func TestVN_D17_PollNullData(t *testing.T) {
	w := &PollWorker{connections: connections{conns: map[string][]*connection{}, max: 10}}
	var doneErr error
	called := 0
	defer func() {
		if r := recover(); r != nil {
			t.Fatalf("poll worker panicked on data null: %v", r)
		}
	}()
	w.Process(&aio.Message{Type: message.Invoke, Data: []byte("null"), Body: []byte("{}"), Done: func(ok bool, err error) { called++; doneErr = err }})
	if called != 1 || doneErr == nil {
		t.Fatalf("expected one failed delivery, got calls=%d err=%v", called, doneErr)
	}
}
