package postgres

// C12 / C06 / C11 wiring of the Postgres store subsystem: Start creates the schema on the opened database and
// launches every worker exactly once, Enqueue accepts while the queue has room and refuses without side effect when
// full, every worker reads the subsystem's queue, the subsystem answers to the store kind.

import (
	"github.com/prometheus/client_golang/prometheus"
	"github.com/resonatehq/resonate/internal/kernel/bus"
	"github.com/resonatehq/resonate/internal/kernel/t_aio"
	"github.com/resonatehq/resonate/internal/metrics"
	"github.com/resonatehq/resonate/internal/vx"
)

func VH_W_Store() {
	vx.IgnoreGo()
	n, size := 1+vx.Choose(3), 1+vx.Choose(2)
	s, err := New(nil, metrics.New(prometheus.NewRegistry()), &Config{Size: size, BatchSize: 1, Workers: n, Host: "h", Port: "1", Username: "u", Password: "p", Database: "d", TxTimeout: 1000000000})
	vx.Assert(err == nil && s != nil && len(s.workers) == n && s.Kind() == t_aio.Store, "C12:store-constructs-its-workers")
	if err != nil || s == nil {
		return
	}
	vx.Assert(cap(s.sq) >= 1, "C12:queue-has-room-for-a-submission")
	room := cap(s.sq)
	for i := 0; i < room+1; i++ {
		ok := s.Enqueue(&bus.SQE[t_aio.Submission, t_aio.Completion]{Id: "x"})
		vx.Assert(ok == (i < room), "C12:enqueue-accepts-exactly-while-there-is-room")
		vx.Assert(len(s.sq) == min(i+1, room), "C12:a-refused-submission-is-not-queued")
	}
	for _, w := range s.workers {
		vx.Assert(w != nil && w.sq != nil && len(w.sq) == room, "C12:workers-read-the-subsystem-queue")
	}
	err = s.Start(nil)
	vx.Assert(vx.SchemaExecs() >= 1, "C06:start-sets-the-schema-up")
	vx.Assert(vx.TablesDropped() == 0 && vx.FilesRemoved() == 0, "C06:start-up-destroys-no-data")
	vx.Assert(vx.SchemaNotIdempotent() == 0, "C06:schema-set-up-is-repeatable-on-an-existing-database")
	if err != nil {
		vx.Reach("schema-failed")
		vx.Assert(vx.GoStarted() == 0, "C06:no-worker-runs-on-a-database-without-schema")
		return
	}
	for _, w := range s.workers {
		k := 0
		for i := 0; i < vx.GoStarted(); i++ {
			if vx.GoStartedName(i) == "Start" && vx.GoStartedOn(i, w) {
				k++
			}
		}
		vx.Assert(k == 1, "C11:every-worker-started-exactly-once")
	}
	vx.Reach("done")
}
