package postgres

// C12 / C11: a tick's flush reaches every store worker: a worker that holds a partial batch is only released
// by its own flush signal, so a worker that is never flushed never answers the submissions it collected.

import (
	"github.com/resonatehq/resonate/internal/vx"
)

func VH_ST_Flush() {
	n := vx.Choose(3) + 1
	s := &PostgresStore{config: &Config{}}
	for i := 0; i < n; i++ {
		w := &PostgresStoreWorker{config: s.config, i: i, flush: make(chan int64, 1)}
		if vx.Choose(2) == 1 {
			w.flush <- 0 // an earlier flush is still pending
		}
		s.workers = append(s.workers, w)
	}
	s.Flush(vx.Int64("t"))
	for _, w := range s.workers {
		vx.Assert(len(w.flush) == 1, "C12:flush-reaches-every-store-worker")
	}
	vx.Reach("done")
}
