package coroutines

import (
	"github.com/resonatehq/gocoro"
	"github.com/resonatehq/resonate/internal/kernel/t_aio"
	"github.com/resonatehq/resonate/internal/kernel/t_api"
	"github.com/resonatehq/resonate/internal/util"
	"github.com/resonatehq/resonate/internal/app/subsystems/aio/store/postgres"
	"github.com/resonatehq/resonate/internal/app/subsystems/aio/store/sqlite"
	"github.com/resonatehq/resonate/internal/kernel/system"
	"github.com/resonatehq/resonate/internal/vx"
)

// vhSetup: symbolic world for a coroutine harness. backend 0 = sqlite, 1 = postgres.
func vhSetup(flags int) vx.Coro {
	if vx.Opt("backend", 0) == 1 {
		vx.UseStore(postgres.VXWorker(vx.DB("postgres")))
	} else {
		vx.UseStore(sqlite.VXWorker(vx.DB("sqlite")))
	}
	vx.SetConfig(&system.Config{Url: vx.String("config.url"), PromiseBatchSize: vx.Opt("batch", 2), ScheduleBatchSize: vx.Opt("batch", 2),
		TaskBatchSize: vx.Opt("batch", 2), TaskEnqueueDelay: 10000000000})
	vx.AutoO2("O2")
	c := vx.Coroutine(flags)
	vx.Havoc()
	return c
}

func vhB2I(b bool) int64 { return vx.IteInt64(b, 1, 0) }

// VXSetup / VXDispatch: used by front-end harnesses (grpc) to run the real request coroutine
// of a kernel request under havoc semantics, as System.AddOnRequest would.
func VXSetup(flags int) vx.Coro { return vhSetup(flags) }

func VXDispatch(c gocoro.Coroutine[*t_aio.Submission, *t_aio.Completion, any], r *t_api.Request) (*t_api.Response, error) {
	// System.AddOnRequest's wrapper
	util.Assert(r.Tags != nil, "request tags must be non nil")
	util.Assert(r.Tags["id"] != "", "id tag must be set")
	// the coroutine cmd/serve registers for this kind (read from the real registration block)
	if f, ok := vx.ServeRegistered(int(r.Kind)).(func(gocoro.Coroutine[*t_aio.Submission, *t_aio.Completion, any], *t_api.Request) (*t_api.Response, error)); ok {
		return f(c, r)
	}
	if r.Kind == t_api.Echo {
		return Echo(c, r) // only registered by the DST command
	}
	panic("no registered coroutine for request kind")
}
