#!/bin/bash
# native.sh <run-pattern> [file...]: run /verif/native tests against the real /repo build via a go test overlay
# (the files are mapped into their target package directory; /repo is not modified).
set -u
export GOFLAGS=-mod=mod GOPROXY=off GOSUMDB=off GOTOOLCHAIN=local
pat=$1; shift
files=("$@"); [ ${#files[@]} -eq 0 ] && files=(/verif/native/*_test.go)
tmp=$(mktemp -d); trap 'rm -rf $tmp' EXIT
python3 - "$tmp" "${files[@]}" <<'PY'
import sys,json,re,os
tmp=sys.argv[1]; ov={}; pkgs=set()
for f in sys.argv[2:]:
    head=open(f).read(400)
    m=re.search(r'// target: (\S+)',head)
    if not m: continue
    tgt=m.group(1); pkgs.add(tgt)
    ov[f"/repo/{tgt}/zz_vn_{os.path.basename(f)}"]=f
json.dump({"Replace":ov},open(f"{tmp}/ov.json","w"))
open(f"{tmp}/pkgs","w").write(" ".join("./"+p for p in sorted(pkgs)))
PY
cd /repo && go test -vet=off -count=1 -overlay $tmp/ov.json -run "$pat" $(cat $tmp/pkgs) 2>&1
