// target: internal/app/coroutines
// Demonstrations (real code) of two defects the C10/C13 checks found in SchedulePromises.
package coroutines

import (
	"testing"

	"github.com/resonatehq/resonate/internal/kernel/t_aio"
	"github.com/resonatehq/resonate/internal/kernel/t_api"
)

// D6: generatePromiseId calls template.Must on the client-supplied promise id template:
// a schedule whose PromiseId does not parse panics the background coroutine (and the server).
func TestVN_D6_TemplateMustPanics(t *testing.T) {
	defer func() {
		if r := recover(); r != nil {
			t.Fatalf("generatePromiseId panicked on a client template: %v", r)
		}
	}()
	if _, err := generatePromiseId("{{", map[string]string{"id": "s", "timestamp": "1"}); err == nil {
		t.Fatal("expected a parse error")
	}
}

// D10: when the scheduled promise is routed (its tags carry resonate:invoke) the store result is a
// CreatePromiseAndTask result and SchedulePromises dereferences Results[0].CreatePromise == nil.
func TestVN_D10_RoutedScheduledPromise(t *testing.T) {
	w := vnNew(t)
	w.Router = func(sub *t_aio.Submission) (*t_aio.Completion, error) {
		return &t_aio.Completion{Kind: t_aio.Router, Router: &t_aio.RouterCompletion{Matched: true, Recv: []byte(`"default"`)}}, nil
	}
	res, err := w.Run(CreateSchedule, &t_api.Request{Kind: t_api.CreateSchedule, CreateSchedule: &t_api.CreateScheduleRequest{
		Id: "s1", Cron: "* * * * *", PromiseId: "{{.id}}.{{.timestamp}}", PromiseTimeout: 1000000, PromiseTags: map[string]string{"resonate:invoke": "default"}}})
	if err != nil || res.CreateSchedule.Status != t_api.StatusCreated {
		t.Fatalf("create schedule: %v %v", res, err)
	}
	w.now += 120000 // two minutes later the first occurrence is due
	defer func() {
		if r := recover(); r != nil {
			t.Fatalf("SchedulePromises panicked when the scheduled promise was routed: %v", r)
		}
	}()
	w.RunFunc(SchedulePromises(w.Config, map[string]string{"id": "bg"}))
	if n := w.QueryInt("SELECT count(*) FROM promises"); n != 1 {
		t.Fatalf("expected the occurrence's promise, have %d", n)
	}
	if n := w.QueryInt("SELECT count(*) FROM tasks"); n != 1 {
		t.Fatalf("expected the invocation task, have %d", n)
	}
}
