package http

// C15 / C20: the JSON name of a promise state decodes back to that state, names of different states differ,
// and anything that is not a state name (in any letter case) is refused. The HTTP binding stub assumes
// exactly this about the decoder ("enums take their declared constants").

import (
	"github.com/resonatehq/resonate/internal/vx"
	"github.com/resonatehq/resonate/pkg/promise"
)

func VH_H_StateJSON() {
	states := []promise.State{promise.Pending, promise.Resolved, promise.Rejected, promise.Canceled, promise.Timedout}
	i, j := vx.Choose(len(states)), vx.Choose(len(states))
	s, t := states[i], states[j]
	b1, e1 := (&s).MarshalJSON()
	b2, e2 := (&t).MarshalJSON()
	vx.Assert(e1 == nil && e2 == nil, "C15:state-name-renders")
	var back promise.State
	vx.Assert(back.UnmarshalJSON(b1) == nil && back == s, "C15:state-name-decodes-back-to-the-state")
	vx.Assert((i == j) == vx.BytesEq(b1, b2), "C15:different-states-have-different-names")
	// a non-name is refused and leaves the destination alone
	junk := vx.String("junk")
	var dst promise.State
	err := dst.UnmarshalJSON([]byte(vx.JsonOfString(junk)))
	if err == nil {
		vx.Reach("accepted")
		vx.Assert(dst == promise.Pending || dst == promise.Resolved || dst == promise.Rejected || dst == promise.Canceled || dst == promise.Timedout, "C15:decoded-state-is-a-declared-state")
	} else {
		vx.Reach("refused")
		vx.Assert(dst == 0, "C15:refused-name-leaves-no-state")
	}
}
