package poll

// C18: every sequence of connects / disconnects / reconnects / sends over two groups and
// two ids, every buffer size and connection limit, every random pick.

import (
	"encoding/json"
	"errors"
	"net/http"
	"net/url"
	"strings"

	"github.com/prometheus/client_golang/prometheus"
	"github.com/resonatehq/resonate/internal/aio"
	"github.com/resonatehq/resonate/internal/metrics"
	"github.com/resonatehq/resonate/internal/vx"
	"github.com/resonatehq/resonate/pkg/message"
)

// every group / id is an arbitrary string: which of them coincide is decided by the solver
var vhN int

func vhStr(kind string) string {
	vhN++
	return vx.String(kind + string(rune('0'+vhN)))
}

func vhRegistered(cs *connections, c *connection) bool {
	for _, o := range cs.conns[c.group] {
		if o == c {
			return true
		}
	}
	return false
}

func vhCount(cs *connections) int {
	n := 0
	for _, l := range cs.conns {
		n += len(l)
	}
	return n
}

func VH_C18_Ops() {
	max := vx.Choose(2) + 1
	buf := vx.Choose(2) + 1
	w := &PollWorker{connections: connections{max: max, cnt: prometheus.NewGauge(prometheus.GaugeOpts{}), conns: map[string][]*connection{}}}
	cs := &w.connections
	var all []*connection
	steps := vx.Opt("steps", 3)
	for step := 0; step < steps; step++ {
		switch vx.Choose(3) {
		case 0: // connect (possibly a reconnect with the same id)
			c := &connection{group: vhStr("group"), id: vhStr("id"), ch: make(chan []byte, buf)}
			var older *connection
			for _, o := range cs.conns[c.group] {
				if o.id == c.id {
					older = o
				}
			}
			before := vhCount(cs)
			cs.add(c)
			all = append(all, c)
			if older != nil {
				vx.Reach("reconnect")
				vx.Assert(vx.ChanClosed(older.ch) && !vhRegistered(cs, older), "C18:reconnect-replaces-the-older-connection")
			}
			if vhRegistered(cs, c) {
				vx.Assert(!vx.ChanClosed(c.ch), "C18:registered-connection-is-open")
			} else {
				vx.Reach("limit-reached")
				vx.Assert(vx.ChanClosed(c.ch), "C18:refused-connection-is-closed")
				expected := before
				if older != nil {
					expected = before - 1
				}
				vx.Assert(expected >= max, "C18:refused-only-at-the-limit")
			}
		case 1: // disconnect of an earlier connection (possibly one that was already replaced)
			if len(all) == 0 {
				continue
			}
			c := all[vx.Choose(len(all))]
			if vx.ChanClosed(c.ch) && !vhRegistered(cs, c) {
				// the handler's late disconnect of a usurped / refused connection
				var twin *connection
				for _, o := range cs.conns[c.group] {
					if o.id == c.id {
						twin = o
					}
				}
				cs.rmv(c, true)
				if twin != nil {
					vx.Reach("late-disconnect")
					vx.Assert(vhRegistered(cs, twin) && !vx.ChanClosed(twin.ch), "C18:late-disconnect-leaves-the-replacement-alone")
				}
			} else {
				cs.rmv(c, true)
				vx.Assert(!vhRegistered(cs, c) && vx.ChanClosed(c.ch), "C18:disconnect-unregisters-and-closes")
			}
		case 2: // send
			group, id := vhStr("group"), vhStr("id")
			mtype := message.Type([]string{"invoke", "notify"}[vx.Choose(2)])
			calls, okv := 0, false
			sendsBefore := make([]int, len(all))
			for i, c := range all {
				sendsBefore[i] = vx.ChanSends(c.ch)
			}
			data, _ := json.Marshal(&Data{Group: group, Id: id})
			w.Process(&aio.Message{Type: mtype, Data: data, Body: []byte("body"), Done: func(ok bool, err error) { calls++; okv = ok }})
			vx.Assert(calls == 1, "C18:delivery-reported-exactly-once")
			got := 0
			var rcpt *connection
			for i, c := range all {
				d := vx.ChanSends(c.ch) - sendsBefore[i]
				got += d
				if d == 1 {
					rcpt = c
				}
			}
			vx.Assert(got <= 1 && okv == (got == 1), "C18:delivered-iff-exactly-one-listener-accepted")
			if okv {
				vx.Reach("delivered")
				exact := false
				for _, o := range cs.conns[group] {
					if o.id == id {
						exact = true
					}
				}
				vx.Assert(vhRegistered(cs, rcpt) && rcpt.group == group, "C18:handed-to-a-registered-listener-of-the-addressed-group")
				vx.Assert(!exact || id == "" || rcpt.id == id, "C18:addressed-id-preferred") // an empty id addresses nobody in particular
				vx.Assert(mtype != message.Notify || rcpt.id == id, "C18:notification-only-to-the-exact-id")
			}
		}
		vx.Assert(cs.len == vhCount(cs) && cs.len <= max, "C18:count-consistent-and-within-limit")
	}
	vx.Reach("done")
}

// VH_C18_Loop: the real worker loop (PollWorker.Start) over its three event channels, with select free to
// pick any ready case: listener A connects, reconnects (A2, same group and id), the handler of the replaced
// connection A reports its disconnect late, a second listener B of the same group is connected, and a
// message addressed to (group, id of A) is sent. A2 never disconnects, so once its connect has been
// processed it must stay registered and open whatever the order of the other events, and the message must
// be handed to it and to nobody else.
func VH_C18_Loop() {
	vx.NondetSelect()
	vx.BlockOK()
	connect, disconnect, sq := make(chan *connection, 4), make(chan *connection, 4), make(chan *aio.Message, 2)
	reg := prometheus.NewRegistry()
	g := prometheus.NewGauge(prometheus.GaugeOpts{})
	w := &PollWorker{sq: sq, connect: connect, disconnect: disconnect, metrics: metrics.New(reg), counter: g,
		connections: connections{max: 3, cnt: g, conns: map[string][]*connection{}}}
	group, ida, idb := vx.String("group"), vx.String("ida"), vx.String("idb")
	vx.Assume(vx.And(ida != idb, ida != ""))
	a := &connection{group: group, id: ida, ch: make(chan []byte, 2)}
	a2 := &connection{group: group, id: ida, ch: make(chan []byte, 2)}
	b := &connection{group: group, id: idb, ch: make(chan []byte, 2)}
	// the producers (http handlers, the sender): events are delivered one at a time, at any select of the loop
	late := vx.Choose(2) == 1
	step := 0
	var msg *aio.Message
	vx.OnSelect(func() {
		for step < 5 && vx.Choose(2) == 1 {
			switch step {
			case 0:
				connect <- a
			case 1:
				connect <- b
			case 2:
				connect <- a2
			case 3:
				if late {
					disconnect <- a // the late report of the replaced connection's handler
				}
			case 4:
				sq <- msg
			}
			step++
		}
	})
	mtype := message.Type([]string{"invoke", "notify"}[vx.Choose(2)])
	data, _ := json.Marshal(&Data{Group: group, Id: ida})
	calls := 0
	msg = &aio.Message{Type: mtype, Data: data, Body: []byte("body"), Done: func(ok bool, err error) {
		calls++
		vx.Assert(calls == 1, "C18:loop-delivery-reported-exactly-once")
		got := vx.ChanSends(a.ch) + vx.ChanSends(a2.ch) + vx.ChanSends(b.ch)
		vx.Assert(got <= 1 && ok == (got == 1), "C18:loop-delivered-iff-exactly-one-listener-accepted")
		if step >= 4 && len(connect) == 0 {
			// every connect has been delivered and processed: A2 replaced A and has not gone away
			vx.Reach("sent-after-reconnect")
			vx.Assert(vhRegistered(&w.connections, a2) && !vx.ChanClosed(a2.ch), "C18:loop-reconnected-listener-stays-registered")
			vx.Assert(ok && vx.ChanSends(a2.ch) == 1, "C18:loop-message-reaches-the-addressed-connected-listener")
		}
		vx.Assert(vx.ChanSends(a.ch) == 0 || !vx.ChanClosed(a.ch), "C18:loop-nothing-handed-to-a-closed-connection")
	}}
	w.Start()
}

// ---- the listener side: PollHandler.ServeHTTP registers the connection under exactly the group and id of
// the request path (the decoded path, which is what the sender's poll://group/id translation produces), and
// relays each message as one server-sent event.

type vhWriter struct {
	hdr     http.Header
	written [][]byte
	fail    bool
	flushes int
}

func (w *vhWriter) Header() http.Header { return w.hdr }
func (w *vhWriter) Write(b []byte) (int, error) {
	if w.fail {
		return 0, errors.New("write failed")
	}
	w.written = append(w.written, b)
	return len(b), nil
}
func (w *vhWriter) WriteHeader(int) {}
func (w *vhWriter) Flush()          { w.flushes++ }

func VH_PL_PollHandler() {
	vx.BlockOK()
	connect, disconnect := make(chan *connection, 1), make(chan *connection, 1)
	h := &PollHandler{config: &Config{BufferSize: 2}, metrics: metrics.New(prometheus.NewRegistry()), connect: connect, disconnect: disconnect}
	group, id := vx.String("group"), vx.String("id")
	vx.Assume(vx.And(!strings.Contains(group, "/"), !strings.Contains(id, "/"), id != ""))
	method := []string{"GET", "POST"}[vx.Choose(2)]
	full := vx.Choose(2) == 1
	if full {
		connect <- &connection{group: "x", id: "x", ch: make(chan []byte, 1)} // the worker has not caught up: registration queue full
	}
	w := &vhWriter{hdr: http.Header{}, fail: vx.Choose(2) == 1}
	body := vx.Bytes("body")
	vx.Assume(!vx.BytesNil(body))
	step := 0
	var conn *connection
	vx.OnSelect(func() {
		// the worker takes the registration, then hands one message to the connection, then the client goes away
		if conn == nil && !full && len(connect) == 1 {
			conn = <-connect
			vx.Assert(vx.And(conn.group == group, conn.id == id), "C19:listener-registered-under-the-group-and-id-of-its-path")
			vx.Assert(cap(conn.ch) == 2 && !vx.ChanClosed(conn.ch), "C18:listener-connection-has-the-configured-buffer")
		}
		if conn != nil && step == 0 {
			step = 1
			conn.ch <- body
		} else if conn != nil && step == 1 && len(conn.ch) == 0 {
			step = 2
			vx.CancelRequest()
		}
	})
	h.ServeHTTP(w, &http.Request{Method: method, URL: &url.URL{Path: "/" + group + "/" + id}})
	// the handler returned
	if method != "GET" || full {
		vx.Reach("refused")
		vx.Assert(vx.HttpErrors() == 1 && conn == nil, "C18:refused-listener-is-not-registered")
		vx.Assert(vx.Implies(method == "GET" && full, vx.HttpErrorCode(0) == 429), "C18:registration-queue-full-is-too-many-requests")
		return
	}
	vx.Reach("served")
	vx.Assert(conn != nil && vx.HttpErrors() == 0, "C18:listener-registered")
	vx.Assert(len(disconnect) == 1, "C18:listener-that-went-away-reports-its-disconnect-once")
	if !w.fail {
		vx.Assert(len(w.written) == 1 && vx.BytesStr(w.written[0]) == "data: "+vx.BytesStr(body)+"\n\n" && w.flushes >= 2, "C20:message-relayed-as-one-event-verbatim")
	}
}

// VH_PL_PollStop (C18 shutdown clause / C12): stopping the transport closes its queues and shuts the
// listener side down gracefully; it neither panics nor leaves a queue open.
func VH_PL_PollStop() {
	sq, connect, disconnect := make(chan *aio.Message, 1), make(chan *connection, 1), make(chan *connection, 1)
	p := &Poll{sq: sq, connect: connect, disconnect: disconnect, server: &PollServer{config: &Config{Timeout: 10000000000}, server: &http.Server{}}}
	err := p.Stop()
	vx.Assert(err == nil, "C18:stop-returns")
	vx.Assert(vx.Lifecycle() == "http.Shutdown", "C18:stop-shuts-the-listener-side-down-gracefully")
	vx.Assert(vx.ChanClosed(sq) && vx.ChanClosed(connect) && vx.ChanClosed(disconnect), "C18:stop-closes-its-queues")
	vx.Reach("done")
}

// VH_PL_PollNew (C18): the real constructor wires one registration queue and one departure queue between the
// listener side and the worker, each with one slot per admitted connection (a connect or disconnect can then
// always be queued without blocking a handler - Disconnect asserts exactly that), the worker's registry is
// limited to the configured number of connections, and the submission queue has the configured size.
func VH_PL_PollNew() {
	maxc, buf, size := 1+vx.Choose(3), 1+vx.Choose(2), 1+vx.Choose(2)
	cfg := &Config{Size: size, BufferSize: buf, MaxConnections: maxc, Addr: ":0", Timeout: 10000000000}
	p, err := New(nil, metrics.New(prometheus.NewRegistry()), cfg)
	vx.Assert(err == nil && p != nil && p.worker != nil && p.server != nil && p.server.server != nil, "C18:poll-transport-constructs")
	if err != nil || p == nil || p.worker == nil {
		return
	}
	h, _ := p.server.server.Handler.(*PollHandler)
	vx.Assert(h != nil && h.config == cfg, "C18:listener-side-uses-the-configuration")
	if h == nil {
		return
	}
	var hc, hd chan<- *connection = p.connect, p.disconnect
	var wc, wd <-chan *connection = p.connect, p.disconnect
	var ws <-chan *aio.Message = p.sq
	vx.Assert(h.connect == hc && h.disconnect == hd && p.worker.connect == wc && p.worker.disconnect == wd && p.worker.sq == ws, "C18:listener-side-and-worker-share-their-queues")
	vx.Assert(cap(h.connect) >= maxc, "C18:one-registration-slot-per-admitted-connection")
	vx.Assert(cap(h.disconnect) >= maxc, "C18:one-departure-slot-per-admitted-connection")
	vx.Assert(cap(p.sq) == size, "C18:submission-queue-has-the-configured-size")
	vx.Assert(p.worker.connections.max == maxc && p.worker.connections.conns != nil, "C18:registry-limited-to-the-configured-connections")
	vx.Reach("done")
}
