package api

// C12 wiring of the kernel API: Start launches every registered front end exactly once (each on its own goroutine,
// with the API's error channel), Stop stops each exactly once and closes the submission queue, the advertised
// address is the HTTP front end's.

import (
	"errors"

	"github.com/prometheus/client_golang/prometheus"
	"github.com/resonatehq/resonate/internal/metrics"
	"github.com/resonatehq/resonate/internal/vx"
)

type vhFront struct {
	kind     string
	addr     string
	stopped  int
	failStop bool
}

func (s *vhFront) String() string           { return s.kind }
func (s *vhFront) Kind() string             { return s.kind }
func (s *vhFront) Addr() string             { return s.addr }
func (s *vhFront) Start(chan<- error)       {}
func (s *vhFront) Stop() error {
	s.stopped++
	if s.failStop {
		return errors.New("stop failed")
	}
	return nil
}

func VH_W_ApiLifecycle() {
	vx.IgnoreGo()
	a := New(1, metrics.New(prometheus.NewRegistry()))
	h := &vhFront{kind: "http", addr: vx.String("http.addr")}
	g := &vhFront{kind: "grpc", addr: vx.String("grpc.addr")}
	order := vx.Choose(2)
	if order == 0 {
		a.AddSubsystem(h)
		a.AddSubsystem(g)
	} else {
		a.AddSubsystem(g)
		a.AddSubsystem(h)
	}
	vx.Assert(a.Addr() == h.addr, "C12:advertised-address-is-the-http-front-end")
	err := a.Start()
	vx.Assert(err == nil, "C12:api-start-succeeds")
	if vx.GoStarted() == 2 {
		onH, onG := 0, 0
		for i := 0; i < 2; i++ {
			vx.Assert(vx.GoStartedName(i) == "Start", "C12:front-ends-are-started")
			if vx.GoStartedOn(i, h) {
				onH++
			}
			if vx.GoStartedOn(i, g) {
				onG++
			}
		}
		vx.Assert(onH == 1 && onG == 1, "C12:every-front-end-started-exactly-once")
	}
	fail := vx.Choose(3)
	if fail == 1 {
		h.failStop = true
	} else if fail == 2 {
		g.failStop = true
	}
	err = a.Stop()
	vx.Assert(vx.ChanClosed(a.sq), "C12:stop-closes-the-submission-queue")
	if fail == 0 {
		vx.Reach("stopped")
		vx.Assert(err == nil && h.stopped == 1 && g.stopped == 1, "C12:every-front-end-stopped-exactly-once")
	} else {
		vx.Assert(err != nil, "C12:a-front-end-that-cannot-stop-fails-the-stop")
	}
}
