package sender

// C19 / C13: resolution of a stored receiver at dispatch, for every stored value.

import (
	"strings"
	"encoding/json"

	"github.com/prometheus/client_golang/prometheus"
	"github.com/resonatehq/resonate/internal/aio"
	"github.com/resonatehq/resonate/internal/kernel/bus"
	"github.com/resonatehq/resonate/internal/kernel/t_aio"
	"github.com/resonatehq/resonate/internal/metrics"
	"github.com/resonatehq/resonate/internal/vx"
	"github.com/resonatehq/resonate/pkg/message"
	"github.com/resonatehq/resonate/pkg/promise"
	"github.com/resonatehq/resonate/pkg/receiver"
	"github.com/resonatehq/resonate/pkg/task"
)

type vhAIO struct {
	aio.AIO
	cqes []*bus.CQE[t_aio.Submission, t_aio.Completion]
}

func (a *vhAIO) EnqueueCQE(cqe *bus.CQE[t_aio.Submission, t_aio.Completion]) { a.cqes = append(a.cqes, cqe) }

type vhPlugin struct {
	typ    string
	accept bool
	msgs   []*aio.Message
}

func (p *vhPlugin) String() string           { return p.typ }
func (p *vhPlugin) Type() string             { return p.typ }
func (p *vhPlugin) Start(chan<- error) error { return nil }
func (p *vhPlugin) Stop() error              { return nil }
func (p *vhPlugin) Enqueue(m *aio.Message) bool {
	if p.accept {
		p.msgs = append(p.msgs, m)
	}
	return p.accept
}

func VH_SN_Process() {
	a := &vhAIO{}
	httpP, pollP := &vhPlugin{typ: "http", accept: vx.Choose(2) == 1}, &vhPlugin{typ: "poll", accept: vx.Choose(2) == 1}
	targetData := vx.Bytes("target.data")
	w := &SenderWorker{plugins: map[string]aio.Plugin{"http": httpP, "poll": pollP},
		targets: map[string]*receiver.Recv{"default": {Type: "poll", Data: targetData}}, aio: a, metrics: metrics.New(prometheus.NewRegistry())}
	recv := vx.Bytes("task.recv") // whatever is stored in tasks.recv
	mtype := vx.String("mesg.type")
	vx.Assume(vx.Or(mtype == "invoke", mtype == "resume", mtype == "notify"))
	t := &task.Task{Id: vx.String("task.id"), Counter: vx.Int("task.counter"), Recv: recv, Mesg: &message.Mesg{Type: message.Type(mtype), Root: vx.String("root"), Leaf: vx.String("leaf")}}
	sub := &t_aio.SenderSubmission{Task: t, Promise: &promise.Promise{Id: vx.String("promise.id")}, ClaimHref: vx.String("claim"), CompleteHref: vx.String("complete"), HeartbeatHref: vx.String("heartbeat")}
	w.Process(&bus.SQE[t_aio.Submission, t_aio.Completion]{Id: "s", Submission: &t_aio.Submission{Kind: t_aio.Sender, Tags: map[string]string{}, Sender: sub}, Callback: func(*t_aio.Completion, error) {}})
	n := len(a.cqes) + len(httpP.msgs) + len(pollP.msgs)
	vx.Assert(n == 1, "C19:exactly-one-outcome-per-hand-off")
	if len(a.cqes) == 1 {
		vx.Reach("failed-hand-off")
		vx.Assert(a.cqes[0].Error != nil && a.cqes[0].Completion == nil, "C19:undeliverable-address-is-a-failed-hand-off")
		return
	}
	vx.Reach("delivered")
	var m *aio.Message
	if len(httpP.msgs) == 1 {
		m = httpP.msgs[0]
	} else {
		m = pollP.msgs[0]
	}
	vx.Assert(string(m.Type) == mtype, "C19:message-type-is-the-tasks")
	body, ok := vx.Unmarshalled(m.Body).(map[string]interface{})
	vx.Assert(ok, "C19:body-built")
	if mtype == "notify" {
		pp, _ := body["promise"].(*promise.Promise)
		vx.Assert(pp == sub.Promise, "C19:notification-carries-the-completed-promise")
	} else {
		tk, _ := body["task"].(*task.Task)
		href, _ := body["href"].(map[string]string)
		vx.Assert(tk == t && href["claim"] == sub.ClaimHref && href["complete"] == sub.CompleteHref && href["heartbeat"] == sub.HeartbeatHref, "C19:body-names-task-and-links")
	}
	// completing the message answers the kernel exactly once
	m.Done(true, nil)
	vx.Assert(len(a.cqes) == 1 && a.cqes[0].Completion != nil && a.cqes[0].Completion.Sender.Success, "C19:done-answers-the-kernel-once")
}

// VH_SN_Resolve: where a well-formed stored receiver is delivered.
func VH_SN_Resolve() {
	a := &vhAIO{}
	httpP, pollP := &vhPlugin{typ: "http", accept: true}, &vhPlugin{typ: "poll", accept: true}
	targetData := vx.Bytes("target.data")
	w := &SenderWorker{plugins: map[string]aio.Plugin{"http": httpP, "poll": pollP},
		targets: map[string]*receiver.Recv{"default": {Type: "poll", Data: targetData}}, aio: a, metrics: metrics.New(prometheus.NewRegistry())}
	vhResolveOnce(w, a, httpP, pollP, targetData, "")
}

// VH_SN_Resolve2: the worker handles one message after another; whatever it keeps between messages, the second
// message (arbitrary, different address) is resolved by its own stored receiver exactly as a first one would be.
func VH_SN_Resolve2() {
	a := &vhAIO{}
	httpP, pollP := &vhPlugin{typ: "http", accept: true}, &vhPlugin{typ: "poll", accept: true}
	targetData := vx.Bytes("target.data")
	w := &SenderWorker{plugins: map[string]aio.Plugin{"http": httpP, "poll": pollP},
		targets: map[string]*receiver.Recv{"default": {Type: "poll", Data: targetData}}, aio: a, metrics: metrics.New(prometheus.NewRegistry())}
	vhResolveOnce(w, a, httpP, pollP, targetData, "first.")
	a.cqes, httpP.msgs, pollP.msgs = nil, nil, nil
	vx.Reach("second-message")
	vhResolveOnce(w, a, httpP, pollP, targetData, "second.")
}

func vhResolveOnce(w *SenderWorker, a *vhAIO, httpP, pollP *vhPlugin, targetData []byte, pfx string) {
	logical := vx.Choose(2) == 0
	name := vx.String(pfx + "logical")
	phys := &receiver.Recv{Type: vx.String(pfx + "phys.type"), Data: vx.Bytes(pfx + "phys.data")}
	var recv []byte
	if logical {
		recv, _ = json.Marshal(&name)
	} else {
		var merr error
		recv, merr = json.Marshal(phys)
		if merr != nil {
			return // data that is not a JSON text cannot have been stored as a receiver object
		}
	}
	t := &task.Task{Id: vx.String(pfx + "task.id"), Counter: vx.Int(pfx + "task.counter"), Recv: recv, Mesg: &message.Mesg{Type: message.Invoke, Root: "r", Leaf: "r"}}
	sub := &t_aio.SenderSubmission{Task: t, ClaimHref: "c", CompleteHref: "d", HeartbeatHref: "h"}
	w.Process(&bus.SQE[t_aio.Submission, t_aio.Completion]{Id: "s", Submission: &t_aio.Submission{Kind: t_aio.Sender, Tags: map[string]string{}, Sender: sub}, Callback: func(*t_aio.Completion, error) {}})
	failed := len(a.cqes) == 1
	toHttp, toPoll := len(httpP.msgs) == 1, len(pollP.msgs) == 1
	vx.Assert(vhB(failed)+vhB(toHttp)+vhB(toPoll) == 1, "C19:exactly-one-outcome-per-hand-off")
	if !logical {
		vx.Reach("physical")
		vx.Assert(toHttp == (phys.Type == "http") && toPoll == (phys.Type == "poll"), "C19:physical-receiver-used-as-given")
		if toHttp {
			vx.Assert(vx.BytesEq(httpP.msgs[0].Data, phys.Data), "C19:physical-data-as-given")
		}
		if toPoll {
			vx.Assert(vx.BytesEq(pollP.msgs[0].Data, phys.Data), "C19:physical-data-as-given")
		}
		return
	}
	vx.Reach("logical")
	if name == "default" {
		vx.Reach("configured-target")
		vx.Assert(toPoll && vx.BytesEq(pollP.msgs[0].Data, targetData), "C19:logical-name-resolves-to-the-configured-target")
		return
	}
	scheme := vx.UrlScheme(name)
	isHttp := vx.UrlValid(name) && (scheme == "http" || scheme == "https")
	isPoll := vx.UrlValid(name) && scheme == "poll"
	vx.Assert(toHttp == isHttp && toPoll == isPoll, "C19:otherwise-resolved-by-url-scheme")
	vx.Assert(failed == (!isHttp && !isPoll), "C19:unknown-address-is-a-failed-hand-off")
	// the receiver data handed to the transport is exactly what the address says
	if toPoll {
		vx.Reach("poll-address")
		var m map[string]string
		err := json.Unmarshal(pollP.msgs[0].Data, &m)
		vx.Assert(err == nil && m != nil, "C19:poll-address-data-decodes")
		if m != nil {
			id := strings.TrimPrefix(vx.UrlPath(name), "/")
			vx.Assert(vx.And(vx.MapHas(m, "group"), vx.MapGet(m, "group") == vx.UrlHost(name)), "C19:poll-address-group-is-the-host")
			vx.Assert(vx.MapHas(m, "id") == (id != ""), "C19:poll-address-id-present-iff-path")
			vx.Assert(vx.Implies(id != "", vx.MapGet(m, "id") == id), "C19:poll-address-id-is-the-path")
		}
	}
	if toHttp {
		vx.Reach("http-address")
		var m map[string]string
		err := json.Unmarshal(httpP.msgs[0].Data, &m)
		vx.Assert(err == nil && m != nil, "C19:http-address-data-decodes")
		if m != nil {
			vx.Assert(vx.And(vx.MapHas(m, "url"), vx.MapGet(m, "url") == vx.UrlString(name)), "C19:http-address-url-is-the-address")
		}
	}
}

func vhB(b bool) int {
	if b {
		return 1
	}
	return 0
}

// VH_SN_New: the real constructor builds the target table from the configuration: every configured
// (distinctly named) target is in the table exactly as configured - a target named "default" included -
// and the built-in poll target "default" exists only when the configuration does not define that name.
func VH_SN_New() {
	n1, n2 := vx.String("name1"), vx.String("name2")
	t1, t2 := vx.String("type1"), vx.String("type2")
	d1, d2 := vx.Bytes("data1"), vx.Bytes("data2")
	vx.Assume(n1 != n2)
	cfg := &Config{Size: 1, Targets: []TargetConfig{{Name: n1, Type: t1, Data: d1}, {Name: n2, Type: t2, Data: d2}}}
	s, err := New(&vhAIO{}, metrics.New(prometheus.NewRegistry()), cfg)
	vx.Assert(err == nil && s != nil && s.worker != nil, "C19:sender-constructs")
	tg := s.worker.targets
	r1, ok1 := tg[n1]
	r2, ok2 := tg[n2]
	vx.Assert(ok1 && r1 != nil && r1.Type == t1 && vx.BytesEq(r1.Data, d1), "C19:configured-target-in-the-table-as-configured")
	vx.Assert(ok2 && r2 != nil && r2.Type == t2 && vx.BytesEq(r2.Data, d2), "C19:configured-target-in-the-table-as-configured")
	def, okd := tg["default"]
	vx.Assert(okd && def != nil, "C19:default-target-always-present")
	if n1 != "default" && n2 != "default" {
		vx.Reach("builtin-default")
		vx.Assert(def.Type == "poll", "C19:builtin-default-is-the-poll-group-default")
	} else {
		vx.Reach("configured-default")
	}
}

// VH_SN_Queued: transports only queue a message; its bytes are read later (by the transport worker, by the
// listener's connection). Two messages handed over one after the other are both still queued afterwards: each must
// still carry its own body - the first one's bytes must not depend on anything the worker did for the second.
func VH_SN_Queued() {
	a := &vhAIO{}
	httpP, pollP := &vhPlugin{typ: "http", accept: true}, &vhPlugin{typ: "poll", accept: true}
	targetData := vx.Bytes("target.data")
	w := &SenderWorker{plugins: map[string]aio.Plugin{"http": httpP, "poll": pollP},
		targets: map[string]*receiver.Recv{"default": {Type: "poll", Data: targetData}}, aio: a, metrics: metrics.New(prometheus.NewRegistry())}
	name := "default"
	recv, _ := json.Marshal(&name)
	var ts [2]*task.Task
	var subs [2]*t_aio.SenderSubmission
	var mtypes [2]string
	for i, pfx := range []string{"first.", "second."} {
		mtypes[i] = vx.String(pfx + "mesg.type")
		vx.Assume(vx.Or(mtypes[i] == "invoke", mtypes[i] == "resume", mtypes[i] == "notify"))
		ts[i] = &task.Task{Id: vx.String(pfx + "task.id"), Counter: vx.Int(pfx + "task.counter"), Recv: recv, Mesg: &message.Mesg{Type: message.Type(mtypes[i]), Root: vx.String(pfx + "root"), Leaf: vx.String(pfx + "leaf")}}
		subs[i] = &t_aio.SenderSubmission{Task: ts[i], Promise: &promise.Promise{Id: vx.String(pfx + "promise.id")}, ClaimHref: vx.String(pfx + "claim"), CompleteHref: vx.String(pfx + "complete"), HeartbeatHref: vx.String(pfx + "heartbeat")}
		w.Process(&bus.SQE[t_aio.Submission, t_aio.Completion]{Id: "s", Submission: &t_aio.Submission{Kind: t_aio.Sender, Tags: map[string]string{}, Sender: subs[i]}, Callback: func(*t_aio.Completion, error) {}})
	}
	vx.Assert(len(pollP.msgs) == 2 && len(httpP.msgs) == 0 && len(a.cqes) == 0, "C19:both-messages-handed-to-the-configured-target")
	if len(pollP.msgs) != 2 {
		return
	}
	vx.Reach("both-queued")
	for i := 0; i < 2; i++ {
		m := pollP.msgs[i]
		vx.Assert(string(m.Type) == mtypes[i], "C19:message-type-is-the-tasks")
		body, ok := vx.Unmarshalled(m.Body).(map[string]interface{})
		vx.Assert(ok, "C19:queued-message-keeps-its-own-body")
		if !ok {
			continue
		}
		if mtypes[i] == "notify" {
			pp, _ := body["promise"].(*promise.Promise)
			vx.Assert(pp == subs[i].Promise, "C19:queued-message-keeps-its-own-body")
		} else {
			tk, _ := body["task"].(*task.Task)
			href, _ := body["href"].(map[string]string)
			vx.Assert(tk == ts[i] && href["claim"] == subs[i].ClaimHref && href["complete"] == subs[i].CompleteHref && href["heartbeat"] == subs[i].HeartbeatHref, "C19:queued-message-keeps-its-own-body")
		}
		vx.Assert(vx.BytesEq(m.Data, targetData), "C19:queued-message-keeps-its-own-address")
	}
}
