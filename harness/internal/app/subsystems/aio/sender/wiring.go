package sender

// C12 / C11 / C08 wiring of the sender subsystem: Start starts every plugin (a plugin that cannot start fails the
// start) and launches the worker exactly once; Enqueue accepts while the queue has room and refuses without side
// effect when full; Stop closes the queue and stops every plugin; every instantiated plugin is known to the worker
// under its own type.

import (
	"errors"

	"github.com/prometheus/client_golang/prometheus"
	"github.com/resonatehq/resonate/internal/aio"
	"github.com/resonatehq/resonate/internal/kernel/bus"
	"github.com/resonatehq/resonate/internal/kernel/t_aio"
	"github.com/resonatehq/resonate/internal/metrics"
	"github.com/resonatehq/resonate/internal/vx"
)

type vhLifePlugin struct {
	typ               string
	started, stopped  int
	failStart         bool
	errs              chan<- error
}

func (p *vhLifePlugin) String() string { return p.typ }
func (p *vhLifePlugin) Type() string   { return p.typ }
func (p *vhLifePlugin) Start(e chan<- error) error {
	p.started++
	p.errs = e
	if p.failStart {
		return errors.New("plugin start failed")
	}
	return nil
}
func (p *vhLifePlugin) Stop() error              { p.stopped++; return nil }
func (p *vhLifePlugin) Enqueue(*aio.Message) bool { return true }

func VH_W_Sender() {
	vx.IgnoreGo()
	size := 1 + vx.Choose(2)
	s, err := New(nil, metrics.New(prometheus.NewRegistry()), &Config{Size: size})
	vx.Assert(err == nil && s != nil && s.worker != nil && s.Kind() == t_aio.Sender, "C12:sender-constructs-its-worker")
	if err != nil || s == nil || s.worker == nil {
		return
	}
	vx.Assert(cap(s.sq) >= 1, "C12:queue-has-room-for-a-submission")
	room := cap(s.sq)
	for i := 0; i < room+1; i++ {
		ok := s.Enqueue(&bus.SQE[t_aio.Submission, t_aio.Completion]{Id: "x"})
		vx.Assert(ok == (i < room), "C12:enqueue-accepts-exactly-while-there-is-room")
		vx.Assert(len(s.sq) == min(i+1, room), "C12:a-refused-submission-is-not-queued")
	}
	vx.Assert(len(s.worker.sq) == room, "C12:worker-reads-the-subsystem-queue")

	p1, p2 := &vhLifePlugin{typ: "http"}, &vhLifePlugin{typ: "poll"}
	s.plugins = []aio.Plugin{p1, p2}
	fail := vx.Choose(3)
	if fail == 1 {
		p1.failStart = true
	} else if fail == 2 {
		p2.failStart = true
	}
	errs := make(chan error, 1)
	var errsSend chan<- error = errs
	err = s.Start(errs)
	if fail == 0 {
		vx.Reach("started")
		vx.Assert(err == nil && p1.started == 1 && p2.started == 1, "C11:every-plugin-started-exactly-once")
		vx.Assert(p1.errs == errsSend && p2.errs == errsSend, "C12:plugins-report-failures-on-the-subsystem-error-channel")
		k := 0
	for i := 0; i < vx.GoStarted(); i++ {
		if vx.GoStartedName(i) == "Start" && vx.GoStartedOn(i, s.worker) {
			k++
		}
	}
	vx.Assert(k == 1, "C11:the-worker-is-started-exactly-once")
	} else {
		vx.Reach("start-failed")
		vx.Assert(err != nil, "C11:a-plugin-that-cannot-start-fails-the-start")
		return
	}
	vx.Assert(s.Stop() == nil && vx.ChanClosed(s.sq), "C12:stop-closes-the-queue")
	vx.Assert(p1.stopped == 1 && p2.stopped == 1, "C12:every-plugin-stopped-exactly-once")
	vx.Reach("done")
}

// The plugins the configuration enables are exactly the ones instantiated, each registered with the worker under
// the type name stored receivers use ("http", "poll").
func VH_W_SenderPlugins() {
	vx.IgnoreGo()
	enH, enP := vx.Choose(2) == 1, vx.Choose(2) == 1
	cfg := &Config{Size: 1}
	cfg.Plugins.Http.Enabled = enH
	cfg.Plugins.Http.Config.Size, cfg.Plugins.Http.Config.Workers, cfg.Plugins.Http.Config.Timeout = 1, 1, 1000000000
	cfg.Plugins.Poll.Enabled = enP
	cfg.Plugins.Poll.Config.Size, cfg.Plugins.Poll.Config.BufferSize, cfg.Plugins.Poll.Config.MaxConnections, cfg.Plugins.Poll.Config.Addr = 1, 1, 1, ":0"
	cfg.Plugins.Poll.Config.Timeout = 1000000000
	s, err := New(nil, metrics.New(prometheus.NewRegistry()), cfg)
	vx.Assert(err == nil && s != nil && s.worker != nil, "C19:sender-constructs")
	if err != nil || s == nil || s.worker == nil {
		return
	}
	want := 0
	if enH {
		want++
	}
	if enP {
		want++
	}
	vx.Assert(len(s.plugins) == want && len(s.worker.plugins) == want, "C19:exactly-the-enabled-transports-are-instantiated")
	ph, okH := s.worker.plugins["http"]
	pp, okP := s.worker.plugins["poll"]
	vx.Assert(okH == enH && okP == enP, "C19:transports-registered-under-the-receiver-type-names")
	if okH {
		vx.Assert(ph != nil && ph.Type() == "http", "C19:transports-registered-under-the-receiver-type-names")
	}
	if okP {
		vx.Assert(pp != nil && pp.Type() == "poll", "C19:transports-registered-under-the-receiver-type-names")
	}
	for _, p := range s.plugins {
		k := 0
		for _, q := range s.worker.plugins {
			if p == q {
				k++
			}
		}
		vx.Assert(k == 1, "C19:every-instantiated-transport-is-the-one-the-worker-uses")
	}
	vx.Reach("done")
}
