// target: internal/app/subsystems/aio/sender
package sender

import (
	"testing"

	"github.com/prometheus/client_golang/prometheus"
	"github.com/resonatehq/resonate/internal/aio"
	"github.com/resonatehq/resonate/internal/kernel/bus"
	"github.com/resonatehq/resonate/internal/kernel/t_aio"
	"github.com/resonatehq/resonate/internal/metrics"
	"github.com/resonatehq/resonate/pkg/message"
	"github.com/resonatehq/resonate/pkg/receiver"
	"github.com/resonatehq/resonate/pkg/task"
)

type vnAIO struct {
	aio.AIO
	cqes []*bus.CQE[t_aio.Submission, t_aio.Completion]
}

func (a *vnAIO) EnqueueCQE(cqe *bus.CQE[t_aio.Submission, t_aio.Completion]) { a.cqes = append(a.cqes, cqe) }

// D5: a stored receiver `null` (a client can register a callback with "recv": null) makes the
// sender assert at every dispatch cycle: a poison pill.
func TestVN_D5_SenderNullRecv(t *testing.T) {
	a := &vnAIO{}
	w := &SenderWorker{plugins: map[string]aio.Plugin{}, targets: map[string]*receiver.Recv{}, aio: a, metrics: metrics.New(prometheus.NewRegistry())}
	defer func() {
		if r := recover(); r != nil {
			t.Fatalf("sender panicked on a stored recv of null: %v", r)
		}
	}()
	w.Process(&bus.SQE[t_aio.Submission, t_aio.Completion]{Id: "s", Submission: &t_aio.Submission{Kind: t_aio.Sender, Sender: &t_aio.SenderSubmission{
		Task: &task.Task{Id: "t", Counter: 1, Recv: []byte("null"), Mesg: &message.Mesg{Type: message.Resume, Root: "r", Leaf: "l"}}}}, Callback: func(*t_aio.Completion, error) {}})
	if len(a.cqes) != 1 || a.cqes[0].Error == nil {
		t.Fatalf("expected a failed hand-off, got %v", a.cqes)
	}
}
