package echo

// C12 wiring of the echo subsystem: constructor, Start (every worker launched exactly once), Enqueue (accepts
// while the queue has room, refuses without side effect when it is full), Stop (closes the queue).

import (
	"github.com/prometheus/client_golang/prometheus"
	"github.com/resonatehq/resonate/internal/kernel/bus"
	"github.com/resonatehq/resonate/internal/kernel/t_aio"
	"github.com/resonatehq/resonate/internal/metrics"
	"github.com/resonatehq/resonate/internal/vx"
)

func VH_W_Echo() {
	vx.IgnoreGo()
	n, size := 1+vx.Choose(3), 1+vx.Choose(2)
	e, err := New(nil, metrics.New(prometheus.NewRegistry()), &Config{Size: size, Workers: n})
	vx.Assert(err == nil && e != nil && len(e.workers) == n && e.Kind() == t_aio.Echo, "C12:echo-constructs-its-workers")
	if err != nil || e == nil {
		return
	}
	vx.Assert(cap(e.sq) >= 1, "C12:queue-has-room-for-a-submission")
	room := cap(e.sq)
	for i := 0; i < room+1; i++ {
		sqe := &bus.SQE[t_aio.Submission, t_aio.Completion]{Id: "x"}
		ok := e.Enqueue(sqe)
		vx.Assert(ok == (i < room), "C12:enqueue-accepts-exactly-while-there-is-room")
		vx.Assert(len(e.sq) == min(i+1, room), "C12:a-refused-submission-is-not-queued")
	}
	for _, w := range e.workers {
		var ws chan<- *bus.SQE[t_aio.Submission, t_aio.Completion] = e.sq
		_ = ws
		vx.Assert(w != nil && w.sq != nil && len(w.sq) == room, "C12:workers-read-the-subsystem-queue")
	}
	vx.Assert(e.Start(nil) == nil, "C12:start-succeeds")
	for _, w := range e.workers {
		k := 0
		for i := 0; i < vx.GoStarted(); i++ {
			if vx.GoStartedName(i) == "Start" && vx.GoStartedOn(i, w) {
				k++
			}
		}
		vx.Assert(k == 1, "C12:every-worker-started-exactly-once")
	}
	vx.Assert(e.Stop() == nil && vx.ChanClosed(e.sq), "C12:stop-closes-the-queue")
	vx.Reach("done")
}
