package postgres

import (
	"database/sql"

	"github.com/prometheus/client_golang/prometheus"
	"github.com/resonatehq/resonate/internal/metrics"
)

// VXWorker: see the SQLite twin. One worker of the real constructor's worker set.
func VXWorker(db *sql.DB) *PostgresStoreWorker {
	s, err := New(nil, metrics.New(prometheus.NewRegistry()), &Config{Size: 1, BatchSize: 1, Workers: 1, Host: "h", Port: "1", Username: "u", Password: "p", Database: "d", TxTimeout: 1000000000})
	if err != nil || s == nil || len(s.workers) != 1 || s.workers[0] == nil {
		panic("postgres store constructor failed")
	}
	s.workers[0].db = db
	s.workers[0].config = &Config{}
	return s.workers[0]
}
