// target: internal/app/coroutines
// Demonstrations against the real build of the defects recorded in /verif/known_findings.txt.
// These tests FAIL on the current tree - that is their purpose (they pass once a defect is repaired).
package coroutines

import (
	"testing"

	"github.com/resonatehq/resonate/internal/kernel/t_aio"
	"github.com/resonatehq/resonate/internal/kernel/t_api"
	"github.com/resonatehq/resonate/pkg/promise"
)

// C04: create with a timeout that has already passed is answered PENDING.
func TestVNKnown_CreateExpired(t *testing.T) {
	w := vnNew(t)
	res, err := w.Run(CreatePromise, &t_api.Request{Kind: t_api.CreatePromise, CreatePromise: &t_api.CreatePromiseRequest{Id: "p", Timeout: 5}}) // clock starts at 1000
	if err != nil {
		t.Fatal(err)
	}
	if p := res.CreatePromise.Promise; p.State == promise.Pending && p.Timeout <= w.now {
		t.Fatalf("clock=%d: create answered state=%s with timeout=%d", w.now, p.State, p.Timeout)
	}
}

// C05 (D12): subscription ids are derived as "__notify:<promise>:<id>"; (promise "a", id "b:c") and
// (promise "a:b", id "c") collide, the second registration is acknowledged but not stored.
func TestVNKnown_AmbiguousSubscriptionId(t *testing.T) {
	w := vnNew(t)
	vnCreate(t, w, "a", 1<<40, nil)
	vnCreate(t, w, "a:b", 1<<40, nil)
	for _, s := range []struct{ pid, id string }{{"a", "b:c"}, {"a:b", "c"}} {
		res, err := w.Run(CreateSubscription, &t_api.Request{Kind: t_api.CreateSubscription, CreateSubscription: &t_api.CreateSubscriptionRequest{Id: s.id, PromiseId: s.pid, Timeout: 1 << 40, Recv: []byte(`"default"`)}})
		if err != nil {
			t.Fatal(err)
		}
		n := w.QueryInt(`SELECT count(*) FROM callbacks WHERE promise_id = ?`, s.pid)
		if n != 1 && res.CreateSubscription.Promise.State == promise.Pending {
			t.Fatalf("subscription %q on pending promise %q acknowledged with status %d but not stored", s.id, s.pid, res.CreateSubscription.Status)
		}
	}
}

// C05: two completions of one promise race; the loser's transaction still runs
// TASK_COMPLETE_BY_ROOT_ID and finishes the notification task the winner created.
func TestVNKnown_LosingCompletionFinishesNotifyTask(t *testing.T) {
	w := vnNew(t)
	vnCreate(t, w, "p", 1<<40, nil)
	if _, err := w.Run(CreateSubscription, &t_api.Request{Kind: t_api.CreateSubscription, CreateSubscription: &t_api.CreateSubscriptionRequest{Id: "s", PromiseId: "p", Timeout: 1 << 40, Recv: []byte(`"default"`)}}); err != nil {
		t.Fatal(err)
	}
	// the loser has read the promise as pending (store op 0); before its completion transaction
	// (store op 1) the winner completes the promise through the real coroutine
	w.nStore = 0
	inner := false
	w.BeforeStore = func(n int, sub *t_aio.Submission) {
		if n == 1 && !inner {
			inner = true
			w2 := *w
			w2.queue, w2.BeforeStore = nil, nil
			res, err := w2.Run(CompletePromise, &t_api.Request{Kind: t_api.CompletePromise, CompletePromise: &t_api.CompletePromiseRequest{Id: "p", State: promise.Resolved}})
			if err != nil || res.CompletePromise.Status != t_api.StatusCreated {
				t.Fatalf("winner: %v %v", res, err)
			}
			if got := w.QueryInt(`SELECT state FROM tasks WHERE id = '__notify:p:s'`); got != 1 {
				t.Fatalf("winner did not create the notification task in state Init (state=%d)", got)
			}
		}
	}
	if _, err := w.Run(CompletePromise, &t_api.Request{Kind: t_api.CompletePromise, CompletePromise: &t_api.CompletePromiseRequest{Id: "p", State: promise.Rejected}}); err != nil {
		t.Fatal(err)
	}
	if got := w.QueryInt(`SELECT state FROM tasks WHERE id = '__notify:p:s'`); got != 1 {
		t.Fatalf("the notification task was finished (state=%d) by the completion that lost the race, before it was ever dispatched", got)
	}
}
