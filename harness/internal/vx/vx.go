// Package vx: harness intrinsics. Every function is interpreted by the
// symbolic engine (/verif/engine); natively they panic.
package vx

import (
	"time"
	"database/sql"

	"github.com/gin-gonic/gin"

	"github.com/resonatehq/gocoro"
	"github.com/resonatehq/resonate/internal/kernel/t_aio"
)

const (
	Sequential = 0
	HavocMode  = 1
)

// Faults(n): budget of failing store submissions.
func Faults(n int) int { return n << 8 }

type Coro = gocoro.Coroutine[*t_aio.Submission, *t_aio.Completion, any]

func Coroutine(flags int) Coro                 { panic("intrinsic") }
func AutoO2(label string)                      { panic("intrinsic") }
func SetConfig(cfg any)                        { panic("intrinsic") }
func UseStore(s any)                           { panic("intrinsic") }
func UseRouter(r any)                          { panic("intrinsic") }
func Tick() int64                              { panic("intrinsic") }
func EnvStep()                                 { panic("intrinsic") }
func NYields() int                             { panic("intrinsic") }
func YieldKind(i int) string                   { panic("intrinsic") }
func YieldFault(i int) string                  { panic("intrinsic") }
func YieldPre(i int) int                       { panic("intrinsic") }
func YieldPost(i int) int                      { panic("intrinsic") }
func YieldEnvPre(i int) int                    { panic("intrinsic") }
func YieldTime(i int) int64                    { panic("intrinsic") }
func YieldSub(i int) *t_aio.Submission         { panic("intrinsic") }
func YieldOutcome(i int) string                { panic("intrinsic") }
func YieldRecv(i int) []byte                   { panic("intrinsic") }


func Int64(name string) int64                  { panic("intrinsic") }
func Int(name string) int                      { panic("intrinsic") }
func Int32(name string) int32                  { panic("intrinsic") }
func Bool(name string) bool                    { panic("intrinsic") }
func String(name string) string                { panic("intrinsic") }
func Bytes(name string) []byte                 { panic("intrinsic") }
func StringPtr(name string) *string            { panic("intrinsic") }
func Int64Ptr(name string) *int64              { panic("intrinsic") }
func Tags(name string, n int) map[string]string { panic("intrinsic") }
func Choose(n int) int                         { panic("intrinsic") }
func Concrete(x int64, lo, hi int) int         { panic("intrinsic") }
func Opt(name string, def int) int             { panic("intrinsic") }

func And(bs ...bool) bool                      { panic("intrinsic") }
func Or(bs ...bool) bool                       { panic("intrinsic") }
func Not(b bool) bool                          { panic("intrinsic") }
func Implies(a, b bool) bool                   { panic("intrinsic") }
func Iff(a, b bool) bool                       { panic("intrinsic") }
func IteInt64(c bool, a, b int64) int64        { panic("intrinsic") }
func IteInt(c bool, a, b int) int              { panic("intrinsic") }
func IteString(c bool, a, b string) string     { panic("intrinsic") }
func IteBool(c bool, a, b bool) bool           { panic("intrinsic") }
func Assume(c bool)                            { panic("intrinsic") }
func Assert(c bool, label string)              { panic("intrinsic") }
func Reach(label string)                       { panic("intrinsic") }
func PanicOK(ok bool)                          { panic("intrinsic") }
func BytesEq(a, b []byte) bool                 { panic("intrinsic") }
func BytesNil(a []byte) bool                   { panic("intrinsic") }
func BytesStr(a []byte) string                 { panic("intrinsic") }
func MapEq(a, b map[string]string) bool        { panic("intrinsic") }
func MapGet(m map[string]string, k string) string { panic("intrinsic") }
func MapHas(m map[string]string, k string) bool   { panic("intrinsic") }
func StrPtrEq(a, b *string) bool               { panic("intrinsic") }
func Int64PtrEq(a, b *int64) bool              { panic("intrinsic") }
func HasPrefix(s, p string) bool               { panic("intrinsic") }
func GrpcCode(err error) int                   { panic("intrinsic") }
func ServeRegistered(kind int) any              { panic("intrinsic") }
func BlockOK()                                 { panic("intrinsic") }
func NondetSelect()                            { panic("intrinsic") }
func OnSelect(f func())                        { panic("intrinsic") }
func OnBlockingSelect(f func())                { panic("intrinsic") }
func FilesRemoved() int                        { panic("intrinsic") }
func FileRemoved(i int) string                 { panic("intrinsic") }
func ServeRegistersBackground(fn any) int      { panic("intrinsic") }
func ServeBackgroundCount() int                { panic("intrinsic") }
func WarmBegin()                                { panic("intrinsic") }
func WarmEnd()                                  { panic("intrinsic") }
func WarmSenderMayFail()                        { panic("intrinsic") }
func Accepts(cond bool, label string)          { panic("intrinsic") }
func TablesDropped() int                       { panic("intrinsic") }
func SchemaExecs() int                         { panic("intrinsic") }
func SchemaNotIdempotent() int                 { panic("intrinsic") }
func GrpcRegisteredImpl(i int) any             { panic("intrinsic") }
func HttpSentTimeout(i int) int64              { panic("intrinsic") }
func SqlPool(setting string) int               { panic("intrinsic") }
func SqlOpens() int                            { panic("intrinsic") }
func SqlOpenDriver(i int) string               { panic("intrinsic") }
func SqlOpenDSN(i int) string                  { panic("intrinsic") }
func DBClosed() int                            { panic("intrinsic") }
func FieldTag(sample any, field, key string) string { panic("intrinsic") }
func DurationMs(name string, lo, hi int) time.Duration { panic("intrinsic") }
func JwtClaimsNext() any                       { panic("intrinsic") }
func JwtOutcome() string                       { panic("intrinsic") }
func CancelRequest()                           { panic("intrinsic") }
func HttpErrors() int                          { panic("intrinsic") }
func HttpErrorCode(i int) int                  { panic("intrinsic") }
func Lifecycle() string                        { panic("intrinsic") }
func SameDatum(a, b any) bool                  { panic("intrinsic") }
func IgnoreGo()                                { panic("intrinsic") }
func GoStarted() int                           { panic("intrinsic") }
func GoStartedName(i int) string               { panic("intrinsic") }
func GoStartedOn(i int, recv any) bool         { panic("intrinsic") }
func SchedulerCapacity(k int)                  { panic("intrinsic") }
func SchedulerRan()                            { panic("intrinsic") }
func SchedulerMayRefuse()                      { panic("intrinsic") }
// GinContext: wildcards are the catch-all route parameters (*name), which gin delivers with a leading "/".
func GinContext(method string, wildcards ...string) *gin.Context { panic("intrinsic") }
func GinBound(kind string, i int) any           { panic("intrinsic") }
func GinParamSent(name string) string          { panic("intrinsic") }
func HttpSent() int                            { panic("intrinsic") }
func HttpSentMethod(i int) string              { panic("intrinsic") }
func HttpSentURL(i int) string                 { panic("intrinsic") }
func HttpSentBody(i int) []byte                { panic("intrinsic") }
func HttpSentStatus(i int) int                 { panic("intrinsic") }
func HttpSentHeader(k string) string           { panic("intrinsic") }
func Atoi(s string) int                        { panic("intrinsic") }
func HttpReplies() int                         { panic("intrinsic") }
func HttpCode(i int) int                       { panic("intrinsic") }
func HttpBody(i int) any                       { panic("intrinsic") }
func ChanClosed(ch any) bool                   { panic("intrinsic") }
func ChanSends(ch any) int                     { panic("intrinsic") }
func SchemaDiff() string                       { panic("intrinsic") }
func NamedConsts(pkg, typeName string) []int64 { panic("intrinsic") }
func Unmarshalled(b []byte) any                { panic("intrinsic") }
func UrlScheme(u string) string                { panic("intrinsic") }
func UrlHost(u string) string                  { panic("intrinsic") }
func UrlPath(u string) string                  { panic("intrinsic") }
func UrlString(u string) string                { panic("intrinsic") }
func UrlValid(u string) bool                   { panic("intrinsic") }
func JsonValid(s string) bool                  { panic("intrinsic") }
func JsonOfString(s string) string             { panic("intrinsic") }
func JsonDecodes(b []byte, sample any) bool      { panic("intrinsic") }
func JsonStringField(b []byte, sample any, field string) string { panic("intrinsic") }
func JsonUnknownFields(s string, sample any) bool { panic("intrinsic") }
func TemplateTrouble() bool                    { panic("intrinsic") }
func Like(s, pattern string) bool              { panic("intrinsic") }
func LikePattern(clientPattern string) string  { panic("intrinsic") }
func TmplExpand(tmpl, id, ts string) string    { panic("intrinsic") }
func Itoa(n int64) string                      { panic("intrinsic") }
func CronNext(t int64, cron string) int64      { panic("intrinsic") }
func CronValid(cron string) bool               { panic("intrinsic") }
func StrPtrVal(p *string) string               { panic("intrinsic") }
func Int64PtrVal(p *int64) int64               { panic("intrinsic") }
func IsNil(p any) bool                         { panic("intrinsic") }
func Restore(snap int)                         { panic("intrinsic") }
func SetDialect(d string)                      { panic("intrinsic") }

// database
func DB(backend string) *sql.DB                { panic("intrinsic") }
func Slots(table string, n int)                { panic("intrinsic") }
func Havoc()                                   { panic("intrinsic") }
func HavocRaw()                                { panic("intrinsic") }
func Snap() int                                { panic("intrinsic") }
func SqlFaults(n int)                          { panic("intrinsic") }
func FaultsTaken() int                         { panic("intrinsic") }
func TxStats() (opened, committed, rolledBack int) { panic("intrinsic") }
func NSlots(table string) int                  { panic("intrinsic") }
func SameDB(a, b int) bool                     { panic("intrinsic") }
func SameTable(a, b int, table string) bool    { panic("intrinsic") }
func SameRow(a, b Row) bool                    { panic("intrinsic") }
func NextSort(snap int, table string) int64    { panic("intrinsic") }
func NCommits() int                            { panic("intrinsic") }
func CommitPre(i int) int                      { panic("intrinsic") }
func CommitPost(i int) int                     { panic("intrinsic") }
func CommitTime(i int) int64                   { panic("intrinsic") }
func CheckInv(snap int, label string)          { panic("intrinsic") }
func CheckG(pre, post int, label string)       { panic("intrinsic") }
func AssumeG(pre, post int)                    { panic("intrinsic") }
func Now() int64                               { panic("intrinsic") }
func SetNow(t int64)                           { panic("intrinsic") }

// Row is a view of one row of a snapshot: a fixed slot, or the row whose key column equals Key.
type Row struct {
	Snap   int
	Table  string
	SlotNo int
	Key    string
	KeyCol string
}

func Lookup(snap int, table string, key string) Row            { panic("intrinsic") }
func LookupBy(snap int, table, col string, key string) Row     { panic("intrinsic") }
func Slot(snap int, table string, i int) Row                   { panic("intrinsic") }
func (r Row) Present() bool                                    { panic("intrinsic") }
func (r Row) Int(col string) int64                             { panic("intrinsic") }
func (r Row) Str(col string) string                            { panic("intrinsic") }
func (r Row) Null(col string) bool                             { panic("intrinsic") }
func (r Row) Bytes(col string) []byte                          { panic("intrinsic") }
func (r Row) Map(col string) map[string]string                 { panic("intrinsic") }
func (r Row) MesgType() string                                 { panic("intrinsic") }
func (r Row) MesgRoot() string                                 { panic("intrinsic") }
func (r Row) MesgLeaf() string                                 { panic("intrinsic") }
