#!/usr/bin/env python3
"""Writes /verif/MANIFEST.json from harness/registry.json and the texts below."""
import json, os
V = "/verif"
reg = json.load(open(f"{V}/harness/registry.json"))
TECH = "bounded symbolic execution of the real Go code (go/ssa) and the real SQL statement constants over a symbolic database, obligations decided by SMT (cvc5 1.0.x primary; z3 4.8.12 / z3 5.1.0 fallback)"
TEXT = {
 "C01": ("Write-once completion and immutable creation fields are proved as a two-state guarantee (G1) plus invariant (I2) for every store transaction that the promise coroutines (read/create/complete, callback/subscription registration, background time-out sweep) can commit from ANY invariant-satisfying database with <= N rows per table, under arbitrary interference by other requests before every store submission and with injected before/after-commit failures; every promise body in a response is compared with the row at its linearization point. Unsat within the bounds = holds for every value of ids, keys, values, tags, times and table contents; tests only sample a few sequential histories.", "3, 4/C01"),
 "C02": ("Linearizability through a rely/guarantee reduction (see evidence explanation): per-request obligations (response = sequential reference on the state of the decisive transaction; single effect) for all request kinds under arbitrary interference, plus inductiveness of the interference abstraction. This reaches every interleaving and batching of any number of requests within the row bounds, which porcupine on one seed cannot; it is weaker than an explicit product construction in that it relies on Inv/G being proved for every coroutine (it is).", "3, 4/C02"),
 "C03": ("Differential check of the real CreatePromise/CompletePromise coroutines against the reference table of the statement (DESIGN App. B) for every stored state (absent, pending, overdue, any completed state, any stored keys) and every request (key absent/equal/different, strict, state, time before/at/after the timeout), under interference and store faults; at most one insert and one pending->completed transition per id follows from G1 (checked on every commit).", "4/C03"),
 "C04": ("Exact time-outs: for symbolic tick times around the timeout the solver shows no response of read/create/complete reports pending at or after the deadline, every stored time-out happens at a tick >= timeout with empty value and completed_on = timeout, and a completion at or after the deadline never installs the caller's state/value; the sweep only touches pending overdue rows. The clock is a symbolic monotone sequence, so the boundary tick (clock == timeout) is covered, which the 1-second-tick test never hits.", "4/C04"),
 "C05": ("The real four-command completion transaction is executed on both backends' handlers over an arbitrary database: every registration of the promise becomes exactly one task with copied fields and is deleted, nothing else changes; the registration coroutines are checked under interference for 'acknowledged => reported completed or registration stored'. Invariant I3 (no registration outlives its promise) is re-proved for every commit of every promise coroutine.", "4/C05"),
 "C06": ("All-or-nothing at the store boundary under a symbolic fault position, acknowledgement only after commit, and the state invariant after every single commit of every coroutine (so any crash point between commits leaves a consistent state). The physical durability of the SQL engines is assumed.", "4/C06"),
 "C07": ("ClaimTask is checked against the statement's table for every (state, counter, request) combination under interference and faults, and the lexicographic monotonicity of (counter, state rank) (G2) plus I4 is proved for every transaction it commits; the task statements (update/heartbeat/complete-by-root) are checked as conditional writes on both backends.", "4/C07"),
 "C08": ("Routed creation (promise + invocation task in one transaction iff the router matched, with the router's receiver), create-with-task (refused without trace unless routed; otherwise promise and claimed task in one step), the completion transaction (all outstanding tasks of the root completed in the same step) and one dispatch cycle (only Init tasks with the read counter, one per root, none with an enqueued/claimed sibling; Enqueued only after a successful hand-off, failed hand-offs retried, notifications finished after the first attempt; hrefs name id and counter) are checked against the statement for arbitrary databases, router and sender outcomes.", "4/C08"),
 "C11": ("Convergence is decided as ranking lemmas (see explanation in the evidence): progress of min(batch, overdue) per fault-free instance for each of the five sweeps, termination of every path of every background coroutine under injected failures, and exactness of the sweeps' selects on both backends.", "4/C11"),
 "C12": ("Exactly-one-response is decided for the sequential skeleton only: kernel API EnqueueSQE (refused => answered once with the right error; accepted => stored and answered once on completion), every request coroutine (response xor *t_api.Error on every path under failures, no panic), every gRPC call (one kernel request, one reply or error). The concurrent half of the statement needs goroutine interleavings and is explicitly outside.", "4/C12"),
 "C13": ("Panic reachability: SMT decides for every path of every gRPC handler (symbolic request, real coroutine behind it), of the stored-data decoders and of every background coroutine whether a Go panic / failed assertion / nil dereference is reachable; a model is a concrete crashing request or stored value. Ten such defects were found, demonstrated natively and repaired (see known_findings.txt).", "4/C13"),
 "C15": ("Status tables are total on every status constant declared in the current source and map to the code of their class; for each gRPC handler the reply produced from the real kernel outcome agrees with it (flags, codes, exactly one reply).", "4/C15"),
 "C17": ("Translation validation of the two store backends: 27 command kinds x (same error, same result, same post-database) + schema comparison, all decided by SMT over the two real handlers and their own SQL texts; any edit to postgres.go that changes a guard, an argument binding or a SET list yields a model.", "4/C17"),
 "C18": ("The connection table and delivery step of the poll transport for every bounded operation sequence with symbolic groups/ids (the solver decides which coincide), buffer sizes and limits.", "4/C18"),
 "C20": ("Verbatim storage and exact id matching as SMT-decided equalities over arbitrary values through the real handlers, conversions and gRPC field copies.", "4/C20"),
 "C19": ("Each clause of receiver resolution is an SMT obligation over the real router and sender code for arbitrary tag values / stored receivers / plugin availability.", "4/C19"),
 "C14": ("Search statements of both backends are checked against the specification of a page for arbitrary tables, patterns, state masks, tags, limits and cursors; the coroutine's cursor logic (present iff page full, same query, SortId = last row) and the lazily timed-out rows are checked under interference; a two-page induction step shows no row is skipped or repeated when a cursor is followed while other requests interleave.", "4/C14"),
 "C09": ("The four lock coroutines run on an arbitrary lock table under interference and faults: acquire is refused iff another execution holds the resource (whatever its expiry) and otherwise sets owner/ttl/expiry = t + ttl; release removes exactly the caller's own lock; heartbeat extends exactly the rows of that process to t + ttl and never creates or transfers a lock; the sweep deletes exactly rows with expires_at <= t. Every lock row of another execution is shown unchanged by each transaction.", "4/C09"),
 "C10": ("One-step lemma of the firing sweep on an arbitrary schedule table with the cron library as an uninterpreted next(t,cron) > t: a schedule row changes only in a transaction that also contains the insert of that occurrence's promise (id = expand(template, id, occurrence), timeout = occurrence + configured timeout, configured param/tags + marker tags), only if next_run_time <= sweep time, and moves (last,next) := (next, next(next)); create computes next(created_on) and is idempotent by key; delete removes exactly the row. Iterating the lemma gives none skipped / none twice / catch-up one by one.", "4/C10"),
 "C16": ("Every write command kind of both store backends (16 kinds x 2) is executed symbolically from the real handler + real SQL text on an arbitrary invariant-satisfying database and compared with a reference conditional write: guard, written values, untouched rows, rows-affected, sort-id allocation. A one-token change of a guard, argument order or SET list flips an unsat into a model.", "4/C16"),
}
NOTE = {
 "C01": "Trusted: the SQL statement model (DESIGN 2.5), json/gocoro/database-sql stubs (2.4), atomicity of one SQL transaction; bounds: 2-3 promise rows, 1-2 callbacks, 2-3 tasks, fault budget 1 (quick) / 2 (thorough), tail-recursive retries cut. Outside: wire rendering, crash/restart.",
 "C02": "Trusted as C01. No explicit pairwise product; see outside_the_claim in the evidence.",
 "C03": "Trusted as C01; header parsing of key/strict flag is outside.",
 "C04": "Trusted as C01 plus: tick time = time at which a coroutine's transactions are built, wall clock monotone. One known finding (create with an already expired timeout answers PENDING).",
 "C05": "Trusted as C01. Known findings: a losing completion finishes the winner's notification tasks; ambiguous derived registration ids drop a registration (see known_findings.txt). The registration/completion race was repaired (fix 843d054).",
 "C06": "Trusted as C01; durability of the SQL engines assumed; restart not executed.",
 "C07": "Trusted as C01; only ClaimTask at coroutine level so far, the other task coroutines are covered at statement level.",
 "C08": "Trusted as C01; Sender/Router completions arbitrary. The router-error defect found here was repaired (fix b64baad).",
 "C11": "Trusted as C01; sequential (fault-free, interference-free) runs for the progress lemmas by definition of the lemma. One known finding (id collision blocks the time-out of a promise for ever).",
 "C12": "Trusted as C01; category model_checking over sequential paths. Goroutine-level behaviour (Signal, Shutdown races, AIO backpressure with blocking channels) is not encoded: seeded changes of that kind are not detected.",
 "C13": "Trusted as C01 plus the front-end stubs (protobuf structs as plain Go values, gin binding contract stub, jwt fork, json contracts). Both front ends are executed handler-to-reply; wire parsing is outside.",
 "C15": "Trusted as C13.",
 "C17": "Trusted: the SQL statement model is the same for both dialects except the declared differences. Known findings: the Postgres 32-bit INTEGER columns (5 entries).",
 "C18": "Trusted: bounded non-blocking channel model; goroutine timing outside. k = 3 operations quick, 4 thorough.",
 "C20": "Trusted as C01/C13; wire encodings outside.",
 "C19": "Trusted: json/url contracts as stated; recording plugins stand for the real transports.",
 "C14": "Trusted as C01 plus LIKE/tag-matching contracts; page sizes 1..3, 2-3 rows.",
 "C09": "Trusted as C01; bounds: 2 lock rows (3 thorough), ttl and clock < 2^62.",
 "C10": "Trusted as C01 plus the cron and template stubs. Two genuine defects found here (template.Must panic on a client template; nil dereference when a scheduled promise is routed) are reported under C13.",
 "C16": "Trusted: SQL statement model, json round-trip stub; bounds as C01 (3 promises, 3 callbacks, 2 schedules, 2 locks, 4 tasks). Read commands, batches and failure atomicity are not yet registered.",
}
checks = []
for pid in sorted(reg):
    if pid not in TEXT:
        continue
    text, ref = TEXT[pid]
    checks.append({"property_id": pid, "quick_cmd": f"./check {pid} --tier quick", "thorough_cmd": f"./check {pid} --tier thorough",
        "evidence_file": f"/verif/evidence/{pid}.json", "replay_cmd_template": f"./check {pid} --replay {{path}}", "engine": "gosmt",
        "level_claimed": {"category": reg[pid]["level"], "text": text, "design_ref": ref}, "level_note": NOTE[pid], "technique": TECH})
claimed = {c["property_id"] for c in checks}
NA_REASON = "not claimed yet: the harness set for this property is still under construction in this session (the engine and technique apply; see DESIGN.md section 4)"
na = [{"property_id": "C%02d" % i, "reason": NA_REASON} for i in range(1, 21) if "C%02d" % i not in claimed]
m = {"version": 1,
 "setup_cmd": "cd /verif/engine && GOFLAGS=-mod=mod GOPROXY=off GOSUMDB=off GOTOOLCHAIN=local go build -o /verif/bin/gosmt . && cd /verif && ./check --warm",
 "hooks": {"guard": "verif", "enable": "no source hooks: harness files are injected into /repo's packages with go/packages overlays at load time, /repo is not modified",
           "baseline_off_cmd": "cd /repo && go test -mod=mod -vet=off -count=1 -timeout 25m ./...", "source_commits": [], "add_only": True},
 "engines": [{"name": "gosmt", "path": "/verif/engine", "serves_properties": sorted(claimed),
              "kind_free_text": "path-forking symbolic executor for go/ssa with a SQL statement semantics over an N-slot symbolic database; SMT-LIB2 to cvc5 (primary) and z3 (fallback)"}],
 "checks": checks, "not_applicable": na,
 "notes": "exit 0 = all obligations discharged (known findings printed); exit 1 = VIOLATION lines; exit 2 = INCONCLUSIVE (unsupported construct, solver unknown, vacuous harness). Known findings: /verif/known_findings.txt."}
json.dump(m, open(f"{V}/MANIFEST.json", "w"), indent=1)
print("claimed", sorted(claimed), "na", len(na))
