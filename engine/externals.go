package main

// Contract stubs for library functions (every one is part of the claims that use it).

import (
	"reflect"
	"path"
	"fmt"
	"go/types"
	"strings"

	"golang.org/x/tools/go/ssa"
)

// packageIntercept: catch-all rules for whole packages whose behaviour is
// irrelevant to every property (logging, metrics).
func packageIntercept(fn *ssa.Function) InterceptFn {
	pkg := ""
	if fn.Pkg != nil {
		pkg = fn.Pkg.Pkg.Path()
	} else if fn.Signature.Recv() != nil {
		if n := namedOf(fn.Signature.Recv().Type()); n != nil && n.Obj().Pkg() != nil {
			pkg = n.Obj().Pkg().Path()
		}
	}
	switch {
	case pkg == "log/slog", strings.HasPrefix(pkg, "github.com/prometheus/"), pkg == "log":
		return func(ex *Exec, fr *Frame, args []Value, site ssa.Instruction) Value {
			ex.H.noteStub(pkg + " (no-op)")
			return ex.dummyResult(fn)
		}
	}
	return nil
}

func namedOf(t types.Type) *types.Named {
	if p, ok := t.(*types.Pointer); ok {
		t = p.Elem()
	}
	n, _ := t.(*types.Named)
	return n
}

// dummyResult builds an inert result of fn's result type(s).
func (ex *Exec) dummyResult(fn *ssa.Function) Value { return ex.dummySig(fn.Signature) }

func (ex *Exec) dummySig(sig *types.Signature) Value {
	res := sig.Results()
	mk := func(t types.Type) Value {
		switch t.Underlying().(type) {
		case *types.Interface:
			return &IfaceV{typ: ex.P.errorStringType(), v: &OpaqueV{kind: "dummy"}}
		case *types.Pointer:
			return ex.opaquePtr("dummy", nil)
		}
		return ex.zero(t)
	}
	switch res.Len() {
	case 0:
		return nil
	case 1:
		return mk(res.At(0).Type())
	}
	tv := &TupleV{}
	for i := 0; i < res.Len(); i++ {
		tv.vs = append(tv.vs, mk(res.At(i).Type()))
	}
	return tv
}

func (ex *Exec) fmtArg(v Value) *Term {
	tt := ex.tt
	switch x := v.(type) {
	case *IfaceV:
		if x.typ == nil {
			return tt.Str("<nil>")
		}
		// Stringer / error values
		if op, ok := x.v.(*OpaqueV); ok {
			if s, ok := op.data.(string); ok {
				return tt.Str(s)
			}
			return tt.Str("<" + op.kind + ">")
		}
		if t, ok := x.v.(*Term); ok {
			if b, ok := x.typ.Underlying().(*types.Basic); ok && b.Info()&types.IsInteger != 0 {
				// named integer with a String method would print its name; keep generic itoa
				_ = b
			}
			return ex.fmtArg(t)
		}
		return tt.Str("<" + x.typ.String() + ">")
	case *Term:
		switch {
		case x.sort == SString:
			return x
		case x.sort == SBool:
			return tt.Ite(x, tt.Str("true"), tt.Str("false"))
		case x.sort.Width() > 0:
			if n, ok := x.BVVal(); ok && x.sort.Width() == 64 {
				return tt.Str(itoa(int64(n)))
			}
			ex.H.noteStub("fmt %d (uninterpreted injective itoa)")
			return ex.itoa(tt.Resize(x, 64, true))
		}
	}
	return tt.Str("<?>")
}

func itoa(n int64) string {
	if n == 0 {
		return "0"
	}
	neg := n < 0
	var b []byte
	u := uint64(n)
	if neg {
		u = uint64(-n)
	}
	for u > 0 {
		b = append([]byte{byte('0' + u%10)}, b...)
		u /= 10
	}
	if neg {
		b = append([]byte{'-'}, b...)
	}
	return string(b)
}

// itoa: uninterpreted, injective decimal rendering.
func (ex *Exec) itoa(x *Term) *Term {
	tt := ex.tt
	r := tt.UF("itoa", SString, x)
	key := "itoa"
	for _, o := range ex.W.itoaSeen {
		if o != x {
			tt.axioms = append(tt.axioms, tt.Implies(tt.Eq(tt.UF("itoa", SString, o), r), tt.Eq(o, x)))
		}
	}
	_ = key
	seen := false
	for _, o := range ex.W.itoaSeen {
		if o == x {
			seen = true
		}
	}
	if !seen {
		ex.W.itoaSeen = append(ex.W.itoaSeen, x)
	}
	return r
}

func (ex *Exec) sprintf(format string, args []Value) *Term {
	tt := ex.tt
	var parts []*Term
	ai := 0
	i := 0
	for i < len(format) {
		j := strings.IndexByte(format[i:], '%')
		if j < 0 {
			parts = append(parts, tt.Str(format[i:]))
			break
		}
		if j > 0 {
			parts = append(parts, tt.Str(format[i:i+j]))
		}
		i += j
		if i+1 >= len(format) {
			break
		}
		verb := format[i+1]
		i += 2
		switch verb {
		case '%':
			parts = append(parts, tt.Str("%"))
		case 's', 'v', 'd', 'q', 'w':
			if ai < len(args) {
				parts = append(parts, ex.fmtArg(args[ai]))
				ai++
			} else {
				parts = append(parts, tt.Str("%!"+string(verb)+"(MISSING)"))
			}
		default:
			if ai < len(args) {
				ai++
			}
			parts = append(parts, tt.Str("<fmt>"))
		}
	}
	return tt.Concat(parts...)
}

func (ex *Exec) anySlice(v Value) []Value {
	sl, ok := v.(*SliceV)
	if !ok {
		return nil
	}
	var out []Value
	for i := 0; i < sl.len; i++ {
		out = append(out, sl.arr.v.(*ArrayV).es[sl.off+i])
	}
	return out
}

func init() {
	intercepts["fmt.Sprintf"] = func(ex *Exec, fr *Frame, a []Value, s ssa.Instruction) Value {
		f, ok := a[0].(*Term).StrVal()
		if !ok {
			panic(ex.unsupported("fmt.Sprintf with a non-constant format"))
		}
		return ex.sprintf(f, ex.anySlice(a[1]))
	}
	intercepts["fmt.Errorf"] = func(ex *Exec, fr *Frame, a []Value, s ssa.Instruction) Value {
		f, _ := a[0].(*Term).StrVal()
		e := ex.opaqueErr("fmt.Errorf:" + f)
		// %w: the first error operand is wrapped (errors.Is / As / Unwrap see it)
		if strings.Contains(f, "%w") && len(a) > 1 {
			for _, x := range ex.anySlice(a[1]) {
				if iv, ok := x.(*IfaceV); ok && iv.typ != nil && isErrorValue(iv) {
					e.(*IfaceV).v.(*OpaqueV).aux = iv
					break
				}
			}
		}
		return e
	}
	intercepts["fmt.Sprint"] = func(ex *Exec, fr *Frame, a []Value, s ssa.Instruction) Value {
		var parts []*Term
		for _, x := range ex.anySlice(a[0]) {
			parts = append(parts, ex.fmtArg(x))
		}
		return ex.tt.Concat(parts...)
	}
	intercepts["fmt.Println"] = func(ex *Exec, fr *Frame, a []Value, s ssa.Instruction) Value {
		return &TupleV{vs: []Value{ex.tt.BV(0, 64), nilErr()}}
	}
	intercepts["fmt.Printf"] = intercepts["fmt.Println"]
	intercepts["errors.New"] = func(ex *Exec, fr *Frame, a []Value, s ssa.Instruction) Value {
		m, _ := a[0].(*Term).StrVal()
		return ex.opaqueErr("errors.New:" + m)
	}
	intercepts["errors.Join"] = func(ex *Exec, fr *Frame, a []Value, s ssa.Instruction) Value {
		for _, e := range ex.anySlice(a[0]) {
			if iv, ok := e.(*IfaceV); ok && iv.typ != nil {
				return ex.opaqueErr("errors.Join")
			}
		}
		return nilErr()
	}
	intercepts["errors.As"] = func(ex *Exec, fr *Frame, a []Value, s ssa.Instruction) Value {
		err, ok := a[0].(*IfaceV)
		tgt := a[1].(*IfaceV)
		if !ok || err.typ == nil || tgt.typ == nil {
			return ex.tt.Bool(false)
		}
		pt, ok := tgt.typ.Underlying().(*types.Pointer)
		if !ok {
			panic(ex.goPanic("errors.As: target must be a non-nil pointer"))
		}
		for k := 0; k < 4 && !types.Identical(pt.Elem(), err.typ); k++ {
			o, isO := err.v.(*OpaqueV)
			if !isO || o.aux == nil {
				break
			}
			next, isI := o.aux.(*IfaceV)
			if !isI || next.typ == nil {
				break
			}
			err = next
		}
		if types.Identical(pt.Elem(), err.typ) {
			ex.store(ex.ptr(tgt.v), err.v)
			return ex.tt.Bool(true)
		}
		return ex.tt.Bool(false)
	}
	intercepts["strconv.Itoa"] = func(ex *Exec, fr *Frame, a []Value, s ssa.Instruction) Value { return ex.fmtArg(a[0]) }
	intercepts["strconv.FormatInt"] = func(ex *Exec, fr *Frame, a []Value, s ssa.Instruction) Value { return ex.fmtArg(a[0]) }
	intercepts["errors.Is"] = func(ex *Exec, fr *Frame, a []Value, s ssa.Instruction) Value {
		r := ex.eqValues(a[0], a[1])
		cur := a[0]
		for k := 0; k < 4; k++ {
			iv, ok := cur.(*IfaceV)
			if !ok || iv.typ == nil {
				break
			}
			o, ok := iv.v.(*OpaqueV)
			if !ok || o.aux == nil {
				break
			}
			cur = o.aux
			r = ex.tt.Or(r, ex.eqValues(cur, a[1]))
		}
		return r
	}
	intercepts["opaque:error.Error"] = func(ex *Exec, fr *Frame, a []Value, s ssa.Instruction) Value {
		if m, ok := a[0].(*OpaqueV).data.(string); ok {
			return ex.tt.Str(m)
		}
		return ex.tt.Str("error")
	}
	intercepts[repoMod+"/internal/app/subsystems/aio/store.StoreErr"] = func(ex *Exec, fr *Frame, a []Value, s ssa.Instruction) Value {
		return a[0]
	}
	intercepts[repoMod+"/internal/util.Assert"] = func(ex *Exec, fr *Frame, a []Value, s ssa.Instruction) Value {
		c := a[0].(*Term)
		if !ex.branch(c, "Assert@"+ex.shortPos()) {
			m, _ := a[1].(*Term).StrVal()
			panic(ex.goPanic("Assertion Failed: %s", m))
		}
		return nil
	}
	intercepts["strings.ReplaceAll"] = func(ex *Exec, fr *Frame, a []Value, s ssa.Instruction) Value {
		x, o, n := a[0].(*Term), a[1].(*Term), a[2].(*Term)
		xs, ok1 := x.StrVal()
		os_, ok2 := o.StrVal()
		ns, ok3 := n.StrVal()
		if ok1 && ok2 && ok3 {
			return ex.tt.Str(strings.ReplaceAll(xs, os_, ns))
		}
		if ok2 && ok3 {
			ex.H.noteStub("strings.ReplaceAll (uninterpreted on symbolic input)")
			return ex.tt.UF("replaceall_"+sanitize(os_)+"_"+sanitize(ns), SString, x)
		}
		panic(ex.unsupported("strings.ReplaceAll with symbolic pattern"))
	}
	intercepts["strings.Join"] = func(ex *Exec, fr *Frame, a []Value, s ssa.Instruction) Value {
		sep := a[1].(*Term)
		var parts []*Term
		for i, e := range ex.anySlice(a[0]) {
			if i > 0 {
				parts = append(parts, sep)
			}
			parts = append(parts, e.(*Term))
		}
		return ex.tt.Concat(parts...)
	}
	intercepts["strings.Clone"] = func(ex *Exec, fr *Frame, a []Value, s ssa.Instruction) Value { return a[0] }
	intercepts["strings.HasPrefix"] = func(ex *Exec, fr *Frame, a []Value, s ssa.Instruction) Value {
		return ex.tt.PrefixOf(a[1].(*Term), a[0].(*Term))
	}
	intercepts["strings.ToLower"] = func(ex *Exec, fr *Frame, a []Value, s ssa.Instruction) Value {
		if c, ok := a[0].(*Term).StrVal(); ok {
			return ex.tt.Str(strings.ToLower(c))
		}
		ex.H.noteStub("strings.ToLower (uninterpreted)")
		return ex.tt.UF("tolower", SString, a[0].(*Term))
	}
	intercepts["strings.ToUpper"] = func(ex *Exec, fr *Frame, a []Value, s ssa.Instruction) Value {
		if c, ok := a[0].(*Term).StrVal(); ok {
			return ex.tt.Str(strings.ToUpper(c))
		}
		ex.H.noteStub("strings.ToUpper (uninterpreted)")
		return ex.tt.UF("toupper", SString, a[0].(*Term))
	}
	intercepts["strings.EqualFold"] = func(ex *Exec, fr *Frame, a []Value, s ssa.Instruction) Value {
		x, y := a[0].(*Term), a[1].(*Term)
		if xs, ok := x.StrVal(); ok {
			if ys, ok := y.StrVal(); ok {
				return ex.tt.Bool(strings.EqualFold(xs, ys))
			}
		}
		ex.H.noteStub("strings.EqualFold (uninterpreted fold)")
		return ex.tt.Eq(ex.tt.UF("fold", SString, x), ex.tt.UF("fold", SString, y))
	}
	// time.Now(): a reading of the server clock - a fresh instant not earlier than any earlier reading. The VALUE
	// keeps that instant: reading it again (UnixMilli) later yields the same number, so a stale time.Time is stale.
	intercepts["time.Now"] = func(ex *Exec, fr *Frame, a []Value, s ssa.Instruction) Value {
		ex.W.advanceTime(ex)
		return &OpaqueV{kind: "time", data: ex.W.now}
	}
	// time.NewTimer: its channel never fires within the skeleton's step (like time.After); Stop/Reset report either outcome
	intercepts["time.NewTimer"] = func(ex *Exec, fr *Frame, a []Value, s ssa.Instruction) Value {
		ex.H.noteStub("time.NewTimer: the timer channel does not fire within one step of the kernel-loop skeleton; Stop/Reset return either value")
		t := s.(ssa.Value).Type().(*types.Pointer).Elem()
		p := ex.newStruct(t)
		ex.fset(p, t, "C", &OpaqueV{kind: "chan-nil"})
		return p
	}
	intercepts["(*time.Timer).Stop"] = func(ex *Exec, fr *Frame, a []Value, s ssa.Instruction) Value {
		return ex.tt.Bool(ex.choose(2, nil, "timer-stop") == 1)
	}
	intercepts["(*time.Timer).Reset"] = intercepts["(*time.Timer).Stop"]
	intercepts["(time.Duration).Milliseconds"] = func(ex *Exec, fr *Frame, a []Value, s ssa.Instruction) Value {
		d := a[0].(*Term)
		if ms, ok := ex.W.durMs[d.id]; ok {
			return ms
		}
		if n, ok := d.BVVal(); ok {
			return ex.tt.BV(uint64(int64(n)/1000000), 64)
		}
		return ex.tt.bin("bvsdiv", d, ex.tt.BV(1000000, 64))
	}
	intercepts["github.com/spf13/viper.GetBool"] = func(ex *Exec, fr *Frame, a []Value, s ssa.Instruction) Value {
		return ex.tt.Bool(false)
	}
	intercepts["runtime.Caller"] = func(ex *Exec, fr *Frame, a []Value, s ssa.Instruction) Value {
		return &TupleV{vs: []Value{ex.tt.BV(0, 64), ex.tt.Str(""), ex.tt.BV(0, 64), ex.tt.Bool(false)}}
	}
	intercepts["math/rand.Intn"] = func(ex *Exec, fr *Frame, a []Value, s ssa.Instruction) Value {
		n := a[0].(*Term)
		// rand.Intn panics for n <= 0
		if ex.branch(ex.tt.SLe(n, ex.tt.BV(0, 64)), "rand.Intn-nonpositive") {
			panic(ex.goPanic("invalid argument to Intn"))
		}
		if nv, ok := n.BVVal(); ok && nv > 0 && nv <= 8 {
			// small concrete range: every value is explored
			return ex.tt.BV(uint64(ex.choose(int(nv), nil, "rand.Intn")), 64)
		}
		r := ex.input("rand.Intn", "int", SBV64)
		ex.addPC(ex.tt.And(ex.tt.SLe(ex.tt.BV(0, 64), r), ex.tt.SLt(r, n)))
		return r
	}
}

// ---- cron, templates, strings.Builder

func init() {
	// robfig/cron and the time values around it (the real util.Next / util.ParseCron run on top of these):
	// Parser.Parse forks {error, schedule}; Schedule.Next(t) is the uninterpreted next(t, cron) with
	// next > t; time.Unix / UnixMilli / Truncate are exact on whole milliseconds.
	cr := "github.com/robfig/cron/v3."
	intercepts[cr+"NewParser"] = func(ex *Exec, fr *Frame, a []Value, s ssa.Instruction) Value {
		return &OpaqueV{kind: "cronparser", data: a[0]}
	}
	intercepts["("+cr+"Parser).Parse"] = func(ex *Exec, fr *Frame, a []Value, s ssa.Instruction) Value {
		tt := ex.tt
		ex.H.noteStub("robfig/cron: Parse forks {error, schedule} on an uninterpreted validity; Schedule.Next(t) = next(t, cron) > t")
		if !ex.branch(tt.UF("cron_valid", SBool, a[1].(*Term)), "cron-valid") {
			return &TupleV{vs: []Value{&IfaceV{}, ex.opaqueErr("cron: parse error")}}
		}
		return &TupleV{vs: []Value{&IfaceV{typ: ex.P.errorStringType(), v: &OpaqueV{kind: "cronschedule", data: a[1]}}, nilErr()}}
	}
	intercepts[cr+"ParseStandard"] = func(ex *Exec, fr *Frame, a []Value, s ssa.Instruction) Value {
		return intercepts["("+cr+"Parser).Parse"](ex, fr, []Value{nil, a[0]}, s)
	}
	timeMs := func(ex *Exec, v Value) *Term {
		if o, ok := v.(*OpaqueV); ok && o.kind == "time" {
			return o.data.(*Term)
		}
		panic(ex.unsupported("time.Time value that does not come from time.Unix/UnixMilli"))
	}
	intercepts["opaque:cronschedule.Next"] = func(ex *Exec, fr *Frame, a []Value, s ssa.Instruction) Value {
		tt := ex.tt
		cur := timeMs(ex, a[1])
		n := tt.UF("cron_next", SBV64, cur, a[0].(*OpaqueV).data.(*Term))
		ex.addPC(tt.And(tt.SLt(cur, n), tt.SLt(n, tt.BV(1<<62, 64))))
		return &OpaqueV{kind: "time", data: n}
	}
	intercepts["time.UnixMilli"] = func(ex *Exec, fr *Frame, a []Value, s ssa.Instruction) Value {
		return &OpaqueV{kind: "time", data: a[0].(*Term)}
	}
	intercepts["time.Unix"] = func(ex *Exec, fr *Frame, a []Value, s ssa.Instruction) Value {
		tt := ex.tt
		sec, nsec := a[0].(*Term), a[1].(*Term)
		// whole milliseconds only: Unix(0, ms*1e6) and Unix(sec, 0)
		if sv, ok := sec.BVVal(); ok && sv == 0 && nsec.op == "bvmul" && len(nsec.args) == 2 {
			for i := 0; i < 2; i++ {
				if c, ok := nsec.args[i].BVVal(); ok && c == 1000000 {
					return &OpaqueV{kind: "time", data: nsec.args[1-i]}
				}
			}
		}
		if nv, ok := nsec.BVVal(); ok && nv == 0 {
			return &OpaqueV{kind: "time", data: tt.bin("bvmul", sec, tt.BV(1000, 64))}
		}
		panic(ex.unsupported("time.Unix with a nanosecond part that is not a whole number of milliseconds"))
	}
	intercepts["(time.Time).Truncate"] = func(ex *Exec, fr *Frame, a []Value, s ssa.Instruction) Value {
		tt := ex.tt
		ms := timeMs(ex, a[0])
		d, ok := a[1].(*Term).BVVal()
		if !ok || int64(d) <= 0 || d%1000000 != 0 {
			panic(ex.unsupported("time.Truncate by a symbolic or sub-millisecond duration"))
		}
		// (times in the harnesses are non-negative; Unix epoch alignment equals zero-time alignment for units that divide a minute... hours/days differ by a constant that is a multiple of them too)
		return &OpaqueV{kind: "time", data: tt.bin("bvsub", ms, tt.bin("bvurem", ms, tt.BV(d/1000000, 64)))}
	}
	intercepts["html/template.New"] = func(ex *Exec, fr *Frame, a []Value, s ssa.Instruction) Value {
		ex.H.noteStub("html/template: Parse forks {error, ok}; Execute writes an uninterpreted expansion (escaping invisible)")
		return ex.opaquePtr("template", &tmplObj{})
	}
	intercepts["text/template.New"] = intercepts["html/template.New"]
	parse := func(ex *Exec, fr *Frame, a []Value, s ssa.Instruction) Value {
		t := ex.opaqueOf(a[0], "template")
		text := a[1].(*Term)
		t.data.(*tmplObj).text = text
		if !ex.branch(ex.tt.UF("tmpl_valid", SBool, text), "template-parses") {
			return &TupleV{vs: []Value{&PtrV{}, ex.opaqueErr("template: parse error")}}
		}
		return &TupleV{vs: []Value{a[0], nilErr()}}
	}
	intercepts["(*html/template.Template).Parse"] = parse
	intercepts["(*text/template.Template).Parse"] = parse
	must := func(ex *Exec, fr *Frame, a []Value, s ssa.Instruction) Value {
		if iv, ok := a[1].(*IfaceV); ok && iv.typ != nil {
			panic(ex.goPanic("template.Must: %s", ex.panicText(a[1])))
		}
		return a[0]
	}
	intercepts["html/template.Must"] = must
	intercepts["text/template.Must"] = must
	exec := func(ex *Exec, fr *Frame, a []Value, s ssa.Instruction) Value {
		tt := ex.tt
		t := ex.opaqueOf(a[0], "template").data.(*tmplObj)
		w := a[1].(*IfaceV)
		var id, ts *Term = tt.Str(""), tt.Str("")
		if dv, ok := a[2].(*IfaceV); ok && dv.typ != nil {
			if mv, ok := dv.v.(*MapV); ok && mv.m != nil && mv.m.sym {
				id = tt.Select(mv.m.val, tt.Str("id"))
				ts = tt.Select(mv.m.val, tt.Str("timestamp"))
			}
		}
		if ex.branch(tt.UF("tmpl_exec_fails", SBool, t.text), "template-exec-fails") {
			return ex.opaqueErr("template: exec error")
		}
		out := tt.UF("tmpl_expand", SString, t.text, id, ts)
		// write into the *strings.Builder
		if p, ok := w.v.(*PtrV); ok && p.obj != nil {
			if sv, ok := ex.peek(p).(*StructV); ok && len(sv.fs) == 2 {
				old := ex.bytesOf(sv.fs[1])
				sv.fs[1] = &BytesV{isNil: tt.Bool(false), s: tt.Concat(old.s, out)}
				return nilErr()
			}
		}
		panic(ex.unsupported("template.Execute into %s", describe(w.v)))
	}
	intercepts["(*html/template.Template).Execute"] = exec
	intercepts["(*text/template.Template).Execute"] = exec
	intercepts["(*strings.Builder).String"] = func(ex *Exec, fr *Frame, a []Value, s ssa.Instruction) Value {
		sv := ex.peek(ex.ptr(a[0])).(*StructV)
		return ex.bytesOf(sv.fs[1]).s
	}
	intercepts["(*strings.Builder).WriteString"] = func(ex *Exec, fr *Frame, a []Value, s ssa.Instruction) Value {
		sv := ex.peek(ex.ptr(a[0])).(*StructV)
		old := ex.bytesOf(sv.fs[1])
		sv.fs[1] = &BytesV{isNil: ex.tt.Bool(false), s: ex.tt.Concat(old.s, a[1].(*Term))}
		return &TupleV{vs: []Value{ex.strLenBV(a[1].(*Term)), nilErr()}}
	}
}

type tmplObj struct{ text *Term }

// ---- arbitrary values of a Go type (forged cursors, decoded client data)

func (ex *Exec) havocValue(t types.Type, name string, depth int) Value {
	tt := ex.tt
	switch u := t.Underlying().(type) {
	case *types.Basic:
		switch {
		case u.Info()&types.IsString != 0:
			return ex.input(name, "string", SString)
		case u.Info()&types.IsBoolean != 0:
			return ex.input(name, "bool", SBool)
		case u.Info()&types.IsInteger != 0:
			w, _ := intWidth(u)
			return ex.input(name, "int", BVSort(w))
		}
	case *types.Pointer:
		if depth > 3 {
			return &PtrV{typ: t}
		}
		inner := ex.havocValue(u.Elem(), name, depth+1)
		return &PtrV{obj: ex.newObj(inner, u.Elem()), isNil: ex.input(name+".nil", "bool", SBool), typ: t}
	case *types.Struct:
		sv := &StructV{fs: make([]Value, u.NumFields())}
		for i := range sv.fs {
			sv.fs[i] = ex.havocValue(u.Field(i).Type(), name+"."+u.Field(i).Name(), depth+1)
		}
		return sv
	case *types.Map:
		if isStringMap(t) {
			switch ex.choose(2, nil, "havoc-map:"+name) {
			case 0:
				return &MapV{}
			default:
				m := ex.newSymMap()
				k, v := ex.input(name+".k0", "string", SString), ex.input(name+".v0", "string", SString)
				m.has = tt.Store(m.has, k, tt.Bool(true))
				m.val = tt.Store(m.val, k, v)
				m.keys = append(m.keys, k)
				return &MapV{m: m}
			}
		}
	case *types.Slice:
		if isByteSlice(t) {
			return &BytesV{isNil: ex.input(name+".nil", "bool", SBool), s: ex.input(name, "bytes", SString)}
		}
		n := ex.choose(3, nil, "havoc-slice-len:"+name)
		if n == 0 {
			return &SliceV{}
		}
		arr := &ArrayV{}
		for i := 0; i < n; i++ {
			arr.es = append(arr.es, ex.havocValue(u.Elem(), fmt.Sprintf("%s[%d]", name, i), depth+1))
		}
		return &SliceV{arr: ex.newObj(arr, nil), len: n, cap: n}
	}
	panic(ex.unsupported("havoc of type %s", t))
}

func init() {
	cur := "(*" + repoMod + "/internal/kernel/t_api.Cursor[T])."
	// jwt.ParseWithClaims (contract of golang-jwt v3): the token is malformed (claims untouched), or its claims
	// are decoded - whatever the bearer chose - and then the signature check against the key returned by the
	// key function fails (ValidationErrorSignatureInvalid, claims stay filled) or succeeds. The real
	// Cursor.Decode runs on top of this.
	intercepts["github.com/golang-jwt/jwt.ParseWithClaims"] = func(ex *Exec, fr *Frame, a []Value, s ssa.Instruction) Value {
		ex.H.noteStub("jwt.ParseWithClaims: malformed | claims decoded (arbitrary) then signature invalid | valid; the signing key is a constant in the source, so a bearer can produce validly signed arbitrary claims")
		sig := s.(*ssa.Call).Call.Value.(*ssa.Function).Signature
		tokT := sig.Results().At(0).Type()
		verr := func(bits uint64) Value {
			var vt types.Type
			if o := s.(*ssa.Call).Call.Value.(*ssa.Function).Object(); o != nil && o.Pkg() != nil {
				if tn := o.Pkg().Scope().Lookup("ValidationError"); tn != nil {
					vt = tn.Type()
				}
			}
			if vt == nil {
				panic(ex.unsupported("jwt.ValidationError type not found"))
			}
			e := ex.newStruct(vt)
			ex.fset(e, vt, "Errors", ex.tt.BV(bits, 32))
			return &IfaceV{typ: types.NewPointer(vt), v: e}
		}
		k := ex.choose(3, nil, "jwt-parse")
		switch k {
		case 0:
			ex.W.jwtOutcome = "malformed"
			return &TupleV{vs: []Value{&PtrV{typ: tokT}, verr(1)}} // ValidationErrorMalformed
		}
		// claims decoded: fill the Next field of the claims struct
		civ := a[1].(*IfaceV)
		cp := ex.ptr(civ.v)
		ct := civ.typ.Underlying().(*types.Pointer).Elem()
		st := ex.peek(cp).(*StructV)
		st.fs[0] = ex.havocValue(ct.Underlying().(*types.Struct).Field(0).Type(), "cursor.next", 0)
		ex.W.jwtNext = &IfaceV{typ: ct.Underlying().(*types.Struct).Field(0).Type(), v: st.fs[0]}
		// the key function is consulted
		ex.callValue(fr, a[2], []Value{&PtrV{typ: tokT}}, s)
		if k == 1 {
			ex.W.jwtOutcome = "signature-invalid"
			return &TupleV{vs: []Value{ex.newStruct(tokT.(*types.Pointer).Elem()), verr(4)}} // ValidationErrorSignatureInvalid
		}
		ex.W.jwtOutcome = "valid"
		return &TupleV{vs: []Value{ex.newStruct(tokT.(*types.Pointer).Elem()), nilErr()}}
	}
	for _, n := range []string{"(github.com/golang-jwt/jwt.ValidationError).Error", "(*github.com/golang-jwt/jwt.ValidationError).Error"} {
		intercepts[n] = func(ex *Exec, fr *Frame, a []Value, s ssa.Instruction) Value { return ex.tt.Str("token is invalid") }
	}
	vx("JwtClaimsNext", func(ex *Exec, fr *Frame, a []Value, s ssa.Instruction) Value {
		if ex.W.jwtNext == nil {
			return &IfaceV{}
		}
		return ex.W.jwtNext
	})
	vx("JwtOutcome", func(ex *Exec, fr *Frame, a []Value, s ssa.Instruction) Value { return ex.tt.Str(ex.W.jwtOutcome) })
	intercepts[cur+"Encode"] = func(ex *Exec, fr *Frame, a []Value, s ssa.Instruction) Value {
		ex.H.noteStub("jwt cursor: Encode returns an opaque, non-empty token")
		tok := ex.input("cursor.token", "string", SString)
		ex.addPC(ex.tt.Not(ex.tt.Eq(tok, ex.tt.Str(""))))
		return &TupleV{vs: []Value{tok, nilErr()}}
	}
	intercepts["google.golang.org/grpc/status.Error"] = func(ex *Exec, fr *Frame, a []Value, s ssa.Instruction) Value {
		ex.nobj++
		return &IfaceV{typ: ex.P.errorStringType(), v: &OpaqueV{kind: "error", data: "grpc status", id: ex.nobj, aux: a[0]}}
	}
	intercepts["github.com/google/uuid.New"] = func(ex *Exec, fr *Frame, a []Value, s ssa.Instruction) Value {
		return &OpaqueV{kind: "uuid"}
	}
	intercepts["(github.com/google/uuid.UUID).String"] = func(ex *Exec, fr *Frame, a []Value, s ssa.Instruction) Value {
		return ex.tt.Str("00000000-0000-4000-8000-000000000000")
	}
	vx("GrpcCode", func(ex *Exec, fr *Frame, a []Value, s ssa.Instruction) Value {
		if iv, ok := a[0].(*IfaceV); ok && iv.typ != nil {
			if op, ok := iv.v.(*OpaqueV); ok && op.aux != nil {
				return ex.tt.Resize(op.aux.(*Term), 64, false)
			}
		}
		return ex.tt.BV(^uint64(0), 64)
	})
}

// ---- json.Decoder, reflect (UnmarshalChain), net/url, generic Marshal recording

type urlObj struct{ src *Term }

type jsonDecoder struct {
	b      *BytesV
	strict bool
}

func init() {
	intercepts["bytes.NewReader"] = func(ex *Exec, fr *Frame, a []Value, s ssa.Instruction) Value {
		return ex.opaquePtr("bytes.Reader", ex.bytesOf(a[0]))
	}
	intercepts["encoding/json.NewDecoder"] = func(ex *Exec, fr *Frame, a []Value, s ssa.Instruction) Value {
		iv := a[0].(*IfaceV)
		rd := ex.opaqueOf(iv.v, "bytes.Reader")
		return ex.opaquePtr("json.Decoder", &jsonDecoder{b: rd.data.(*BytesV)})
	}
	intercepts["(*encoding/json.Decoder).DisallowUnknownFields"] = func(ex *Exec, fr *Frame, a []Value, s ssa.Instruction) Value {
		ex.opaqueOf(a[0], "json.Decoder").data.(*jsonDecoder).strict = true
		return nil
	}
	intercepts["(*encoding/json.Decoder).Decode"] = func(ex *Exec, fr *Frame, a []Value, s ssa.Instruction) Value {
		d := ex.opaqueOf(a[0], "json.Decoder").data.(*jsonDecoder)
		return ex.jsonUnmarshalOpt(d.b, a[1].(*IfaceV), d.strict)
	}
	// reflect: only what util.UnmarshalChain uses
	intercepts["reflect.ValueOf"] = func(ex *Exec, fr *Frame, a []Value, s ssa.Instruction) Value {
		return &OpaqueV{kind: "reflect.Value", data: a[0]}
	}
	intercepts["(reflect.Value).IsNil"] = func(ex *Exec, fr *Frame, a []Value, s ssa.Instruction) Value {
		iv := a[0].(*OpaqueV).data.(*IfaceV)
		if iv.typ == nil {
			return ex.tt.Bool(true)
		}
		return ex.isNilValue(iv.v)
	}
	intercepts["(reflect.Value).Elem"] = func(ex *Exec, fr *Frame, a []Value, s ssa.Instruction) Value {
		iv := a[0].(*OpaqueV).data.(*IfaceV)
		return &OpaqueV{kind: "reflect.Elem", data: iv}
	}
	intercepts["(reflect.Value).Type"] = func(ex *Exec, fr *Frame, a []Value, s ssa.Instruction) Value {
		o := a[0].(*OpaqueV)
		iv := o.data.(*IfaceV)
		t := iv.typ
		if o.kind == "reflect.Elem" {
			t = t.Underlying().(*types.Pointer).Elem()
		}
		return &IfaceV{typ: ex.P.errorStringType(), v: &OpaqueV{kind: "reflect.Type", data: t}}
	}
	intercepts["reflect.Zero"] = func(ex *Exec, fr *Frame, a []Value, s ssa.Instruction) Value {
		t := a[0].(*IfaceV).v.(*OpaqueV).data.(types.Type)
		return &OpaqueV{kind: "reflect.Zero", data: t}
	}
	intercepts["(reflect.Value).Set"] = func(ex *Exec, fr *Frame, a []Value, s ssa.Instruction) Value {
		dst := a[0].(*OpaqueV)
		src := a[1].(*OpaqueV)
		if dst.kind != "reflect.Elem" || src.kind != "reflect.Zero" {
			panic(ex.unsupported("reflect.Value.Set beyond Elem().Set(Zero(..))"))
		}
		iv := dst.data.(*IfaceV)
		ex.store(ex.ptr(iv.v), ex.zero(src.data.(types.Type)))
		return nil
	}
	intercepts["net/url.Parse"] = func(ex *Exec, fr *Frame, a []Value, s ssa.Instruction) Value {
		tt := ex.tt
		ex.H.noteStub("net/url.Parse: uninterpreted scheme/host/path projections; failure nondeterministic")
		v := a[0].(*Term)
		call := s.(*ssa.Call)
		pt := call.Call.Value.(*ssa.Function).Signature.Results().At(0).Type()
		ut := pt.(*types.Pointer).Elem()
		if !ex.branch(tt.UF("url_valid", SBool, v), "url-parses") {
			return &TupleV{vs: []Value{&PtrV{typ: pt}, ex.opaqueErr("url: parse error")}}
		}
		u := ex.newStruct(ut)
		ex.fset(u, ut, "Scheme", tt.UF("url_scheme", SString, v))
		ex.fset(u, ut, "Host", tt.UF("url_host", SString, v))
		ex.fset(u, ut, "Path", tt.UF("url_path", SString, v))
		ex.fset(u, ut, "Opaque", v) // carries the source text for String()
		return &TupleV{vs: []Value{u, nilErr()}}
	}
	intercepts["(*net/url.URL).String"] = func(ex *Exec, fr *Frame, a []Value, s ssa.Instruction) Value {
		p := ex.ptr(a[0])
		sv := ex.peek(p).(*StructV)
		if op, ok := sv.fs[1].(*Term).StrVal(); ok && op == "" {
			// a URL assembled field by field: its text is an (injective, uninterpreted) function of the parts
			var ut types.Type
			if call, ok := s.(*ssa.Call); ok && len(call.Call.Args) > 0 {
				if pt, ok := call.Call.Args[0].Type().Underlying().(*types.Pointer); ok {
					ut = pt.Elem()
				}
			}
			if ut == nil {
				panic(ex.unsupported("net/url.URL type not found"))
			}
			user, pass := ex.tt.Str(""), ex.tt.Str("")
			if up, ok := ex.fget(p, ut, "User").(*PtrV); ok && up.obj != nil {
				ui := ex.peek(up).(*StructV)
				user, pass = ui.fs[0].(*Term), ui.fs[1].(*Term)
			}
			ex.H.noteStub("net/url.URL.String on an assembled URL: uninterpreted function of scheme, user, password, host, path, query")
			return ex.tt.UF("url_build", SString, ex.fget(p, ut, "Scheme").(*Term), user, pass, ex.fget(p, ut, "Host").(*Term), ex.fget(p, ut, "Path").(*Term), ex.fget(p, ut, "RawQuery").(*Term))
		}
		return ex.tt.UF("url_string", SString, sv.fs[1].(*Term))
	}
	intercepts["net/url.UserPassword"] = func(ex *Exec, fr *Frame, a []Value, s ssa.Instruction) Value {
		call := s.(*ssa.Call)
		pt := call.Call.Value.(*ssa.Function).Signature.Results().At(0).Type()
		ut := pt.(*types.Pointer).Elem()
		u := ex.newStruct(ut)
		sv := ex.peek(u).(*StructV)
		sv.fs[0], sv.fs[1], sv.fs[2] = a[0], a[1], ex.tt.Bool(true)
		return u
	}
	intercepts["strings.TrimPrefix"] = func(ex *Exec, fr *Frame, a []Value, s ssa.Instruction) Value {
		x, p := a[0].(*Term), a[1].(*Term)
		if xs, ok := x.StrVal(); ok {
			if ps, ok := p.StrVal(); ok {
				return ex.tt.Str(strings.TrimPrefix(xs, ps))
			}
		}
		if ps, ok := p.StrVal(); ok {
			if r, ok := stripPrefix(ex.tt, x, ps); ok {
				return r
			}
			ex.H.noteStub("strings.TrimPrefix (uninterpreted on symbolic input)")
			return ex.tt.UF("trimprefix_"+sanitize(ps), SString, x)
		}
		panic(ex.unsupported("strings.TrimPrefix with symbolic prefix"))
	}
	vx("Unmarshalled", func(ex *Exec, fr *Frame, a []Value, s ssa.Instruction) Value {
		b := ex.bytesOf(a[0])
		if v, ok := ex.W.marshalledAny[b.s.id]; ok {
			return v
		}
		return &IfaceV{}
	})
	vx("UrlScheme", func(ex *Exec, fr *Frame, a []Value, s ssa.Instruction) Value { return ex.tt.UF("url_scheme", SString, a[0].(*Term)) })
	vx("UrlHost", func(ex *Exec, fr *Frame, a []Value, s ssa.Instruction) Value { return ex.tt.UF("url_host", SString, a[0].(*Term)) })
	vx("UrlPath", func(ex *Exec, fr *Frame, a []Value, s ssa.Instruction) Value { return ex.tt.UF("url_path", SString, a[0].(*Term)) })
	vx("UrlString", func(ex *Exec, fr *Frame, a []Value, s ssa.Instruction) Value { return ex.tt.UF("url_string", SString, a[0].(*Term)) })
	vx("UrlValid", func(ex *Exec, fr *Frame, a []Value, s ssa.Instruction) Value { return ex.tt.UF("url_valid", SBool, a[0].(*Term)) })
	vx("JsonValid", func(ex *Exec, fr *Frame, a []Value, s ssa.Instruction) Value { return ex.tt.UF("jvalid_any", SBool, a[0].(*Term)) })
	// what a JSON text decodes to for the struct type of the sample pointer: decodes at all (and is not null);
	// the value of a top-level string member
	vx("JsonDecodes", func(ex *Exec, fr *Frame, a []Value, s ssa.Instruction) Value {
		tt := ex.tt
		st := a[1].(*IfaceV).typ.Underlying().(*types.Pointer).Elem()
		key := typeKey(st)
		b := ex.bytesOf(a[0])
		valid := liftIte(tt, b.s, func(s *Term) *Term {
			if s.op == "uf:jenc_"+key {
				return tt.Bool(true)
			}
			return tt.And(tt.UF("jvalid_"+key, SBool, s), tt.Not(tt.UF("jnull_"+key, SBool, s)))
		})
		return tt.And(tt.Not(b.isNil), tt.Not(tt.Eq(b.s, tt.Str(""))), valid)
	})
	vx("JsonStringField", func(ex *Exec, fr *Frame, a []Value, s ssa.Instruction) Value {
		tt := ex.tt
		st := a[1].(*IfaceV).typ.Underlying().(*types.Pointer).Elem()
		key := typeKey(st)
		name := ex.str(a[2], "field name")
		var leaves []jleaf
		if !jsonLeaves(st, nil, &leaves) {
			panic(ex.unsupported("JsonStringField: type %s", st))
		}
		su := st.Underlying().(*types.Struct)
		for i, l := range leaves {
			if len(l.path) == 1 && su.Field(l.path[0]).Name() == name && l.kind == "str" {
				i := i
				return liftIte(tt, ex.bytesOf(a[0]).s, func(s *Term) *Term {
					if s.op == "uf:jenc_"+key {
						return s.args[i]
					}
					return tt.UF(fmt.Sprintf("jdec_%s_%d", key, i), SString, s)
				})
			}
		}
		panic(ex.unsupported("JsonStringField: no string member %s in %s", name, st))
	})
	// the JSON text has object members that the struct type of the sample pointer does not declare
	vx("JsonUnknownFields", func(ex *Exec, fr *Frame, a []Value, s ssa.Instruction) Value {
		iv := a[1].(*IfaceV)
		st := iv.typ.Underlying().(*types.Pointer).Elem()
		return jsonExtra(ex.tt, typeKey(st), a[0].(*Term))
	})
	vx("JsonOfString", func(ex *Exec, fr *Frame, a []Value, s ssa.Instruction) Value { return ex.tt.UF("jenc_string", SString, a[0].(*Term)) })
}

// ---- kernel loop skeleton: Signal, time

func init() {
	// (*api).Signal starts a goroutine that moves at most one accepted request from the queue into the
	// one-slot buffer and closes the returned channel; sequential contract: that effect may or may not
	// have happened by the time the loop continues.
	signal := func(qfield string) func(ex *Exec, fr *Frame, a []Value, s ssa.Instruction) Value {
		return func(ex *Exec, fr *Frame, a []Value, s ssa.Instruction) Value {
			ex.H.noteStub("api.Signal / aio.Signal: the goroutine's effect (move <= 1 entry from the queue to the one-slot buffer) happens nondeterministically before the loop continues")
			p := ex.ptr(a[0])
			t := p.obj.typ
			if t == nil {
				t = s.(*ssa.Call).Call.Args[0].Type().(*types.Pointer).Elem()
			}
			buf := ex.fget(p, t, "buffer")
			q := ex.chanOf(ex.fget(p, t, qfield))
			if ex.isNilValue(buf).IsTrue() && q != nil && len(q.buf) > 0 {
				if ex.choose(2, nil, "signal-buffers-an-entry") == 1 {
					v := q.buf[0]
					q.buf = q.buf[1:]
					ex.fset(p, t, "buffer", v)
				}
			}
			ch := &ChanObj{cap: 0, closed: true}
			return &OpaqueV{kind: "chan", data: ch}
		}
	}
	intercepts["(*"+repoMod+"/internal/api.api).Signal"] = signal("sq")
	intercepts["(*"+repoMod+"/internal/aio.aio).Signal"] = signal("cq")
	intercepts["time.After"] = func(ex *Exec, fr *Frame, a []Value, s ssa.Instruction) Value {
		return &OpaqueV{kind: "chan-nil"} // never fires within one step of the skeleton
	}
	// the other readings of an instant, derived from its milliseconds (the model's clock has millisecond resolution)
	for _, u := range []struct {
		name string
		op   string
		k    uint64
	}{{"Unix", "bvsdiv", 1000}, {"UnixMicro", "bvmul", 1000}, {"UnixNano", "bvmul", 1000000}} {
		u := u
		intercepts["(time.Time)."+u.name] = func(ex *Exec, fr *Frame, a []Value, s ssa.Instruction) Value {
			ms := intercepts["(time.Time).UnixMilli"](ex, fr, a, s).(*Term)
			return ex.tt.bin(u.op, ms, ex.tt.BV(u.k, 64))
		}
	}
	intercepts["(time.Time).UnixMilli"] = func(ex *Exec, fr *Frame, a []Value, s ssa.Instruction) Value {
		if o, ok := a[0].(*OpaqueV); ok && o.kind == "time" {
			return o.data.(*Term)
		}
		ex.W.advanceTime(ex)
		return ex.W.now
	}
}

// ---- http server construction (VH_H_Routes): listener and validator registration are irrelevant to the
// routing configuration; gin itself (New, Use, Group, route registration) is executed from source.
func init() {
	intercepts["net.Listen"] = func(ex *Exec, fr *Frame, a []Value, s ssa.Instruction) Value {
		ex.H.noteStub("net.Listen: succeeds with an opaque listener")
		rt := s.(*ssa.Call).Call.Value.(*ssa.Function).Signature.Results().At(0).Type()
		return &TupleV{vs: []Value{&IfaceV{typ: rt, v: &OpaqueV{kind: "net.Listener"}}, nilErr()}}
	}
	// binding.Validator.Engine(): custom validator registration does not affect routing
	intercepts["opaque:extern.Engine"] = func(ex *Exec, fr *Frame, a []Value, s ssa.Instruction) Value { return &IfaceV{} }
	// concrete-only path helpers used by gin's route registration
	intercepts["path.Join"] = func(ex *Exec, fr *Frame, a []Value, s ssa.Instruction) Value {
		var parts []string
		for _, e := range ex.anySlice(a[0]) {
			parts = append(parts, ex.str(e, "path.Join element"))
		}
		return ex.tt.Str(path.Join(parts...))
	}
	intercepts["github.com/gin-gonic/gin/internal/bytesconv.StringToBytes"] = func(ex *Exec, fr *Frame, a []Value, s ssa.Instruction) Value {
		return &BytesV{isNil: ex.tt.Bool(false), s: a[0].(*Term)}
	}
	intercepts["github.com/gin-gonic/gin/internal/bytesconv.BytesToString"] = func(ex *Exec, fr *Frame, a []Value, s ssa.Instruction) Value {
		return ex.bytesOf(a[0]).s
	}
	intercepts["bytes.Count"] = func(ex *Exec, fr *Frame, a []Value, s ssa.Instruction) Value {
		x, okx := ex.bytesOf(a[0]).s.StrVal()
		y, oky := ex.bytesOf(a[1]).s.StrVal()
		if !okx || !oky {
			panic(ex.unsupported("bytes.Count on symbolic bytes"))
		}
		return ex.tt.BV(uint64(strings.Count(x, y)), 64)
	}
	intercepts["github.com/gin-gonic/gin.nameOfFunction"] = func(ex *Exec, fr *Frame, a []Value, s ssa.Instruction) Value {
		return ex.tt.Str("handler")
	}
}

// ---- net/http client contract (http plugin harness): NewRequest fails or builds a request; Header.Set is
// recorded; Client.Do fails (transport error) or returns a response with an arbitrary status code.
type httpSent struct {
	method, url *Term
	body        *BytesV
	status      *Term
	timeout     *Term // the client's overall Timeout (ns) when the request was sent; 0 = the call may never return
}

func init() {
	intercepts["net/http.NewRequest"] = func(ex *Exec, fr *Frame, a []Value, s ssa.Instruction) Value {
		ex.H.noteStub("net/http.NewRequest: fails (invalid url) or builds the request; Header.Set recorded; Client.Do: transport error or a response with an arbitrary status code")
		rt := s.(*ssa.Call).Call.Value.(*ssa.Function).Signature.Results().At(0).Type()
		if ex.choose(2, nil, "http-new-request") == 1 {
			return &TupleV{vs: []Value{&PtrV{typ: rt}, ex.opaqueErr("net/http: invalid url")}}
		}
		req := ex.newStruct(rt.(*types.Pointer).Elem())
		var body *BytesV
		if iv, ok := a[2].(*IfaceV); ok && iv.typ != nil {
			body = ex.opaqueOf(iv.v, "bytes.Reader").data.(*BytesV)
		}
		ex.W.httpBuilt = &httpSent{method: a[0].(*Term), url: a[1].(*Term), body: body}
		ex.W.httpHeaders = nil
		return &TupleV{vs: []Value{req, nilErr()}}
	}
	intercepts["(net/http.Header).Set"] = func(ex *Exec, fr *Frame, a []Value, s ssa.Instruction) Value {
		ex.W.httpHeaders = append(ex.W.httpHeaders, [2]*Term{a[1].(*Term), a[2].(*Term)})
		return nil
	}
	intercepts["(*net/http.Client).Do"] = func(ex *Exec, fr *Frame, a []Value, s ssa.Instruction) Value {
		rt := s.(*ssa.Call).Call.Value.(*ssa.Function).Signature.Results().At(0).Type()
		if ex.W.httpBuilt == nil {
			panic(ex.unsupported("Client.Do of a request not built by http.NewRequest"))
		}
		sent := *ex.W.httpBuilt
		sent.timeout = ex.tt.BV(0, 64)
		if call, ok := s.(*ssa.Call); ok && len(call.Call.Args) > 0 {
			if pt, ok := call.Call.Args[0].Type().Underlying().(*types.Pointer); ok {
				if cp, ok := a[0].(*PtrV); ok && cp.obj != nil {
					if t, ok := ex.fget(cp, pt.Elem(), "Timeout").(*Term); ok {
						sent.timeout = ex.tt.Resize(t, 64, true)
					}
				}
			}
		}
		ex.W.httpSent = append(ex.W.httpSent, &sent)
		if ex.choose(2, nil, "http-transport-error") == 1 {
			return &TupleV{vs: []Value{&PtrV{typ: rt}, ex.opaqueErr("net/http: transport error")}}
		}
		st := rt.(*types.Pointer).Elem()
		res := ex.newStruct(st)
		code := ex.input(fmt.Sprintf("http.status%d", len(ex.W.httpSent)), "int", SBV64)
		ex.addPC(ex.tt.And(ex.tt.SLe(ex.tt.BV(100, 64), code), ex.tt.SLt(code, ex.tt.BV(600, 64))))
		sent.status = code
		ex.W.httpSent[len(ex.W.httpSent)-1] = &sent
		ex.fset(res, st, "StatusCode", code)
		return &TupleV{vs: []Value{res, nilErr()}}
	}
	sentAt := func(ex *Exec, v Value) *httpSent {
		i := ex.concreteInt(v, "request index")
		if i < 0 || i >= len(ex.W.httpSent) {
			panic(ex.goPanic("no such sent http request %d", i))
		}
		return ex.W.httpSent[i]
	}
	vx("HttpSent", func(ex *Exec, fr *Frame, a []Value, s ssa.Instruction) Value { return ex.tt.BV(uint64(len(ex.W.httpSent)), 64) })
	vx("HttpSentMethod", func(ex *Exec, fr *Frame, a []Value, s ssa.Instruction) Value { return sentAt(ex, a[0]).method })
	vx("HttpSentURL", func(ex *Exec, fr *Frame, a []Value, s ssa.Instruction) Value { return sentAt(ex, a[0]).url })
	vx("HttpSentBody", func(ex *Exec, fr *Frame, a []Value, s ssa.Instruction) Value {
		if b := sentAt(ex, a[0]).body; b != nil {
			return b
		}
		return &BytesV{isNil: ex.tt.Bool(true), s: ex.tt.Str("")}
	})
	vx("HttpSentTimeout", func(ex *Exec, fr *Frame, a []Value, s ssa.Instruction) Value { return sentAt(ex, a[0]).timeout })
	// -1: transport error (no response)
	vx("HttpSentStatus", func(ex *Exec, fr *Frame, a []Value, s ssa.Instruction) Value {
		if st := sentAt(ex, a[0]).status; st != nil {
			return st
		}
		return ex.tt.BV(^uint64(0), 64)
	})
	// the value of header k on the request as sent (last Set wins; canonical header keys are compared as given)
	vx("HttpSentHeader", func(ex *Exec, fr *Frame, a []Value, s ssa.Instruction) Value {
		tt := ex.tt
		k := a[0].(*Term)
		var v *Term = tt.Str("")
		for _, h := range ex.W.httpHeaders {
			v = tt.Ite(tt.Eq(tt.UF("http_canon", SString, h[0]), tt.UF("http_canon", SString, k)), h[1], v)
		}
		return v
	})
}

func init() {
	// database/sql.Open (contract): opens lazily and never fails for a registered driver; the driver name and the
	// data source name are recorded, the handle is the symbolic database of that backend
	intercepts["database/sql.Open"] = func(ex *Exec, fr *Frame, a []Value, s ssa.Instruction) Value {
		ex.H.noteStub("database/sql.Open: records driver and data source name, returns the symbolic database handle")
		w := ex.W
		drv, dsn := a[0].(*Term), a[1].(*Term)
		w.sqlOpens = append(w.sqlOpens, [2]*Term{drv, dsn})
		if w.db != nil && w.sqlDBObj != nil {
			// the harness has opened the symbolic database already (vx.DB): the constructor gets that handle
			return &TupleV{vs: []Value{w.sqlDBObj, nilErr()}}
		}
		backend := "sqlite"
		if d, ok := drv.StrVal(); ok && d == "postgres" {
			backend = "postgres"
		}
		w.setBackend(ex, backend)
		for k := range w.slots {
			if v, ok := ex.H.opts["slots."+k]; ok {
				w.slots[k] = v
			}
		}
		w.db = ex.EmptyDB(w.schema, w.slots)
		w.sqlDBObj = ex.opaquePtr("sql.DB", nil)
		return &TupleV{vs: []Value{w.sqlDBObj, nilErr()}}
	}
	for _, m := range []string{"SetMaxOpenConns", "SetMaxIdleConns", "SetConnMaxIdleTime", "SetConnMaxLifetime"} {
		m := m
		intercepts["(*database/sql.DB)."+m] = func(ex *Exec, fr *Frame, a []Value, s ssa.Instruction) Value {
			if ex.W.sqlPool == nil {
				ex.W.sqlPool = map[string]*Term{}
			}
			if t, ok := a[1].(*Term); ok {
				ex.W.sqlPool[m] = ex.tt.Resize(t, 64, true)
			}
			return nil
		}
	}
	vx("SqlPool", func(ex *Exec, fr *Frame, a []Value, s ssa.Instruction) Value {
		if t, ok := ex.W.sqlPool[ex.str(a[0], "setting")]; ok {
			return t
		}
		return ex.tt.BV(^uint64(0), 64) // -1: never set
	})
	vx("SqlOpens", func(ex *Exec, fr *Frame, a []Value, s ssa.Instruction) Value { return ex.tt.BV(uint64(len(ex.W.sqlOpens)), 64) })
	vx("SqlOpenDriver", func(ex *Exec, fr *Frame, a []Value, s ssa.Instruction) Value { return ex.W.sqlOpens[ex.concreteInt(a[0], "i")][0] })
	vx("SqlOpenDSN", func(ex *Exec, fr *Frame, a []Value, s ssa.Instruction) Value { return ex.W.sqlOpens[ex.concreteInt(a[0], "i")][1] })
	vx("FilesRemoved", func(ex *Exec, fr *Frame, a []Value, s ssa.Instruction) Value { return ex.tt.BV(uint64(len(ex.W.removed)), 64) })
	vx("FileRemoved", func(ex *Exec, fr *Frame, a []Value, s ssa.Instruction) Value { return ex.W.removed[ex.concreteInt(a[0], "index")] })
	vx("TablesDropped", func(ex *Exec, fr *Frame, a []Value, s ssa.Instruction) Value { return ex.tt.BV(uint64(ex.W.tablesDropped), 64) })
	vx("DBClosed", func(ex *Exec, fr *Frame, a []Value, s ssa.Instruction) Value { return ex.tt.BV(uint64(ex.W.dbClosed), 64) })
	// the struct tag of a field of the sample pointer's struct type (configuration defaults live in tags)
	vx("FieldTag", func(ex *Exec, fr *Frame, a []Value, s ssa.Instruction) Value {
		st := a[0].(*IfaceV).typ.Underlying().(*types.Pointer).Elem().Underlying().(*types.Struct)
		name := ex.str(a[1], "field name")
		key := ex.str(a[2], "tag key")
		for i := 0; i < st.NumFields(); i++ {
			if st.Field(i).Name() == name {
				return ex.tt.Str(reflect.StructTag(st.Tag(i)).Get(key))
			}
		}
		panic(ex.unsupported("FieldTag: no field %s", name))
	})
}

func init() {
	// an arbitrary configured duration: an opaque value whose whole milliseconds are an arbitrary number in
	// [lo, hi] (the code under test only ever asks a configured duration for its milliseconds)
	vx("DurationMs", func(ex *Exec, fr *Frame, a []Value, s ssa.Instruction) Value {
		tt := ex.tt
		name := ex.str(a[0], "name")
		lo, hi := ex.concreteInt(a[1], "lo"), ex.concreteInt(a[2], "hi")
		d := ex.input(name, "int64", SBV64)
		ms := ex.input(name+".ms", "int64", SBV64)
		ex.addPC(tt.And(tt.SLe(tt.BV(uint64(lo), 64), ms), tt.SLe(ms, tt.BV(uint64(hi), 64))))
		// the duration itself (nanoseconds) is opaque apart from its sign: zero exactly when it has zero milliseconds
		ex.addPC(tt.And(tt.SLe(tt.BV(0, 64), d), tt.Eq(tt.Eq(d, tt.BV(0, 64)), tt.Eq(ms, tt.BV(0, 64)))))
		if ex.W.durMs == nil {
			ex.W.durMs = map[int]*Term{}
		}
		ex.W.durMs[d.id] = ms
		return d
	})
}

// further *url.URL accessors: projections of the source text that are distinct uninterpreted functions
// (Hostname strips a port that Host keeps, etc.), so code that switches accessor is distinguishable
func init() {
	for _, m := range []string{"Hostname", "Port", "EscapedPath", "RequestURI", "Query", "Redacted", "EscapedFragment"} {
		m := m
		intercepts["(*net/url.URL)."+m] = func(ex *Exec, fr *Frame, a []Value, s ssa.Instruction) Value {
			p := ex.ptr(a[0])
			ut := p.obj.typ
			if ut == nil {
				ut = s.(*ssa.Call).Call.Args[0].Type().(*types.Pointer).Elem()
			}
			src := ex.fget(p, ut, "Opaque").(*Term)
			if cs, ok := src.StrVal(); ok && cs == "" {
				// a URL built field by field (not by the Parse stub): the projection is a function of its Path / Host
				if m == "Hostname" || m == "Port" {
					src = ex.fget(p, ut, "Host").(*Term)
				} else {
					src = ex.fget(p, ut, "Path").(*Term)
				}
			}
			if m == "Query" {
				panic(ex.unsupported("url.URL.Query"))
			}
			ex.H.noteStub("net/url.URL." + m + ": uninterpreted projection of the parsed text")
			return ex.tt.UF("url_"+strings.ToLower(m), SString, src)
		}
	}
}

// strings.Trim family: concrete when everything is concrete, otherwise distinct uninterpreted functions of
// (input, cutset) - enough to tell them from the identity and from each other
func init() {
	type fn2 func(string, string) string
	for name, f := range map[string]fn2{"Trim": strings.Trim, "TrimLeft": strings.TrimLeft, "TrimRight": strings.TrimRight, "TrimSuffix": strings.TrimSuffix} {
		name, f := name, f
		intercepts["strings."+name] = func(ex *Exec, fr *Frame, a []Value, s ssa.Instruction) Value {
			x, c := a[0].(*Term), a[1].(*Term)
			xs, ok1 := x.StrVal()
			cs, ok2 := c.StrVal()
			if ok1 && ok2 {
				return ex.tt.Str(f(xs, cs))
			}
			if !ok2 {
				panic(ex.unsupported("strings.%s with symbolic cutset", name))
			}
			ex.H.noteStub("strings." + name + " (uninterpreted on symbolic input)")
			return ex.tt.UF("str_"+strings.ToLower(name)+"_"+sanitize(cs), SString, x)
		}
	}
	intercepts["strings.TrimSpace"] = func(ex *Exec, fr *Frame, a []Value, s ssa.Instruction) Value {
		x := a[0].(*Term)
		if xs, ok := x.StrVal(); ok {
			return ex.tt.Str(strings.TrimSpace(xs))
		}
		ex.H.noteStub("strings.TrimSpace (uninterpreted on symbolic input)")
		return ex.tt.UF("str_trimspace", SString, x)
	}
}

// strings.Split / strings.Contains. Split(s, sep) for a constant non-empty sep is characterised exactly by
// "Join(parts, sep) == s and no part contains sep"; the number of parts is a choice bounded by 4.
func init() {
	intercepts["strings.Contains"] = func(ex *Exec, fr *Frame, a []Value, s ssa.Instruction) Value {
		return ex.tt.StrContains(a[0].(*Term), a[1].(*Term))
	}
	intercepts["strings.Split"] = func(ex *Exec, fr *Frame, a []Value, s ssa.Instruction) Value {
		tt := ex.tt
		x := a[0].(*Term)
		sep, ok := a[1].(*Term).StrVal()
		if !ok || sep == "" {
			panic(ex.unsupported("strings.Split with a symbolic or empty separator"))
		}
		mk := func(parts []*Term) Value {
			arr := &ArrayV{}
			for _, p := range parts {
				arr.es = append(arr.es, p)
			}
			return &SliceV{arr: ex.newObj(arr, nil), len: len(parts), cap: len(parts)}
		}
		if xs, ok := x.StrVal(); ok {
			var parts []*Term
			for _, p := range strings.Split(xs, sep) {
				parts = append(parts, tt.Str(p))
			}
			return mk(parts)
		}
		ex.H.noteBound("strings.Split on a symbolic string yields at most 4 parts")
		const K = 4
		ex.W.nsplit++
		conds := make([]*Term, K)
		all := make([][]*Term, K)
		for k := 1; k <= K; k++ {
			var parts, cat []*Term
			var cs []*Term
			for i := 0; i < k; i++ {
				p := tt.Var(fmt.Sprintf("split%d.%d.%d", ex.W.nsplit, k, i), SString)
				parts = append(parts, p)
				if i > 0 {
					cat = append(cat, tt.Str(sep))
				}
				cat = append(cat, p)
				cs = append(cs, tt.Not(tt.StrContains(p, tt.Str(sep))))
			}
			cs = append(cs, tt.Eq(x, tt.Concat(cat...)))
			conds[k-1] = tt.And(cs...)
			all[k-1] = parts
		}
		k := ex.choose(K, conds, "split-parts")
		return mk(all[k])
	}
	intercepts["net/http.Error"] = func(ex *Exec, fr *Frame, a []Value, s ssa.Instruction) Value {
		ex.W.httpErrors = append(ex.W.httpErrors, a[2].(*Term))
		return nil
	}
	// (*http.Request).Context().Done(): a channel the harness closes with vx.CancelRequest()
	intercepts["(*net/http.Request).Context"] = func(ex *Exec, fr *Frame, a []Value, s ssa.Instruction) Value {
		if ex.W.reqDone == nil {
			ex.W.reqDone = &ChanObj{cap: 0}
		}
		return &IfaceV{typ: ex.P.errorStringType(), v: &OpaqueV{kind: "reqctx"}}
	}
	intercepts["opaque:reqctx.Done"] = func(ex *Exec, fr *Frame, a []Value, s ssa.Instruction) Value {
		return &OpaqueV{kind: "chan", data: ex.W.reqDone}
	}
	vx("CancelRequest", func(ex *Exec, fr *Frame, a []Value, s ssa.Instruction) Value {
		if ex.W.reqDone == nil {
			ex.W.reqDone = &ChanObj{cap: 0}
		}
		ex.W.reqDone.closed = true
		return nil
	})
	vx("HttpErrors", func(ex *Exec, fr *Frame, a []Value, s ssa.Instruction) Value { return ex.tt.BV(uint64(len(ex.W.httpErrors)), 64) })
	vx("HttpErrorCode", func(ex *Exec, fr *Frame, a []Value, s ssa.Instruction) Value {
		return ex.tt.Resize(ex.W.httpErrors[ex.concreteInt(a[0], "index")], 64, true)
	})
}

// ---- server lifecycle: which stop primitive a front end uses. Only GracefulStop (grpc) and Shutdown
// (net/http) wait for in-flight handlers; Stop / Close drop them.
func init() {
	rec := func(name string, ret func(ex *Exec) Value) InterceptFn {
		return func(ex *Exec, fr *Frame, a []Value, s ssa.Instruction) Value {
			ex.W.lifecycle = append(ex.W.lifecycle, name)
			if ret != nil {
				return ret(ex)
			}
			return nil
		}
	}
	intercepts["google.golang.org/grpc.NewServer"] = func(ex *Exec, fr *Frame, a []Value, s ssa.Instruction) Value {
		return ex.opaquePtr("grpcserver", nil)
	}
	intercepts["google.golang.org/grpc.UnaryInterceptor"] = func(ex *Exec, fr *Frame, a []Value, s ssa.Instruction) Value {
		return &IfaceV{typ: ex.P.errorStringType(), v: &OpaqueV{kind: "grpc.ServerOption"}}
	}
	intercepts["(*google.golang.org/grpc.Server).GracefulStop"] = rec("grpc.GracefulStop", nil)
	intercepts["(*google.golang.org/grpc.Server).Stop"] = rec("grpc.Stop", nil)
	intercepts["(*google.golang.org/grpc.Server).RegisterService"] = func(ex *Exec, fr *Frame, a []Value, s ssa.Instruction) Value {
		name := "?"
		if call, ok := s.(*ssa.Call); ok {
			var dt types.Type
			if call.Call.IsInvoke() && len(call.Call.Args) > 0 {
				dt = call.Call.Args[0].Type()
			} else if len(call.Call.Args) > 1 {
				dt = call.Call.Args[1].Type()
			}
			if pt, ok := dt.Underlying().(*types.Pointer); ok {
				if t, ok := ex.fget(a[1], pt.Elem(), "ServiceName").(*Term); ok {
					if cs, ok := t.StrVal(); ok {
						name = cs
					}
				}
			}
		}
		ex.W.lifecycle = append(ex.W.lifecycle, "grpc.RegisterService:"+name)
		ex.W.grpcImpls = append(ex.W.grpcImpls, a[2])
		return nil
	}
	vx("GrpcRegisteredImpl", func(ex *Exec, fr *Frame, a []Value, s ssa.Instruction) Value {
		return ex.W.grpcImpls[ex.concreteInt(a[0], "index")]
	})
	intercepts["(*net/http.Server).Shutdown"] = rec("http.Shutdown", func(ex *Exec) Value { return nilErr() })
	intercepts["(*net/http.Server).Close"] = rec("http.Close", func(ex *Exec) Value { return nilErr() })
	vx("GoStarted", func(ex *Exec, fr *Frame, a []Value, s ssa.Instruction) Value {
		return ex.tt.BV(uint64(len(ex.W.goLog)), 64)
	})
	vx("GoStartedName", func(ex *Exec, fr *Frame, a []Value, s ssa.Instruction) Value {
		return ex.tt.Str(ex.W.goLog[ex.concreteInt(a[0], "index")].name)
	})
	// the receiver (or first argument) of the i-th launched goroutine, boxed like the harness boxes its own pointer
	vx("GoStartedOn", func(ex *Exec, fr *Frame, a []Value, s ssa.Instruction) Value {
		g := ex.W.goLog[ex.concreteInt(a[0], "index")]
		want := a[1]
		if iv, ok := want.(*IfaceV); ok {
			want = iv.v
		}
		got := g.recv
		if iv, ok := got.(*IfaceV); ok {
			got = iv.v
		}
		gp, ok1 := got.(*PtrV)
		wp, ok2 := want.(*PtrV)
		if !ok1 || !ok2 || gp.obj == nil || wp.obj == nil {
			return ex.tt.Bool(false)
		}
		return ex.tt.Bool(gp.obj == wp.obj && pathsOverlap(gp.path, wp.path) && len(gp.path) == len(wp.path))
	})
	vx("Lifecycle", func(ex *Exec, fr *Frame, a []Value, s ssa.Instruction) Value {
		return ex.tt.Str(strings.Join(ex.W.lifecycle, ","))
	})
}

// ---- sync.Map (string keys) and strings.Map. A sync.Map starts empty on every path (process-global caches
// are assumed cold: stated bound); lookups compare keys symbolically against this path's own stores.
type syncMapEntry struct {
	k *Term
	v Value
}

func init() {
	keyOf := func(ex *Exec, v Value) *Term {
		if iv, ok := v.(*IfaceV); ok {
			if t, ok := iv.v.(*Term); ok && t.sort == SString {
				return t
			}
		}
		panic(ex.unsupported("sync.Map with a non-string key"))
	}
	objOf := func(ex *Exec, v Value) int {
		p := ex.ptr(v)
		return p.obj.id*1000 + len(p.path)*37 + func() int {
			h := 0
			for _, x := range p.path {
				h = h*31 + x
			}
			return h
		}()
	}
	intercepts["(*sync.Map).Store"] = func(ex *Exec, fr *Frame, a []Value, s ssa.Instruction) Value {
		ex.H.noteBound("sync.Map caches start empty on every path")
		id := objOf(ex, a[0])
		if ex.W.syncMaps == nil {
			ex.W.syncMaps = map[int][]syncMapEntry{}
		}
		ex.W.syncMaps[id] = append(ex.W.syncMaps[id], syncMapEntry{k: keyOf(ex, a[1]), v: a[2]})
		return nil
	}
	load := func(ex *Exec, a []Value) (Value, bool) {
		ex.H.noteBound("sync.Map caches start empty on every path")
		id := objOf(ex, a[0])
		k := keyOf(ex, a[1])
		es := ex.W.syncMaps[id]
		for i := len(es) - 1; i >= 0; i-- {
			if ex.branch(ex.tt.Eq(k, es[i].k), "syncmap-key") {
				return es[i].v, true
			}
		}
		return &IfaceV{}, false
	}
	intercepts["(*sync.Map).Load"] = func(ex *Exec, fr *Frame, a []Value, s ssa.Instruction) Value {
		v, ok := load(ex, a)
		return &TupleV{vs: []Value{v, ex.tt.Bool(ok)}}
	}
	intercepts["(*sync.Map).LoadOrStore"] = func(ex *Exec, fr *Frame, a []Value, s ssa.Instruction) Value {
		if v, ok := load(ex, a); ok {
			return &TupleV{vs: []Value{v, ex.tt.Bool(true)}}
		}
		intercepts["(*sync.Map).Store"](ex, fr, a, s)
		return &TupleV{vs: []Value{a[2], ex.tt.Bool(false)}}
	}
	intercepts["strings.Map"] = func(ex *Exec, fr *Frame, a []Value, s ssa.Instruction) Value {
		x := a[1].(*Term)
		name := "anon"
		if f, ok := a[0].(*FuncV); ok && f.fn != nil {
			name = sanitize(f.fn.String())
		}
		ex.H.noteStub("strings.Map (uninterpreted per mapping function)")
		return ex.tt.UF("strmap_"+name, SString, x)
	}
}

// more of package strings: exact where SMT-LIB has the operator, concrete evaluation when all arguments are
// constants, otherwise unsupported (INCONCLUSIVE) rather than guessed
func init() {
	intercepts["strings.Replace"] = func(ex *Exec, fr *Frame, a []Value, s ssa.Instruction) Value {
		n, ok := a[3].(*Term).BVVal()
		if ok && int64(n) < 0 {
			return intercepts["strings.ReplaceAll"](ex, fr, a[:3], s)
		}
		x, o, nw := a[0].(*Term), a[1].(*Term), a[2].(*Term)
		xs, ok1 := x.StrVal()
		os_, ok2 := o.StrVal()
		ns, ok3 := nw.StrVal()
		if ok && ok1 && ok2 && ok3 {
			return ex.tt.Str(strings.Replace(xs, os_, ns, int(int64(n))))
		}
		if ok && n == 1 {
			return ex.tt.mk("str.replace", SString, "", 0, x, o, nw)
		}
		panic(ex.unsupported("strings.Replace with a symbolic or bounded count"))
	}
	intercepts["strings.HasSuffix"] = func(ex *Exec, fr *Frame, a []Value, s ssa.Instruction) Value {
		x, p := a[0].(*Term), a[1].(*Term)
		if xs, ok := x.StrVal(); ok {
			if ps, ok := p.StrVal(); ok {
				return ex.tt.Bool(strings.HasSuffix(xs, ps))
			}
		}
		return ex.tt.mk("str.suffixof", SBool, "", 0, p, x)
	}
	intercepts["strings.Index"] = func(ex *Exec, fr *Frame, a []Value, s ssa.Instruction) Value {
		x, p := a[0].(*Term), a[1].(*Term)
		if xs, ok := x.StrVal(); ok {
			if ps, ok := p.StrVal(); ok {
				return ex.tt.BV(uint64(int64(strings.Index(xs, ps))), 64)
			}
		}
		panic(ex.unsupported("strings.Index on symbolic strings"))
	}
	intercepts["strings.Repeat"] = func(ex *Exec, fr *Frame, a []Value, s ssa.Instruction) Value {
		xs, ok1 := a[0].(*Term).StrVal()
		n, ok2 := a[1].(*Term).BVVal()
		if ok1 && ok2 && int64(n) >= 0 && int64(n) < 1024 {
			return ex.tt.Str(strings.Repeat(xs, int(n)))
		}
		panic(ex.unsupported("strings.Repeat on symbolic arguments"))
	}
	intercepts["strings.Count"] = func(ex *Exec, fr *Frame, a []Value, s ssa.Instruction) Value {
		xs, ok1 := a[0].(*Term).StrVal()
		ps, ok2 := a[1].(*Term).StrVal()
		if ok1 && ok2 {
			return ex.tt.BV(uint64(strings.Count(xs, ps)), 64)
		}
		panic(ex.unsupported("strings.Count on symbolic strings"))
	}
}

func init() {
	// the same datum in the same representation: false when the static types differ (a 64-bit integer that
	// travels through a float, a string that becomes bytes, ...), otherwise value equality
	vx("SameDatum", func(ex *Exec, fr *Frame, a []Value, s ssa.Instruction) Value {
		x, ok1 := a[0].(*IfaceV)
		y, ok2 := a[1].(*IfaceV)
		if !ok1 || !ok2 || x.typ == nil || y.typ == nil {
			return ex.tt.Bool(false)
		}
		if !types.Identical(x.typ, y.typ) {
			return ex.tt.Bool(false)
		}
		return ex.eqValues(x.v, y.v)
	})
	intercepts["maps.clone"] = func(ex *Exec, fr *Frame, a []Value, s ssa.Instruction) Value {
		iv := a[0].(*IfaceV)
		mv, ok := iv.v.(*MapV)
		if !ok || mv.m == nil {
			return iv
		}
		c := *mv.m
		ex.nobj++
		c.id = ex.nobj
		c.keys = append([]*Term{}, mv.m.keys...)
		c.ks = append([]Value{}, mv.m.ks...)
		c.vs = append([]Value{}, mv.m.vs...)
		return &IfaceV{typ: iv.typ, v: &MapV{m: &c}}
	}
}

func init() {
	// sort.SliceStable / sort.Slice(x, less): insertion sort over the (concrete-length, at most 6 elements) slice,
	// every comparison made by the real less function
	srt := func(ex *Exec, fr *Frame, a []Value, s ssa.Instruction) Value {
		iv, ok := a[0].(*IfaceV)
		if !ok || iv.typ == nil {
			return nil
		}
		sl, ok := iv.v.(*SliceV)
		if !ok {
			panic(ex.unsupported("sort.Slice on %s", describe(iv.v)))
		}
		if sl.len <= 1 {
			return nil
		}
		if sl.len > 6 {
			panic(ex.unsupported("sort.Slice over more than 6 elements"))
		}
		ex.H.noteBound("sort.Slice/SliceStable: slices of at most 6 elements")
		es := sl.arr.v.(*ArrayV).es
		for i := 1; i < sl.len; i++ {
			for j := i; j > 0; j-- {
				r := ex.callValue(fr, a[1], []Value{ex.tt.BV(uint64(j), 64), ex.tt.BV(uint64(j-1), 64)}, s)
				if !ex.branch(r.(*Term), "sort-less") {
					break
				}
				es[sl.off+j], es[sl.off+j-1] = es[sl.off+j-1], es[sl.off+j]
			}
		}
		return nil
	}
	intercepts["sort.SliceStable"] = srt
	intercepts["sort.Slice"] = srt
}

var errorIfaceT = types.Universe.Lookup("error").Type().Underlying().(*types.Interface)

func isErrorValue(iv *IfaceV) bool {
	if o, ok := iv.v.(*OpaqueV); ok && o.kind == "error" {
		return true
	}
	return types.Implements(iv.typ, errorIfaceT)
}
