package router

// C12 / C11 wiring of the router subsystem: constructor, Start (every worker launched exactly once), Enqueue
// (accepts while the queue has room, refuses without side effect when full), Stop.

import (
	"github.com/prometheus/client_golang/prometheus"
	"github.com/resonatehq/resonate/internal/kernel/bus"
	"github.com/resonatehq/resonate/internal/kernel/t_aio"
	"github.com/resonatehq/resonate/internal/metrics"
	"github.com/resonatehq/resonate/internal/vx"
)

func VH_W_Router() {
	vx.IgnoreGo()
	n, size := 1+vx.Choose(3), 1+vx.Choose(2)
	r, err := New(nil, metrics.New(prometheus.NewRegistry()), &Config{Size: size, Workers: n})
	vx.Assert(err == nil && r != nil && len(r.workers) == n && r.Kind() == t_aio.Router, "C12:router-constructs-its-workers")
	if err != nil || r == nil {
		return
	}
	vx.Assert(cap(r.sq) >= 1, "C12:queue-has-room-for-a-submission")
	room := cap(r.sq)
	for i := 0; i < room+1; i++ {
		ok := r.Enqueue(&bus.SQE[t_aio.Submission, t_aio.Completion]{Id: "x"})
		vx.Assert(ok == (i < room), "C12:enqueue-accepts-exactly-while-there-is-room")
		vx.Assert(len(r.sq) == min(i+1, room), "C12:a-refused-submission-is-not-queued")
	}
	for _, w := range r.workers {
		vx.Assert(w != nil && w.sq != nil && len(w.sq) == room && len(w.sources) > 0, "C12:workers-read-the-subsystem-queue")
	}
	vx.Assert(r.Start(nil) == nil, "C12:start-succeeds")
	for _, w := range r.workers {
		k := 0
		for i := 0; i < vx.GoStarted(); i++ {
			if vx.GoStartedName(i) == "Start" && vx.GoStartedOn(i, w) {
				k++
			}
		}
		vx.Assert(k == 1, "C12:every-worker-started-exactly-once")
	}
	vx.Assert(r.Stop() == nil && vx.ChanClosed(r.sq), "C12:stop-closes-the-queue")
	vx.Reach("done")
}
