package coroutines

import (
	"github.com/resonatehq/resonate/internal/app/subsystems/aio/store/postgres"
	"github.com/resonatehq/resonate/internal/app/subsystems/aio/store/sqlite"
	"github.com/resonatehq/resonate/internal/kernel/system"
	"github.com/resonatehq/resonate/internal/vx"
)

// vhSetup: symbolic world for a coroutine harness. backend 0 = sqlite, 1 = postgres.
func vhSetup(flags int) vx.Coro {
	if vx.Opt("backend", 0) == 1 {
		vx.UseStore(postgres.VXWorker(vx.DB("postgres")))
	} else {
		vx.UseStore(sqlite.VXWorker(vx.DB("sqlite")))
	}
	vx.SetConfig(&system.Config{Url: vx.String("config.url"), PromiseBatchSize: vx.Opt("batch", 2), ScheduleBatchSize: vx.Opt("batch", 2),
		TaskBatchSize: vx.Opt("batch", 2), TaskEnqueueDelay: 10000000000})
	vx.AutoO2("O2")
	c := vx.Coroutine(flags)
	vx.Havoc()
	return c
}

func vhB2I(b bool) int64 { return vx.IteInt64(b, 1, 0) }
