package http

// C13 / C15 (HTTP half): every HTTP handler end to end on a symbolic request:
// real handler (gin binding replaced by "any value satisfying the binding tags") ->
// real api.Process -> kernel double running the REAL request coroutine under havoc
// semantics -> real reply. A reachable panic is a violation; exactly one reply whose
// status code is the kernel status divided by 100.

import (
	"github.com/gin-gonic/gin"
	i_api "github.com/resonatehq/resonate/internal/api"
	"github.com/resonatehq/resonate/internal/app/coroutines"
	"github.com/resonatehq/resonate/internal/app/subsystems/api"
	"github.com/resonatehq/resonate/internal/kernel/bus"
	"github.com/resonatehq/resonate/internal/kernel/t_api"
	"github.com/resonatehq/resonate/internal/vx"
	"github.com/resonatehq/resonate/pkg/idempotency"
	"github.com/resonatehq/resonate/pkg/callback"
	"github.com/resonatehq/resonate/pkg/promise"
	"github.com/resonatehq/resonate/pkg/schedule"
)

type vhKernel struct {
	i_api.API
	c     vx.Coro
	calls int
	req   *t_api.Request
	res   *t_api.Response
	err   error
}

func (k *vhKernel) EnqueueSQE(sqe *bus.SQE[t_api.Request, t_api.Response]) {
	k.calls++
	k.req = sqe.Submission
	var n int
	k.res, k.err, n = coroutines.VXProcess(k.c, sqe)
	vx.Assert(n == 1, "C12:kernel-answers-an-accepted-request-exactly-once-per-tick")
}

func (k *vhKernel) DequeueCQE(cq <-chan *bus.CQE[t_api.Request, t_api.Response]) *bus.CQE[t_api.Request, t_api.Response] {
	return <-cq
}

func vhServer() (*server, *vhKernel) {
	k := &vhKernel{c: coroutines.VXSetup(vx.HavocMode | vx.Faults(vx.Opt("faults", 1)))}
	return &server{api: api.New(k, "http"), config: &Config{TaskFrequency: 60000000000}}, k
}

func vhCheck(k *vhKernel, kind t_api.Kind) {
	vx.Assert(vx.HttpReplies() == 1, "C15:exactly-one-http-reply")
	if vx.HttpReplies() != 1 {
		return
	}
	code := vx.HttpCode(0)
	body, isErrBody := vx.HttpBody(0).(gin.H)
	if k.calls == 0 {
		vx.Reach("refused-by-front-end")
		vx.Assert(code == 400, "C13:invalid-request-answered-with-client-error")
		_, has := body["error"]
		vx.Assert(isErrBody && has, "C15:error-body")
		return
	}
	vx.Assert(k.calls == 1 && k.req.Kind == kind, "C12:one-kernel-request-per-call")
	if k.err != nil {
		vx.Reach("kernel-error")
		te, ok := k.err.(*t_api.Error)
		vx.Assert(ok && code == int(te.Code())/100, "C15:http-status-is-kernel-status-over-100")
		_, has := body["error"]
		vx.Assert(isErrBody && has, "C15:error-body")
		return
	}
	st := k.res.Status()
	vx.Assert(code == int(st)/100, "C15:http-status-is-kernel-status-over-100")
	if st.IsSuccessful() {
		vx.Reach("reply")
	} else {
		vx.Reach("kernel-refusal")
		_, has := body["error"]
		vx.Assert(isErrBody && has, "C15:error-body")
	}
}

// ---- C20 (HTTP half): what reaches the kernel is exactly what the client sent, what the client gets is
// exactly the kernel's object

func vhValueEq(a, b promise.Value) bool {
	return vx.And(vx.BytesEq(a.Data, b.Data), vx.MapEq(a.Headers, b.Headers))
}

func vhIkeyEq(a, b *idempotency.Key) bool {
	if a == nil || b == nil {
		return a == nil && b == nil
	}
	return *a == *b
}

func VH_H_ReadPromise() {
	s, k := vhServer()
	s.readPromise(vx.GinContext("GET", "id"))
	vhCheck(k, t_api.ReadPromise)
	if k.calls == 1 {
		vx.Assert(k.req.ReadPromise.Id == vx.GinParamSent("id"), "C20:http-path-id-reaches-the-kernel-unaltered")
		if k.err == nil && k.res.ReadPromise.Status.IsSuccessful() {
			p, ok := vx.HttpBody(0).(*promise.Promise)
			vx.Assert(ok && p == k.res.ReadPromise.Promise, "C20:http-reply-is-the-kernel-promise")
		}
	}
}
// C14 (front-end half): the page and the cursor the client gets are the kernel's, whatever limit parameter
// accompanied the request (a follow-up request carries only the cursor; its page size is the cursor's)
func VH_H_SearchPromises() {
	s, k := vhServer()
	s.searchPromises(vx.GinContext("GET"))
	vhCheck(k, t_api.SearchPromises)
	if k.calls == 1 {
		if q, _ := vx.GinBound("Query", 0).(*searchPromisesParams); q != nil {
			vx.Accepts(q.Limit == nil && q.Cursor == nil && q.State == nil, "C15:http-accepts-search-without-limit-or-state")
			vx.Accepts(q.Limit != nil && *q.Limit == 100, "C15:http-accepts-search-limit-100")
			vx.Accepts(q.Limit != nil && *q.Limit == 1, "C15:http-accepts-search-limit-1")
			vx.Accepts(q.State != nil && *q.State == "pending", "C15:http-accepts-search-state-pending")
			vx.Accepts(q.State != nil && *q.State == "resolved", "C15:http-accepts-search-state-resolved")
			vx.Accepts(q.State != nil && *q.State == "rejected", "C15:http-accepts-search-state-rejected")
			vx.Accepts(q.Cursor != nil && q.Limit == nil, "C15:http-accepts-search-by-cursor-alone")
		}
	}
	if k.calls == 1 && k.err == nil && k.res.SearchPromises.Status.IsSuccessful() {
		body, _ := vx.HttpBody(0).(gin.H)
		cur, okc := body["cursor"].(*t_api.Cursor[t_api.SearchPromisesRequest])
		page, okp := body["promises"].([]*promise.Promise)
		want := k.res.SearchPromises
		vx.Assert(okc && cur == want.Cursor, "C14:http-reply-carries-the-kernels-cursor")
		same := okp && len(page) == len(want.Promises)
		if same {
			for i := range page {
				if page[i] != want.Promises[i] {
					same = false
				}
			}
		}
		vx.Assert(same, "C14:http-reply-carries-the-kernels-page")
		if want.Cursor != nil {
			vx.Reach("cursor-in-reply")
		}
	}
}
func VH_H_CreatePromise() {
	s, k := vhServer()
	s.createPromise(vx.GinContext("POST"))
	vhCheck(k, t_api.CreatePromise)
	if k.calls == 1 {
		b, _ := vx.GinBound("JSON", 0).(*createPromiseBody)
		h, _ := vx.GinBound("Header", 0).(*createPromiseHeader)
		q := k.req.CreatePromise
		vx.Assert(b != nil && h != nil, "C20:http-kernel-called-only-with-a-bound-request")
		vx.Assert(q.Id == b.Id && vx.SameDatum(q.Timeout, b.Timeout) && q.Strict == h.Strict && vx.MapEq(q.Tags, b.Tags) && vhValueEq(q.Param, b.Param) && vhIkeyEq(q.IdempotencyKey, h.IdempotencyKey), "C20:http-request-fields-copied")
		if b != nil && h != nil {
			vx.Accepts(b.Timeout == 0, "C15:http-accepts-create-promise-timeout-zero")
			vx.Accepts(b.Timeout == 1<<62, "C15:http-accepts-create-promise-timeout-huge")
			vx.Accepts(h.IdempotencyKey == nil && !h.Strict, "C15:http-accepts-create-promise-without-key")
			vx.Accepts(h.IdempotencyKey != nil && h.Strict, "C15:http-accepts-create-promise-strict-with-key")
		}
		if k.err == nil && k.res.CreatePromise.Status.IsSuccessful() {
			p, ok := vx.HttpBody(0).(*promise.Promise)
			vx.Assert(ok && p == k.res.CreatePromise.Promise, "C20:http-reply-is-the-kernel-promise")
		}
	}
}
func VH_H_CreatePromiseAndTask() {
	s, k := vhServer()
	s.createPromiseAndTask(vx.GinContext("POST"))
	vhCheck(k, t_api.CreatePromiseAndTask)
	if k.calls == 1 {
		b, _ := vx.GinBound("JSON", 0).(*createPromiseAndTaskBody)
		h, _ := vx.GinBound("Header", 0).(*createPromiseHeader)
		q := k.req.CreatePromiseAndTask
		vx.Assert(b != nil && h != nil && q.Promise != nil && q.Task != nil, "C20:http-kernel-called-only-with-a-bound-request")
		vx.Assert(q.Promise.Id == b.Promise.Id && q.Promise.Timeout == b.Promise.Timeout && q.Promise.Strict == h.Strict && vx.MapEq(q.Promise.Tags, b.Promise.Tags) && vhValueEq(q.Promise.Param, b.Promise.Param) && vhIkeyEq(q.Promise.IdempotencyKey, h.IdempotencyKey), "C20:http-request-fields-copied")
		vx.Assert(q.Task.PromiseId == b.Promise.Id && q.Task.ProcessId == b.Task.ProcessId && q.Task.Ttl == b.Task.Ttl && q.Task.Timeout == b.Promise.Timeout, "C20:http-task-fields-copied")
		if b != nil {
			vx.Accepts(b.Task.Ttl == 0, "C15:http-accepts-create-with-task-ttl-zero")
			vx.Accepts(b.Task.Ttl == 1<<30 && b.Promise.Timeout == 0, "C15:http-accepts-create-with-task-large-ttl")
		}
	}
}
func VH_H_CompletePromise() {
	s, k := vhServer()
	s.completePromise(vx.GinContext("PATCH", "id"))
	vhCheck(k, t_api.CompletePromise)
	if k.calls == 1 {
		b, _ := vx.GinBound("JSON", 0).(*completePromiseBody)
		h, _ := vx.GinBound("Header", 0).(*completePromiseHeader)
		q := k.req.CompletePromise
		vx.Assert(b != nil && h != nil, "C20:http-kernel-called-only-with-a-bound-request")
		vx.Assert(q.Id == vx.GinParamSent("id"), "C20:http-path-id-reaches-the-kernel-unaltered")
		vx.Assert(q.State == b.State && q.Strict == h.Strict && vhValueEq(q.Value, b.Value) && vhIkeyEq(q.IdempotencyKey, h.IdempotencyKey), "C20:http-request-fields-copied")
		if b != nil && h != nil {
			vx.Accepts(b.State == promise.Resolved, "C15:http-accepts-resolve")
			vx.Accepts(b.State == promise.Rejected, "C15:http-accepts-reject")
			vx.Accepts(b.State == promise.Canceled, "C15:http-accepts-cancel")
			vx.Accepts(h.IdempotencyKey == nil && !h.Strict, "C15:http-accepts-complete-without-key")
		}
		if k.err == nil && k.res.CompletePromise.Status.IsSuccessful() {
			p, ok := vx.HttpBody(0).(*promise.Promise)
			vx.Assert(ok && p == k.res.CompletePromise.Promise, "C20:http-reply-is-the-kernel-promise")
		}
	}
}
func VH_H_CreateCallback() {
	s, k := vhServer()
	s.createCallback(vx.GinContext("POST"))
	vhCheck(k, t_api.CreateCallback)
	if k.calls == 1 {
		b, _ := vx.GinBound("JSON", 0).(*createCallbackBody)
		q := k.req.CreateCallback
		vx.Assert(b != nil, "C20:http-kernel-called-only-with-a-bound-request")
		vx.Assert(q.PromiseId == b.PromiseId && q.RootPromiseId == b.RootPromiseId && vx.SameDatum(q.Timeout, b.Timeout) && vx.BytesEq(q.Recv, b.Recv), "C20:http-request-fields-copied")
		if b != nil {
			vx.Accepts(b.Timeout == 0, "C15:http-accepts-callback-timeout-zero")
		}
		if k.err == nil && k.res.CreateCallback.Status.IsSuccessful() {
			h, ok := vx.HttpBody(0).(gin.H)
			cb, _ := h["callback"].(*callback.Callback)
			p, _ := h["promise"].(*promise.Promise)
			vx.Assert(ok && cb == k.res.CreateCallback.Callback && p == k.res.CreateCallback.Promise, "C15:http-reply-carries-the-kernel-resource")
		}
	}
}
func VH_H_CreateSubscription() {
	s, k := vhServer()
	s.createSubscription(vx.GinContext("POST"))
	vhCheck(k, t_api.CreateSubscription)
	if k.calls == 1 {
		b, _ := vx.GinBound("JSON", 0).(*createSubscriptionBody)
		q := k.req.CreateSubscription
		vx.Assert(b != nil, "C20:http-kernel-called-only-with-a-bound-request")
		vx.Assert(q.Id == b.Id && q.PromiseId == b.PromiseId && vx.SameDatum(q.Timeout, b.Timeout) && vx.BytesEq(q.Recv, b.Recv), "C20:http-request-fields-copied")
		if k.err == nil && k.res.CreateSubscription.Status.IsSuccessful() {
			h, ok := vx.HttpBody(0).(gin.H)
			cb, _ := h["callback"].(*callback.Callback)
			p, _ := h["promise"].(*promise.Promise)
			vx.Assert(ok && cb == k.res.CreateSubscription.Callback && p == k.res.CreateSubscription.Promise, "C15:http-reply-carries-the-kernel-resource")
		}
	}
}
func VH_H_ReadSchedule() {
	s, k := vhServer()
	s.readSchedule(vx.GinContext("GET", "id"))
	vhCheck(k, t_api.ReadSchedule)
	if k.calls == 1 {
		vx.Assert(k.req.ReadSchedule.Id == vx.GinParamSent("id"), "C20:http-path-id-reaches-the-kernel-unaltered")
		if k.err == nil && k.res.ReadSchedule.Status.IsSuccessful() {
			p, ok := vx.HttpBody(0).(*schedule.Schedule)
			vx.Assert(ok && p == k.res.ReadSchedule.Schedule, "C20:http-reply-is-the-kernel-schedule")
		}
	}
}
func VH_H_SearchSchedules() {
	s, k := vhServer()
	s.searchSchedules(vx.GinContext("GET"))
	vhCheck(k, t_api.SearchSchedules)
	if k.calls == 1 {
		if q, _ := vx.GinBound("Query", 0).(*searchSchedulesParams); q != nil {
			vx.Accepts(q.Limit == nil && q.Cursor == nil, "C15:http-accepts-search-without-limit")
			vx.Accepts(q.Limit != nil && *q.Limit == 100, "C15:http-accepts-search-limit-100")
			vx.Accepts(q.Cursor != nil && q.Limit == nil, "C15:http-accepts-search-by-cursor-alone")
		}
	}
	if k.calls == 1 && k.err == nil && k.res.SearchSchedules.Status.IsSuccessful() {
		body, _ := vx.HttpBody(0).(gin.H)
		cur, okc := body["cursor"].(*t_api.Cursor[t_api.SearchSchedulesRequest])
		page, okp := body["schedules"].([]*schedule.Schedule)
		want := k.res.SearchSchedules
		vx.Assert(okc && cur == want.Cursor, "C14:http-reply-carries-the-kernels-cursor")
		same := okp && len(page) == len(want.Schedules)
		if same {
			for i := range page {
				if page[i] != want.Schedules[i] {
					same = false
				}
			}
		}
		vx.Assert(same, "C14:http-reply-carries-the-kernels-page")
		if want.Cursor != nil {
			vx.Reach("cursor-in-reply")
		}
	}
}
func VH_H_CreateSchedule() {
	s, k := vhServer()
	s.createSchedule(vx.GinContext("POST"))
	vhCheck(k, t_api.CreateSchedule)
	if k.calls == 1 {
		b, _ := vx.GinBound("JSON", 0).(*createScheduleBody)
		h, _ := vx.GinBound("Header", 0).(*createScheduleHeader)
		q := k.req.CreateSchedule
		vx.Assert(b != nil && h != nil, "C20:http-kernel-called-only-with-a-bound-request")
		vx.Assert(q.Id == b.Id && q.Description == b.Description && q.Cron == b.Cron && vx.MapEq(q.Tags, b.Tags) && q.PromiseId == b.PromiseId && vx.SameDatum(q.PromiseTimeout, b.PromiseTimeout) &&
			vhValueEq(q.PromiseParam, b.PromiseParam) && vx.MapEq(q.PromiseTags, b.PromiseTags) && vhIkeyEq(q.IdempotencyKey, h.IdempotencyKey), "C20:http-request-fields-copied")
		if b != nil && h != nil {
			vx.Accepts(b.PromiseTimeout == 0 && b.Description == "" && h.IdempotencyKey == nil, "C15:http-accepts-minimal-schedule")
			vx.Accepts(b.PromiseTimeout == 1<<62 && h.IdempotencyKey != nil, "C15:http-accepts-schedule-with-huge-timeout-and-key")
		}
		if k.err == nil && k.res.CreateSchedule.Status.IsSuccessful() {
			p, ok := vx.HttpBody(0).(*schedule.Schedule)
			vx.Assert(ok && p == k.res.CreateSchedule.Schedule, "C20:http-reply-is-the-kernel-schedule")
		}
	}
}
func VH_H_DeleteSchedule() {
	s, k := vhServer()
	s.deleteSchedule(vx.GinContext("DELETE", "id"))
	vhCheck(k, t_api.DeleteSchedule)
	if k.calls == 1 {
		vx.Assert(k.req.DeleteSchedule.Id == vx.GinParamSent("id"), "C20:http-path-id-reaches-the-kernel-unaltered")
	}
}
func VH_H_AcquireLock() {
	s, k := vhServer()
	s.acquireLock(vx.GinContext("POST"))
	vhCheck(k, t_api.AcquireLock)
	if k.calls == 1 {
		b, _ := vx.GinBound("JSON", 0).(*acquireLockBody)
		q := k.req.AcquireLock
		vx.Assert(b != nil, "C20:http-kernel-called-only-with-a-bound-request")
		vx.Assert(q.ResourceId == b.ResourceId && q.ExecutionId == b.ExecutionId && q.ProcessId == b.ProcessId && q.Ttl == b.Ttl, "C20:http-request-fields-copied")
		if b != nil {
			vx.Accepts(b.Ttl == 0, "C15:http-accepts-lock-ttl-zero")
			vx.Accepts(b.Ttl == 1<<40, "C15:http-accepts-lock-ttl-large")
		}
	}
}
func VH_H_ReleaseLock() {
	s, k := vhServer()
	s.releaseLock(vx.GinContext("POST"))
	vhCheck(k, t_api.ReleaseLock)
	if k.calls == 1 {
		b, _ := vx.GinBound("JSON", 0).(*releaseLockBody)
		q := k.req.ReleaseLock
		vx.Assert(b != nil, "C20:http-kernel-called-only-with-a-bound-request")
		vx.Assert(q.ResourceId == b.ResourceId && q.ExecutionId == b.ExecutionId, "C20:http-request-fields-copied")
	}
}
func VH_H_HeartbeatLocks() {
	s, k := vhServer()
	s.heartbeatLocks(vx.GinContext("POST"))
	vhCheck(k, t_api.HeartbeatLocks)
	if k.calls == 1 {
		b, _ := vx.GinBound("JSON", 0).(*heartbeatLocksBody)
		vx.Assert(b != nil && k.req.HeartbeatLocks.ProcessId == b.ProcessId, "C20:http-request-fields-copied")
	}
}

func vhMethod() string {
	if vx.Choose(2) == 0 {
		return "GET"
	}
	return "POST"
}
func VH_H_ClaimTask() {
	s, k := vhServer()
	m := vhMethod()
	s.claimTask(vx.GinContext(m))
	vhCheck(k, t_api.ClaimTask)
	if k.calls == 1 && k.err == nil && k.res.ClaimTask.Status == t_api.StatusCreated && vx.HttpReplies() == 1 {
		// the claim payload lists exactly the promises the kernel returned: the root always, the leaf for a resume
		ms := k.res.ClaimTask.Task.Mesg
		body, _ := vx.HttpBody(0).(gin.H)
		ps, _ := body["promises"].(gin.H)
		_, hasRoot := ps["root"]
		_, hasLeaf := ps["leaf"]
		vx.Assert(body != nil && ps != nil && hasRoot && hasLeaf == (string(ms.Type) == "resume") && len(ps) == vhB(hasLeaf)+1, "C15:claim-payload-lists-the-kernels-promises")
		root, _ := ps["root"].(gin.H)
		vx.Assert(root != nil && root["id"] == ms.Root && root["href"] == k.res.ClaimTask.RootPromiseHref, "C15:claim-payload-root")
	}
	if k.calls == 1 {
		q := k.req.ClaimTask
		if m == "GET" {
			vx.Assert(q.Id == vx.GinParamSent("id"), "C20:http-path-id-reaches-the-kernel-unaltered")
			// the links handed out with a dispatched task: claiming through the link identifies the holder as
			// "<task id>/<counter>" with the default lease, which is what the heartbeat link renews
			vx.Assert(vx.And(q.Counter == vx.Atoi(vx.GinParamSent("counter")), q.ProcessId == q.Id+"/"+vx.Itoa(int64(q.Counter)), int64(q.Ttl) == 60000), "C07:http-claim-link-names-task-counter-and-holder")
		} else {
			b, _ := vx.GinBound("JSON", 0).(*claimTaskBody)
			vx.Assert(b != nil && q.Id == b.Id && q.Counter == b.Counter && q.ProcessId == b.ProcessId && q.Ttl == b.Ttl, "C20:http-request-fields-copied")
			if b != nil {
				vx.Accepts(b.Ttl == 0, "C15:http-accepts-claim-ttl-zero")
				vx.Accepts(b.Ttl == 1<<30 && b.Counter == 1, "C15:http-accepts-claim-first-counter")
			}
		}
	}
}
func VH_H_CompleteTask() {
	s, k := vhServer()
	m := vhMethod()
	s.completeTask(vx.GinContext(m))
	vhCheck(k, t_api.CompleteTask)
	if k.calls == 1 {
		q := k.req.CompleteTask
		if m == "GET" {
			vx.Assert(q.Id == vx.GinParamSent("id"), "C20:http-path-id-reaches-the-kernel-unaltered")
		} else {
			b, _ := vx.GinBound("JSON", 0).(*completeTaskBody)
			vx.Assert(b != nil && q.Id == b.Id && q.Counter == b.Counter, "C20:http-request-fields-copied")
			if b != nil {
				vx.Accepts(b.Counter == 1, "C15:http-accepts-complete-task-first-counter")
			}
		}
	}
}
func VH_H_HeartbeatTasks() {
	s, k := vhServer()
	m := vhMethod()
	s.heartbeatTasks(vx.GinContext(m))
	vhCheck(k, t_api.HeartbeatTasks)
	if k.calls == 1 {
		q := k.req.HeartbeatTasks
		if m == "GET" {
			// the heartbeat link renews the lease of exactly the holder the claim link registered
			vx.Assert(q.ProcessId == vx.GinParamSent("id")+"/"+vx.Itoa(int64(vx.Atoi(vx.GinParamSent("counter")))), "C07:http-heartbeat-link-renews-the-claim-links-holder")
		} else {
			b, _ := vx.GinBound("JSON", 0).(*heartbeatTaskBody)
			vx.Assert(b != nil && q.ProcessId == b.ProcessId, "C20:http-request-fields-copied")
		}
	}
}

func vhB(b bool) int {
	if b {
		return 1
	}
	return 0
}
