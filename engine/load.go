package main

import (
	"fmt"
	"go/constant"
	"go/token"
	"go/types"
	"os"
	"path/filepath"
	"strings"
	"sync"

	"golang.org/x/tools/go/packages"
	"golang.org/x/tools/go/ssa"
	"golang.org/x/tools/go/ssa/ssautil"
)

const repoMod = "github.com/resonatehq/resonate"

type Program struct {
	prog     *ssa.Program
	fset     *token.FileSet
	pkgs     map[string]*ssa.Package // by import path
	tpkgs    map[string]*packages.Package
	sqlCache sync.Map
	repoDir  string
	errType  types.Type
	schemas  map[string]*Schema
	mu       sync.Mutex
	regOnce  sync.Once
	reg      map[int64][]*ssa.Function
	regBg    []*ssa.Function
}

func (p *Program) isRepoPkg(path string) bool { return strings.HasPrefix(path, repoMod) }

// harnessOverlay maps /verif/harness/<relpkgdir>/*.go to /repo/<relpkgdir>/zz_verif_*.go
func harnessOverlay(repoDir, harnessDir string) (map[string][]byte, []string, error) {
	ov := map[string][]byte{}
	var files []string
	err := filepath.Walk(harnessDir, func(path string, info os.FileInfo, err error) error {
		if err != nil {
			return err
		}
		if info.IsDir() || !strings.HasSuffix(path, ".go") {
			return nil
		}
		rel, _ := filepath.Rel(harnessDir, path)
		dir := filepath.Dir(rel)
		base := filepath.Base(rel)
		b, err := os.ReadFile(path)
		if err != nil {
			return err
		}
		if strings.Contains(string(b), "//go:build vxnative") {
			return nil // native-only replay support files
		}
		target := filepath.Join(repoDir, dir, "zz_verif_"+base)
		ov[target] = b
		files = append(files, target)
		// store harnesses named both_*.go are instantiated for the Postgres backend as well
		if strings.HasPrefix(base, "both_") && strings.HasSuffix(dir, "store/sqlite") {
			pg := strings.NewReplacer("package sqlite", "package postgres", "SqliteStoreWorker", "PostgresStoreWorker", "SqliteStore", "PostgresStore", "\"sqlite\"", "\"postgres\"").Replace(string(b))
			t2 := filepath.Join(repoDir, filepath.Dir(dir), "postgres", "zz_verif_"+base)
			ov[t2] = []byte(pg)
			files = append(files, t2)
		}
		return nil
	})
	return ov, files, err
}

func LoadProgram(repoDir, harnessDir string, patterns []string) (*Program, error) {
	ov, _, err := harnessOverlay(repoDir, harnessDir)
	if err != nil {
		return nil, err
	}
	env := append(os.Environ(), "GOFLAGS=-mod=mod", "GOPROXY=off", "GOSUMDB=off", "GOTOOLCHAIN=local")
	cfg := &packages.Config{Mode: packages.LoadSyntax, Dir: repoDir, Overlay: ov, Env: env}
	pkgs, err := packages.Load(cfg, patterns...)
	if err != nil {
		return nil, err
	}
	var errs []string
	for _, p := range pkgs {
		for _, e := range p.Errors {
			errs = append(errs, e.Error())
		}
	}
	if len(errs) > 0 {
		return nil, fmt.Errorf("package load errors:\n%s", strings.Join(errs, "\n"))
	}
	prog, spkgs := ssautil.Packages(pkgs, ssa.InstantiateGenerics)
	prog.Build()
	P := &Program{prog: prog, pkgs: map[string]*ssa.Package{}, tpkgs: map[string]*packages.Package{}, repoDir: repoDir, schemas: map[string]*Schema{}}
	for i, sp := range spkgs {
		if sp != nil {
			P.pkgs[sp.Pkg.Path()] = sp
			P.tpkgs[sp.Pkg.Path()] = pkgs[i]
		}
	}
	if len(pkgs) > 0 {
		P.fset = pkgs[0].Fset
	}
	P.errType = types.Universe.Lookup("error").Type()
	return P, nil
}

func (p *Program) pkg(path string) *ssa.Package {
	if !strings.Contains(path, ".") || !strings.HasPrefix(path, repoMod) {
		if sp, ok := p.pkgs[repoMod+"/"+path]; ok {
			return sp
		}
	}
	return p.pkgs[path]
}

func (p *Program) findFunc(pkgPath, name string) *ssa.Function {
	sp := p.pkg(pkgPath)
	if sp == nil {
		return nil
	}
	return sp.Func(name)
}

// method finds a method of a named type: ("pkg", "(*T).M" or "T.M")
func (p *Program) method(pkgPath, typeName, methodName string, ptr bool) *ssa.Function {
	sp := p.pkg(pkgPath)
	if sp == nil {
		return nil
	}
	tn := sp.Type(typeName)
	if tn == nil {
		return nil
	}
	var t types.Type = tn.Type()
	if ptr {
		t = types.NewPointer(t)
	}
	sel := p.prog.MethodSets.MethodSet(t).Lookup(sp.Pkg, methodName)
	if sel == nil {
		return nil
	}
	return p.prog.MethodValue(sel)
}

func (p *Program) namedType(pkgPath, typeName string) types.Type {
	sp := p.pkg(pkgPath)
	if sp == nil {
		return nil
	}
	tn := sp.Type(typeName)
	if tn == nil {
		return nil
	}
	return tn.Type()
}

func (p *Program) constString(pkgPath, name string) (string, bool) {
	sp := p.pkg(pkgPath)
	if sp == nil {
		return "", false
	}
	c := sp.Const(name)
	if c == nil || c.Value == nil || c.Value.Value == nil || c.Value.Value.Kind() != constant.String {
		return "", false
	}
	return constant.StringVal(c.Value.Value), true
}

// errorStringType: a stand-in dynamic type for engine-made interface values.
func (p *Program) errorStringType() types.Type {
	return types.NewPointer(types.Typ[types.Int])
}

func (p *Program) schema(backend string) (*Schema, error) {
	p.mu.Lock()
	defer p.mu.Unlock()
	if s, ok := p.schemas[backend]; ok {
		return s, nil
	}
	path := "internal/app/subsystems/aio/store/" + backend
	text, ok := p.constString(path, "CREATE_TABLE_STATEMENT")
	if !ok {
		return nil, fmt.Errorf("CREATE_TABLE_STATEMENT not found in %s", path)
	}
	s, err := BuildSchema(backend, text)
	if err != nil {
		return nil, err
	}
	p.schemas[backend] = s
	return s, nil
}

var errNoRowsObj = &OpaqueV{kind: "error", data: "sql: no rows in result set", id: -1}
var errTxDoneObj = &OpaqueV{kind: "error", data: "sql: transaction has already been committed or rolled back", id: -2}

func (p *Program) errTxDone() Value { return &IfaceV{typ: p.errorStringType(), v: errTxDoneObj} }

func (p *Program) errNoRows(ex *Exec) Value {
	return &IfaceV{typ: p.errorStringType(), v: errNoRowsObj}
}

func (ex *Exec) externGlobal(g *ssa.Global, et types.Type) (Value, bool) {
	if g.Pkg == nil {
		return nil, false
	}
	full := g.Pkg.Pkg.Path() + "." + g.Name()
	switch full {
	case "database/sql.ErrNoRows":
		return ex.P.errNoRows(ex), true
	case "database/sql.ErrTxDone":
		return ex.P.errTxDone(), true
	}
	if !ex.P.isRepoPkg(g.Pkg.Pkg.Path()) {
		// unknown external global: opaque value of its type
		if _, isIface := et.Underlying().(*types.Interface); isIface {
			return &IfaceV{typ: ex.P.errorStringType(), v: &OpaqueV{kind: "extern", data: full}}, true
		}
	}
	return nil, false
}
