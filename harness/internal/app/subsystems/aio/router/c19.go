package router

// C19 / C13: receiver resolution from the routing tag, for every tag value.

import (
	"github.com/resonatehq/resonate/internal/kernel/bus"
	"github.com/resonatehq/resonate/internal/kernel/t_aio"
	"github.com/resonatehq/resonate/internal/vx"
	"github.com/resonatehq/resonate/pkg/promise"
	"github.com/resonatehq/resonate/pkg/receiver"
)

func VH_RT_Tag() {
	w := &RouterWorker{sources: []func(*promise.Promise) (any, bool){TagSource(&TagSourceConfig{Key: "resonate:invoke"})}}
	tags := vx.Tags("tags", 1)
	has := vx.Bool("hasInvoke")
	v := vx.String("invoke")
	if has {
		tags["resonate:invoke"] = v
	} else {
		vx.Assume(!vx.MapHas(tags, "resonate:invoke"))
	}
	p := &promise.Promise{Id: vx.String("id"), State: promise.Pending, Tags: tags}
	cqe := w.Process(&bus.SQE[t_aio.Submission, t_aio.Completion]{Id: "r", Submission: &t_aio.Submission{Kind: t_aio.Router, Tags: map[string]string{},
		Router: &t_aio.RouterSubmission{Promise: p}}, Callback: func(*t_aio.Completion, error) {}})
	vx.Assert(cqe != nil && cqe.Error == nil && cqe.Completion != nil && cqe.Completion.Router != nil, "C19:router-always-answers")
	r := cqe.Completion.Router
	if !has {
		vx.Reach("no-tag")
		vx.Assert(!r.Matched, "C19:no-routing-tag-no-task")
		return
	}
	if !vx.JsonValid(v) {
		vx.Reach("plain-string")
		// a plain string is kept as a logical name
		vx.Assert(r.Matched && vx.BytesStr(r.Recv) == vx.JsonOfString(v), "C19:plain-string-kept-as-logical-name")
		return
	}
	if r.Matched {
		vx.Reach("json-receiver")
		// only a receiver object with a non-empty type routes
		got, _ := vx.Unmarshalled(r.Recv).(any)
		_ = got
		vx.Assert(!vx.BytesNil(r.Recv), "C19:json-receiver-kept-as-physical")
		// "addressed exactly as its routing tag says": an object carrying members a receiver does not have is
		// not a receiver object, and routing it would silently drop those members from the address
		vx.Assert(!vx.JsonUnknownFields(v, (*receiver.Recv)(nil)), "C19:json-with-foreign-members-does-not-route")
	} else {
		vx.Reach("json-not-a-receiver")
	}
}
